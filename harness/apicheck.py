"""API-level correspondence for the table glue (C01, C02, C03, C09, C11 share it).

One case = one generated election run through ModelClient.get_estimates.  The Lean model recomputes
  (a) the three-way split and every unit's category / counted votes from (baseline, feed, configuration), and
  (b) every aggregate table from the unit table (nonreporting predictions and bounds are the oracle),
and the property predicates are evaluated on the implementation's tables directly (monitors).
"""
import math
from fractions import Fraction

import numpy as np
import pandas as pd

from harness import common as C
from harness import election as E

AGG_ORDER = ["postal_code", "district", "county_classification", "county_fips"]
LABEL = {"postal_code": "state_data", "county_fips": "county_data", "district": "district_data",
         "county_classification": "classification_data"}
CATS = {
    "expected", "unexpected", "non-modeled: blocklisted", "non-modeled: zero baseline",
    "non-modeled: strange turnout factor", "non-modeled: strange turnout factor modeled",
    "non-modeled: strange margin change modeled",
}


def gen_case(rng, pi_method=None, size="small", **kw):
    pi = pi_method or rng.choice(["nonparametric", "gaussian", "bootstrap"])
    district = kw.pop("district") if "district" in kw else rng.random() < 0.25
    aggregates = kw.pop("aggregates", None)
    kw.setdefault("min_reporting", 12 if pi == "bootstrap" else 8)
    if "roles" not in kw and rng.random() < 0.12:
        # nothing left to predict: every baseline unit has reported (or is excluded), plus unexpected units
        kw["roles"] = ["reporting"] * 8 + ["blocklisted", "zero-baseline", "strange-low", "strange-high"]
        kw["all_reported"] = True
    all_reported = kw.pop("all_reported", False)
    if district and "many_districts" not in kw and rng.random() < 0.3:
        kw["many_districts"] = True
    e = E.gen_election(rng, size=size, district=district, **kw)
    if not all_reported and rng.random() < 0.08:
        # a caller that takes every unit that has appeared at all: a reporting threshold of 0 (int or float) - nothing is outstanding
        e.threshold = rng.choice([0, 0.0])
    if all_reported:
        # excluded units may sit below the threshold; reporting units must not
        for i in e.cur.index:
            if e.roles.get(e.cur.loc[i, "geographic_unit_fips"]) == "reporting":
                e.cur.loc[i, "percent_expected_vote"] = max(float(e.cur.loc[i, "percent_expected_vote"]), e.threshold)
    if pi == "bootstrap" and not district and rng.random() < 0.5:
        # early in the night: a unit that is not in the prepared data, in a county that is not there either, without a vote yet - a
        # group whose predicted two-party turnout is exactly zero
        rows = e.pre.to_dict(orient="records")
        r = E.unexpected_row(rng, e, rows, kind="unknown-county", votes=(0, 0))
        if r["geographic_unit_fips"] not in set(e.cur["geographic_unit_fips"]):
            r["results_turnout"] = 0
            e.cur = pd.concat([e.cur, pd.DataFrame([r])], ignore_index=True)
            if aggregates is None:
                aggregates = rng.choice([["postal_code", "county_fips", "unit"], ["county_fips", "postal_code"], ["unit", "county_fips", "postal_code"]])
    if pi == "bootstrap":
        estimands = ["margin"]
        alphas = rng.sample([0.5, 0.75, 0.9], 2)
        params = E.boot_params(B=rng.choice([4, 8, 12]))
        features = ["baseline_normalized_margin"]
    else:
        estimands = rng.choice([["turnout"], ["dem"], ["turnout", "dem"], ["dem", "gop", "turnout"]])
        alphas = rng.sample([0.5, 0.6, 0.7], rng.choice([1, 2])) if pi == "nonparametric" else rng.sample([0.5, 0.7, 0.9], 2)
        params = {"robust": rng.random() < 0.3} if pi == "nonparametric" else {}
        features = rng.choice([[], [], ["x1"], ["x1", "x2"]])
    if features and rng.random() < 0.6:
        # an outstanding unit far outside the covariate range of the reporting ones: the extrapolated lower / median / upper lines cross
        out_ids = [u for u, r in e.roles.items() if r in ("partial", "zero-percent", "missing", "no-expected-vote")]
        for u in rng.sample(out_ids, min(2, len(out_ids))):
            e.pre.loc[e.pre["geographic_unit_fips"] == u, "x1"] = rng.choice([6.0, -6.0, 8.0])
    tf_lo, tf_hi = 0.5, 2.0
    if rng.random() < 0.3:
        # 0 is a valid lower limit ("keep every unit that has votes"), as an int or a float
        tf_lo, tf_hi = rng.choice([0, 0.0, 0.25, 0.5, 0.75]), rng.choice([1.5, 2.0, 3.0])
        params = dict(params, turnout_factor_lower=tf_lo, turnout_factor_upper=tf_hi)
    history = None
    if rng.random() < 0.2:
        history = {"estimands": rng.choice([["margin"], ["turnout"], ["dem", "turnout"]]) if pi != "bootstrap" else ["margin"],
                   "scale": rng.choice([0.3, 0.5, 0.8])}
    return {
        "frame_history": history,
        "election": e, "pi_method": pi, "estimands": estimands, "alphas": alphas, "params": params,
        "features": features, "policy": rng.choice(["drop", "zero"]), "aggregates": aggregates or E.pick_aggregates(rng, e),
        "tf_lo": tf_lo, "tf_hi": tf_hi, "derived_feed": pi == "bootstrap" and rng.random() < 0.35,
    }


def case_json(case):
    d = {k: v for k, v in case.items() if k != "election"}
    d["election"] = case["election"].to_json()
    return d


def case_from_json(d):
    c = dict(d)
    c["election"] = E.Election.from_json(d["election"])
    return c


def light(case):
    d = {k: v for k, v in case.items() if k != "election"}
    d["election"] = case["election"].describe()
    return d


def run_case(case, **kw):
    e = case["election"]
    return E.run_client(e, estimands=case["estimands"], alphas=case["alphas"], pi_method=case["pi_method"],
                        aggregates=case["aggregates"], params=case["params"], policy=case["policy"],
                        features=case["features"], derived_feed=bool(case.get("derived_feed")),
                        frame_history=case.get("frame_history"), **kw)


# ----------------------------------------------------------------------------------------------
# (a) the split


def _num(x):
    return None if (x is None or (isinstance(x, float) and math.isnan(x))) else x


def feed_values(case, row):
    """results per requested estimand + results_weights of a feed row, as the Estimandizer derives them"""
    d, g, t = _num(row["results_dem"]), _num(row["results_gop"]), _num(row["results_turnout"])
    res = []
    for est in case["estimands"]:
        if est == "margin":
            res.append(None if d is None or g is None else d - g)
        else:
            res.append({"dem": d, "gop": g, "turnout": t}[est])
    rw = (None if d is None or g is None else d + g) if "margin" in case["estimands"] else t
    return res, rw


def split_op(case):
    e = case["election"]
    ids = sorted(set(e.pre["geographic_unit_fips"]) | set(e.cur["geographic_unit_fips"]))
    states = sorted(set(e.pre["postal_code"]) | set(e.cur["postal_code"]))
    irank = {u: i for i, u in enumerate(ids)}
    srank = {s: i for i, s in enumerate(states)}
    margin = "margin" in case["estimands"]
    base = []
    for r in e.pre.to_dict(orient="records"):
        if r["postal_code"] not in e.states:
            continue
        bw = (r["baseline_dem"] + r["baseline_gop"]) if margin else r["baseline_turnout"]
        base.append([irank[r["geographic_unit_fips"]], srank[r["postal_code"]], C.rat(bw)])
    feed = []
    for r in e.cur.to_dict(orient="records"):
        res, rw = feed_values(case, r)
        feed.append([irank[r["geographic_unit_fips"]], srank[r["postal_code"]], None if _num(r["percent_expected_vote"]) is None else C.rat(r["percent_expected_vote"]),
                     [None if x is None else C.rat(x) for x in res], None if rw is None else C.rat(rw)])
    op = {
        "op": "units.split", "policy": case["policy"], "thr": C.rat(e.threshold), "tfLo": C.rat(case["tf_lo"]),
        "tfHi": C.rat(case["tf_hi"]), "unitBlock": [irank[u] for u in e.unit_blocklist if u in irank],
        "stateBlock": [srank[s] for s in e.postal_code_blocklist if s in srank], "nres": len(case["estimands"]),
        "base": base, "feed": feed,
    }
    return op, ids


def model_unit_view(mout, ids):
    """id -> (category, reporting flag, [results])"""
    out = {}
    for r in mout["rep"]:
        out[ids[r[0]]] = ("expected", 1, [C.unrat(x) for x in r[1]])
    for r in mout["nonrep"]:
        out[ids[r[0]]] = ("expected", 0, [C.unrat(x) for x in r[1]])
    for r in mout["unexp"]:
        out[ids[r[0]]] = ("unexpected", 0, [None if x is None else C.unrat(x) for x in r[1]])
    for r, cat in mout["nonmod"]:
        out[ids[r[0]]] = (cat, 0, [C.unrat(x) for x in r[1]])
    return out


def impl_unit_view(case, tables):
    ud = tables["unit_data"]
    out = {}
    dup = []
    for r in ud.to_dict(orient="records"):
        u = r["geographic_unit_fips"]
        if u in out:
            dup.append(u)
        res = []
        for est in case["estimands"]:
            v = r.get(f"results_{est}")
            res.append(None if v is None or (isinstance(v, float) and math.isnan(v)) else C.frac(v))
        out[u] = (r.get("unit_category"), int(r["reporting"]), res)
    return out, dup


def universe(case):
    """ids every run must report exactly once"""
    e = case["election"]
    feed_ids = list(e.cur["geographic_unit_fips"])
    if case["policy"] == "drop":
        return set(feed_ids)
    base_ids = [r["geographic_unit_fips"] for r in e.pre.to_dict(orient="records") if r["postal_code"] in e.states]
    return set(feed_ids) | set(base_ids)


def kf1_ids(case):
    """known finding KF-1: zero policy, feed id present in the baseline under another postal code"""
    e = case["election"]
    if case["policy"] != "zero":
        return set()
    base = {r["geographic_unit_fips"]: r["postal_code"] for r in e.pre.to_dict(orient="records")}
    return {r["geographic_unit_fips"] for r in e.cur.to_dict(orient="records")
            if r["geographic_unit_fips"] in base and base[r["geographic_unit_fips"]] != r["postal_code"]}


def check_split(run, case, tables, mout, ids, props):
    L = light(case)
    iv, dup = impl_unit_view(case, tables)
    uni = universe(case)
    if "C01" in props:
        if dup:
            run.violation("a unit appears more than once in the unit table", input=L, impl=dup[:5],
                          predicate="split_ids_nodup", signature="C01:dup", replay_case=case_json(case))
        if set(iv) != uni:
            run.violation("unit table does not contain every unit exactly once", input=L,
                          impl={"missing": sorted(uni - set(iv))[:5], "extra": sorted(set(iv) - uni)[:5]},
                          predicate="split_ids_complete", signature="C01:universe", replay_case=case_json(case))
        for u, (cat, rep, res) in iv.items():
            if cat not in CATS:
                run.violation("unit without exactly one known category", input=L, impl={u: cat},
                              predicate="split_partition", signature="C01:category", replay_case=case_json(case))
                break
        # every vote of the feed is in the unit table
        e = case["election"]
        kf = kf1_ids(case)
        for r in e.cur.to_dict(orient="records"):
            u = r["geographic_unit_fips"]
            want, _ = feed_values(case, r)
            got = iv.get(u)
            if got is None:
                continue
            for w, g in zip(want, got[2]):
                if w is None:
                    continue
                if g is None or C.frac(w) != g:
                    if u in kf:
                        run.violation("votes of a feed row vanish (zero policy, id in baseline under another postal code)",
                                      input=L, impl={u: str(g)}, expected=str(w), predicate="counted_conserved",
                                      signature="KF-1", replay_case=case_json(case))
                    else:
                        run.violation("counted votes of a unit differ from the feed", input=L,
                                      impl={u: str(g)}, expected=str(w), predicate="counted_conserved",
                                      signature="C01:unit-votes", replay_case=case_json(case))
                    break
    if mout is None:
        return iv
    mv = model_unit_view(mout, ids)
    if set(mv) != set(iv):
        if "C09" in props:
            run.violation("a unit the rules place in a frame is missing from (or extra in) the unit table", input=L,
                          impl=sorted(set(iv) - set(mv))[:5], expected=sorted(set(mv) - set(iv))[:5],
                          predicate="predicted_iff", signature="C09:unit-set", replay_case=case_json(case))
        run.diff("unit set: model split vs implementation", input=L,
                 impl=sorted(set(iv) - set(mv))[:5], model=sorted(set(mv) - set(iv))[:5], replay_case=case_json(case))
        return iv
    for u in mv:
        mc, mr, mres = mv[u]
        ic, ir, ires = iv[u]
        if mc != ic or mr != ir:
            what = "category / reporting flag: model vs implementation"
            if "C01" in props and (mr != ir or (mc == "expected") != (ic == "expected")):
                run.violation("a unit is counted as modelled-and-reporting (or not) against the rules: the reporting column of its groups "
                              "is not the number of modelled units at or above the threshold", input=L, impl={u: [ic, ir]},
                              expected=[mc, mr], predicate="counted_conserved (reporting column)", signature="C01:reporting",
                              replay_case=case_json(case))
            if "C09" in props:
                run.violation("unit category does not follow the eligibility rules", input=L,
                              impl={u: [ic, ir]}, expected=[mc, mr], predicate="category_rules", signature="C09:category",
                              replay_case=case_json(case))
            run.diff(what, input=L, unit=u, impl=[ic, ir], model=[mc, mr], replay_case=case_json(case))
            break
        if [x for x in mres] != [x for x in ires]:
            run.diff("counted votes: model split vs implementation", input=L, unit=u, impl=[str(x) for x in ires],
                     model=[str(x) for x in mres], replay_case=case_json(case))
            break
    run.traces += 1
    return iv


# ----------------------------------------------------------------------------------------------
# (b) aggregate levels


def unit_geo(case):
    """id -> {postal_code, county_fips, district, county_classification} as the frames carry them"""
    e = case["election"]
    # the client adds the office's default levels (district in a district election) to the requested ones
    aggs = list(case["aggregates"]) + (["district"] if e.office in ("H", "Y", "Z") else [])
    geo = {}
    for r in e.pre.to_dict(orient="records"):
        geo[r["geographic_unit_fips"]] = {k: r.get(k) for k in AGG_ORDER}
    out = {}
    for r in e.cur.to_dict(orient="records"):
        u = r["geographic_unit_fips"]
        comps = u.split("_")
        g = {"postal_code": r["postal_code"], "county_fips": None, "district": None, "county_classification": None}
        if "county_fips" in aggs:
            g["county_fips"] = comps[1] if "district" in e.unit_type and len(comps) > 1 else comps[0]
        if "district" in aggs:
            g["district"] = comps[0]
        out[u] = g
    return geo, out


def aggregate_list(case, level):
    office = case["election"].office
    base = ["postal_code", "district"] if office in ("H", "Y", "Z") else ["postal_code"]
    return sorted(set(base + [level]), key=AGG_ORDER.index)


def levels_of(case):
    return [a for a in case["aggregates"] if a != "unit"]


def level_ops(case, tables, iv_unit):
    """one agg.level op per (estimand, level, alpha-independent columns + first alpha) from the implementation's unit table"""
    ud = tables["unit_data"].to_dict(orient="records")
    base_geo, unexp_geo = unit_geo(case)
    kf = kf1_ids(case)
    ops, meta = [], []
    for level in levels_of(case):
        al = aggregate_list(case, level)
        cls = "county_classification" in al
        keyset = set()
        rows = []
        for r in ud:
            u = r["geographic_unit_fips"]
            cat = r["unit_category"]
            # an id that exists in the baseline under another postal code is looked up as unexpected
            geo = unexp_geo.get(u) if cat == "unexpected" else base_geo.get(u)
            if geo is None:
                geo = {"postal_code": r["postal_code"]}
            key = tuple(geo.get(k) for k in al)
            if any(k is None or (isinstance(k, float) and math.isnan(k)) for k in key):
                key = None
            else:
                key = tuple(str(k) for k in key)
                keyset.add(key)
            rows.append((r, cat, key))
        order = sorted(keyset)
        krank = {k: i for i, k in enumerate(order)}
        open_keys = {key for r, cat, key in rows if key is not None and cat == "expected" and int(r["reporting"]) == 0}
        for est in case["estimands"]:
            for a in case["alphas"]:
                rep, nonrep, unexp = [], [], []
                for r, cat, key in rows:
                    def f(x):
                        return "0" if x is None or (isinstance(x, float) and math.isnan(x)) else C.rat(x)

                    rec = [None if key is None else krank[key], f(r.get(f"results_{est}")), f(r.get(f"pred_{est}")),
                           f(r.get(f"lower_{a}_{est}")), f(r.get(f"upper_{a}_{est}")), str(int(r["reporting"]))]
                    if cat == "expected" and int(r["reporting"]) == 1:
                        rep.append(rec)
                    elif cat == "expected":
                        nonrep.append(rec)
                    else:
                        unexp.append(rec)
                ops.append({"op": "agg.level", "cls": cls, "rep": rep, "nonrep": nonrep, "unexp": unexp})
                meta.append({"level": level, "agg_list": al, "estimand": est, "alpha": a, "order": order, "cls": cls, "open_keys": open_keys})
    return ops, meta


def impl_level_rows(tables, m):
    df = tables.get(LABEL[m["level"]])
    if df is None:
        return None
    est, a = m["estimand"], m["alpha"]
    out = []
    if any(k not in df.columns for k in m["agg_list"]):
        return {"missing_key_columns": [k for k in m["agg_list"] if k not in df.columns]}
    for r in df.to_dict(orient="records"):
        key = tuple(str(r[k]) for k in m["agg_list"])
        out.append((key, r.get(f"pred_{est}"), r.get(f"results_{est}"), r.get("reporting"),
                    r.get(f"lower_{a}_{est}"), r.get(f"upper_{a}_{est}")))
    return out


def check_levels(run, case, tables, outs, meta, props):
    L = light(case)
    count_est = case["pi_method"] != "bootstrap"
    for m, o in zip(meta, outs):
        rows = impl_level_rows(tables, m)
        if rows is None:
            run.diff("aggregate table missing", input=L, level=m["level"], replay_case=case_json(case))
            continue
        if isinstance(rows, dict):
            for pr, sig in (("C01", "C01:agg-groups"), ("C02", "C02:agg-groups"), ("C13", "C13:keys")):
                if pr in props:
                    run.violation("an aggregate table lacks key columns of its level: its groups are not the groups the units are "
                                  "attributable to", input=L, where={"level": m["level"]}, impl=rows, predicate="group_exists_iff",
                                  signature=sig, replay_case=case_json(case))
            continue
        if o is None:
            continue
        mp = {m["order"][r[0]]: r for r in o["pred"]}
        mnp = {m["order"][r[0]]: r for r in o["np"]}
        ikeys = [r[0] for r in rows]
        mkeys = [m["order"][r[0]] for r in o["pred"]]
        tag = {"level": m["level"], "estimand": m["estimand"], "alpha": m["alpha"]}
        if ikeys != mkeys:
            if "C02" in props or "C01" in props:
                run.diff("aggregate table keys / row order: model vs implementation", input=L, impl=ikeys[:8],
                         model=mkeys[:8], where=tag, replay_case=case_json(case))
            extra, missing = [k for k in ikeys if k not in mp], [k for k in mkeys if k not in set(ikeys)]
            if extra or missing:
                # the groups themselves differ: votes were moved to a group no unit is attributable to, or a group is lost
                for pr, sig, pred_ in (("C01", "C01:agg-groups", "group_exists_iff"), ("C02", "C02:agg-groups", "agg_row_exists_iff")):
                    if pr in props:
                        run.violation("the groups of an aggregate table are not exactly the groups its units are attributable to",
                                      input=L, where=tag, impl={"groups without attributable units": [list(k) for k in extra[:5]],
                                                                "groups missing": [list(k) for k in missing[:5]]},
                                      predicate=pred_, signature=sig, replay_case=case_json(case))
        for (key, pred, res, rep, lo, hi) in rows:
            if key not in mp:
                continue
            mr = mp[key]
            m_pred, m_res, m_rep = C.unrat(mr[1]), C.unrat(mr[2]), C.unrat(mr[3])
            if count_est:
                # C01: counted column and reporting column
                if "C01" in props and (C.frac(res) != m_res or C.frac(rep) != m_rep):
                    run.violation("aggregate counted votes / reporting count is not the sum over the attributable units",
                                  input=L, where=tag, group=list(key), impl=[res, rep], expected=[str(m_res), str(m_rep)],
                                  predicate="counted_conserved", signature="C01:agg-votes", replay_case=case_json(case))
                # C02: prediction = counted + sum of unit predictions; nonparametric bounds likewise
                if "C02" in props:
                    if C.frac(pred) != m_pred:
                        run.violation("aggregate prediction is not counted votes plus the sum of its units' predictions",
                                      input=L, where=tag, group=list(key), impl=pred, expected=str(m_pred),
                                      predicate="agg_pred_is_sum", signature="C02:agg-pred", replay_case=case_json(case))
                    if case["pi_method"] == "nonparametric":
                        want = mnp[key]
                        if [C.frac(lo), C.frac(hi)] != [Fraction(want[1]), Fraction(want[2])]:
                            run.violation("nonparametric aggregate bounds are not the sums of the unit bounds",
                                          input=L, where=tag, group=list(key), impl=[lo, hi], expected=want[1:],
                                          predicate="np_bounds_are_sums", signature="C02:np-bounds",
                                          replay_case=case_json(case))
                # interval columns sit on the row of their own group: a group without any nonreporting unit has nothing left to
                # predict, so both bounds are its counted votes - whatever the estimator (a shifted or dropped row shows here)
                if key not in m.get("open_keys", set()) or any(v is None or (isinstance(v, float) and math.isnan(v)) for v in (lo, hi)):
                    closed = key not in m.get("open_keys", set())
                    if any(v is None or (isinstance(v, float) and math.isnan(v)) for v in (lo, hi)) or (closed and not (lo == res == hi)):
                        for pr, sig in (("C02", "C02:row-align"), ("C03", "C03:zero-width")):
                            if pr in props:
                                run.violation("aggregate bounds are missing, or a group with no nonreporting unit does not have both bounds at "
                                              "its counted votes (interval columns are not on the row of their own group)", input=L,
                                              where=tag, group=list(key), impl=[lo, res, hi], predicate="interval_rows_aligned / "
                                              "no_nonreporting_zero_width", signature=sig, replay_case=case_json(case))
                if "C03" in props:
                    vals = [pred, res, lo, hi]
                    if not all(v is not None and math.isfinite(v) and float(v) == int(v) for v in vals):
                        run.violation("aggregate value not a finite whole number", input=L, where=tag, group=list(key),
                                      impl=vals, predicate="agg_floor", signature="C03:agg-whole", replay_case=case_json(case))
                    elif not (pred >= res and lo >= res and hi >= res):
                        run.violation("aggregate prediction or bound below the counted votes", input=L, where=tag,
                                      group=list(key), impl=vals, predicate="agg_floor", signature="C03:agg-floor",
                                      replay_case=case_json(case))
        run.traces += 1


def check_unit_rows(run, case, tables, props, model_view=None):
    """C03 at unit level + C06-style predicates for bootstrap. `model_view`: the split according to the rules (Lean model); a unit
    the rules put among the reporting / unexpected / non-modelled units must be final whatever the implementation called it"""
    if "C03" not in props:
        return
    L = light(case)
    ud = tables["unit_data"]
    # counted votes as they arrived in the feed (first row of a unit id), not as the output table repeats them
    counted = {}
    for fr in case["election"].cur.to_dict(orient="records"):
        counted.setdefault(fr["geographic_unit_fips"], feed_values(case, fr)[0])
    for k, est in enumerate(case["estimands"]):
        for r in ud.to_dict(orient="records"):
            res = r.get(f"results_{est}")
            if res is None or (isinstance(res, float) and math.isnan(res)):
                continue  # a feed row with a missing estimand: outside the property's quantifier
            fv = counted.get(r["geographic_unit_fips"])
            if fv is not None and fv[k] is not None:
                res = fv[k]
            vals = [r.get(f"pred_{est}")] + [r.get(f"{b}_{a}_{est}") for a in case["alphas"] for b in ("lower", "upper")]
            final = not (r["unit_category"] == "expected" and int(r["reporting"]) == 0)
            u = r["geographic_unit_fips"]
            if model_view is not None and u in model_view:
                mc, mrep, _ = model_view[u]
                final = final or not (mc == "expected" and mrep == 0)
            if final:
                if any(v != res for v in vals):
                    run.violation("a reporting / unexpected / non-modelled unit does not carry its counted votes as "
                                  "prediction and both bounds", input=L, impl={u: vals}, expected=res,
                                  predicate="final_rows", signature="C03:final", replay_case=case_json(case))
                    return
            elif case["pi_method"] != "bootstrap":
                if not all(v is not None and math.isfinite(v) and float(v) == int(v) for v in vals):
                    run.violation("unit value not a finite whole number", input=L, impl={u: vals},
                                  predicate="unit_floor", signature="C03:unit-whole", replay_case=case_json(case))
                    return
                if any(v < res for v in vals):
                    run.violation("unit prediction or bound below the counted votes", input=L, impl={u: vals},
                                  expected=f">= {res}", predicate="unit_floor", signature="C03:unit-floor",
                                  replay_case=case_json(case))
                    return


def boot_margin_checks(run, case, tables, props):
    """C01 / C02 clauses for the margin estimand: counted column = sum of unit margins / predicted turnout,
    predicted turnout = sum of unit predicted turnout, prediction = sum of unit predictions / turnout (uncalled)"""
    L = light(case)
    ud = tables["unit_data"].to_dict(orient="records")
    base_geo, unexp_geo = unit_geo(case)
    for level in levels_of(case):
        al = aggregate_list(case, level)
        cls = "county_classification" in al
        df = tables.get(LABEL[level])
        if df is None:
            continue
        sums = {}
        for r in ud:
            u, cat = r["geographic_unit_fips"], r["unit_category"]
            if cls and cat != "expected":
                continue
            geo = unexp_geo.get(u) if cat == "unexpected" else base_geo.get(u)
            if geo is None:
                continue
            key = tuple(geo.get(k) for k in al)
            if any(k is None or (isinstance(k, float) and math.isnan(k)) for k in key):
                continue
            key = tuple(str(k) for k in key)
            s = sums.setdefault(key, [Fraction(0), Fraction(0), Fraction(0), 0])
            rm = r.get("results_margin")
            s[0] += C.frac(rm) if rm is not None and not math.isnan(rm) else 0
            pt = r.get("pred_turnout")
            s[1] += C.frac(pt) if pt is not None and not math.isnan(pt) else 0
            pm = r.get("pred_margin")
            s[2] += C.frac(pm) if pm is not None and not math.isnan(pm) else 0
            s[3] += int(r["reporting"])
        rows = df.to_dict(orient="records")
        if any(k not in df.columns for k in al):
            for pr, sig in (("C01", "C01:agg-groups"), ("C02", "C02:agg-groups"), ("C11", "C11:group")):
                if pr in props:
                    run.violation("an aggregate table lacks key columns of its level: its groups are not the groups the units are "
                                  "attributable to", input=L, where={"level": level}, impl=[k for k in al if k not in df.columns],
                                  predicate="group_exists_iff", signature=sig, replay_case=case_json(case))
            continue
        keys = [tuple(str(r[k]) for k in al) for r in rows]
        if sorted(sums) != keys:
            run.diff("bootstrap aggregate table keys differ from the groups of the unit table", input=L, level=level,
                     impl=keys[:8], model=sorted(sums)[:8], replay_case=case_json(case))
            if set(sums) != set(keys):
                for pr, sig in (("C01", "C01:agg-groups"), ("C02", "C02:agg-groups")):
                    if pr in props:
                        run.violation("the groups of a bootstrap aggregate table are not exactly the groups its units are attributable to",
                                      input=L, where={"level": level}, impl=keys[:8], expected=sorted(sums)[:8],
                                      predicate="group_exists_iff", signature=sig, replay_case=case_json(case))
            if "C11" in props:
                run.violation("an unexpected unit's votes are attributed to a group that is not its own (or a group is missing)",
                              input=L, level=level, impl=keys[:8], expected=sorted(sums)[:8], predicate="groups_after_unexpected",
                              signature="C11:group", replay_case=case_json(case))
            continue
        for r, key in zip(rows, keys):
            s = sums[key]
            if any(math.isnan(r[c]) for c in ("pred_turnout", "pred_margin", "results_margin")):
                nan_feed = bool(case["election"].cur[["results_dem", "results_gop"]].isna().any().any())
                run.violation("bootstrap aggregate is NaN" + (" (a feed row has a NaN count)" if nan_feed else ""),
                              input=L, where={"level": level, "group": list(key)}, impl=str(r),
                              predicate="counted_conserved_margin", signature="C01:boot-nan",
                              replay_case=case_json(case))
                break
            tag = {"level": level, "group": list(key)}
            if "C02" in props and not C.close(r["pred_turnout"], s[1], Fraction(1, 10**7)):
                run.violation("bootstrap: group predicted turnout is not the sum of its units' predicted turnout",
                              input=L, where=tag, impl=r["pred_turnout"], expected=str(float(s[1])),
                              predicate="boot_turnout_is_sum", signature="C02:boot-turnout", replay_case=case_json(case))
                continue
            want_res = s[0] / s[1] if s[1] != 0 else Fraction(0)
            if "C01" in props:
                if not C.close(r["results_margin"], want_res, Fraction(1, 10**7)):
                    run.violation("bootstrap: counted margin column is not the sum of unit margins over predicted turnout",
                                  input=L, where=tag, impl=r["results_margin"], expected=str(float(want_res)),
                                  predicate="counted_conserved_margin", signature="C01:boot-votes", replay_case=case_json(case))
                if int(r["reporting"]) != s[3]:
                    run.violation("bootstrap: reporting column is not the number of modelled reporting units",
                                  input=L, where=tag, impl=r["reporting"], expected=s[3],
                                  predicate="counted_conserved", signature="C01:boot-reporting", replay_case=case_json(case))
            if "C02" in props:
                want_pred = s[2] / s[1] if s[1] != 0 else Fraction(0)
                # race calls are not used by these runs: the reported prediction is the raw one
                if not C.close(r["pred_margin"], want_pred, Fraction(1, 10**7)):
                    run.violation("bootstrap: group predicted margin is not the sum of unit predictions over predicted turnout",
                                  input=L, where=tag, impl=r["pred_margin"], expected=str(float(want_pred)),
                                  predicate="boot_margin_is_ratio", signature="C02:boot-margin", replay_case=case_json(case))


def stage1(run, case, props, **run_kw):
    """run the implementation; returns a record with the driver ops this case needs"""
    res = run_case(case, **run_kw)
    L = light(case)
    run.case(L, True)
    run.count(case["pi_method"])
    run.count("policy " + case["policy"])
    for k, v in case["election"].describe()["roles"].items():
        run.count("role " + k, v)
    rec = {"case": case, "res": res, "ops": [], "meta": None, "ids": None, "skip": True}
    if "raises" in res:
        run.count("raised " + res["raises"])
        if res["raises"] not in ("ModelNotEnoughSubunitsException",):
            for p in props:
                if p in ("C01", "C11"):
                    run.violation("estimate run failed: " + res["raises"] + ": " + res.get("msg", ""), input=L,
                                  impl=res, predicate="never_fails", signature=f"{p}:raise", replay_case=case_json(case))
        return rec
    tables = res["tables"]
    if "unit_data" not in tables:
        return rec
    rec["skip"] = False
    op, ids = split_op(case)
    rec["ids"] = ids
    rec["ops"] = [op]
    if case["pi_method"] != "bootstrap" and any(p in props for p in ("C01", "C02", "C03")):
        ops, meta = level_ops(case, tables, None)
        rec["ops"] += ops
        rec["meta"] = meta
    return rec


def stage2(run, rec, outs, props):
    """monitors + diff, given the model's answers for rec['ops'] (or None)"""
    if rec["skip"]:
        return
    case, tables = rec["case"], rec["res"]["tables"]
    mout = None
    if outs is not None:
        o = outs[0]
        if isinstance(o, dict) and "error" in o:
            run.broken.append("model rejected a split case: " + o["error"])
        else:
            mout = o
    check_split(run, case, tables, mout, rec["ids"], props)
    check_unit_rows(run, case, tables, props, model_view=(model_unit_view(mout, rec["ids"]) if mout is not None else None))
    if case["pi_method"] == "bootstrap":
        boot_margin_checks(run, case, tables, props)
    elif rec["meta"] is not None:
        louts = outs[1:] if outs is not None else [None] * len(rec["meta"])
        check_levels(run, case, tables, louts, rec["meta"], props)


def run_batch(run, cases, driver, props):
    recs = [stage1(run, c, props) for c in cases]
    outs = None
    if driver is not None:
        ops = [op for r in recs for op in r["ops"]]
        if ops:
            try:
                outs = driver.run(ops)
            except C.DriverError as e:
                run.broken.append(f"model driver failed: {e}")
    k = 0
    for r in recs:
        n = len(r["ops"])
        stage2(run, r, outs[k:k + n] if outs is not None else None, props)
        k += n
    return recs


def run_and_check(run, case, driver, props):
    """one case through implementation, model and monitors"""
    return run_batch(run, [case], driver, props)[0]["res"]
