"""C03 - counted votes are a floor and reported units are final."""
from harness.props import _api_common as K
from harness.props import c01

PROP = "C03"
MODULES = ["ElexModel.Props.C03"]
DRIVER_TARGETS = ["ElexModel.Driver.Units"]
TRUSTED = c01.TRUSTED
ASSUMPTIONS = [
    "solver answers finite; gaussian scale > 0 (sigma = 0 makes norm.ppf return NaN: synthetic-only corner)",
    "a feed row with a NaN count is skipped by the whole-number monitor (outside the quantifier)",
]
RULE = c01.RULE + "; 30% of partial units carry a count five times the baseline (partial count above the modelled value)"


def explore(run, driver, budget):
    K.explore(run, driver, budget, PROP, RULE, pi_cycle=("nonparametric", "gaussian", "nonparametric", "gaussian", "bootstrap"))


def replay(run, driver, payload):
    K.replay(run, driver, payload, PROP)
