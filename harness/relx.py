"""Relational translator: pandas method chains over frames keyed by the aggregate columns  ->  Lean terms over `Table`.

A symbolic frame has a key list (a Lean term of type `List Nat`) and columns (Lean terms of type `Rat` with the key `k` free).
Recognised, and nothing else (anything else is a TranslateError = broken obligation):

  U.groupby(aggregate).sum().reset_index(drop=False)      group sums of a unit frame U   -> leaf tables `U_<col>`, key list `UK`
  F[aggregate + [c1, c2, ...]]                            projection
  F.rename(columns={a: b, ...})
  L.merge(R, how="outer", on=aggregate[, suffixes=(s, t)])  keys = keysUnion L.keys R.keys; a side's column is NaN where its key is missing
  F.fillna({c: 0, ...})                                   the named merged columns become 0 where missing (= `Table.val`)
  F.assign(**{c: lambda x: x[a] + x[b], ...}) / F.assign(c=lambda x: ...)    sequential, later lambdas see earlier results
  F.sort_values(aggregate)   F.reset_index(drop=True)
  `if "county_classification" in aggregate: ... else: ...`  -> `if cls then ... else ...`

A merged column may only be used in arithmetic after `fillna` named it with 0; the translation of `x[a]` is then `Table.val k A`
(0 for a missing key), which is exactly the model's reading of merge + fillna.
"""
import ast
import re

from harness.extract import TranslateError


def san(c):
    return re.sub(r"[^A-Za-z0-9]+", "_", c.replace("{estimand}", "E").replace("{alpha}", "A")).strip("_")


class Ctx:
    def __init__(self, strings=None):
        self.params = []  # (name, type) in order of first use
        self.strings = dict(strings or {})  # python variable -> column name string

    def param(self, name, ty):
        if (name, ty) not in self.params:
            self.params.append((name, ty))
        return name

    def colname(self, node):
        if isinstance(node, ast.Constant) and isinstance(node.value, str):
            return node.value
        if isinstance(node, ast.JoinedStr):
            out = ""
            for v in node.values:
                if isinstance(v, ast.Constant):
                    out += v.value
                elif isinstance(v, ast.FormattedValue) and isinstance(v.value, ast.Name) and v.value.id in ("estimand", "alpha"):
                    out += "{" + v.value.id + "}"
                else:
                    raise TranslateError("column name " + ast.unparse(node))
            return out
        if isinstance(node, ast.Name) and node.id in self.strings:
            return self.strings[node.id]
        raise TranslateError("column name " + ast.unparse(node))


class Frame:
    def __init__(self, ctx, keys, cols=None, leaf=None, nan=None, filled=None, is_sorted=False):
        self.ctx, self.keys, self.cols, self.leaf = ctx, keys, dict(cols or {}), leaf
        self.nan = set(nan or ())  # columns that are NaN where their side of an outer merge has no row
        self.filled = set(filled or ())
        self.sorted = is_sorted

    def has(self, c):
        return c in self.cols or self.leaf is not None

    def col(self, c, arithmetic=False):
        if c in self.cols:
            if arithmetic and c in self.nan and c not in self.filled:
                raise TranslateError(f"column {c} may be NaN when it is used (no fillna)")
            return self.cols[c]
        if self.leaf is not None:
            t = self.ctx.param(f"{self.leaf}_{san(c)}", "ElexModel.Table.Table")
            return f"(ElexModel.Table.val k {t})"
        raise TranslateError(f"column {c} not in frame")

    def copy(self):
        return Frame(self.ctx, self.keys, self.cols, self.leaf, self.nan, self.filled, self.sorted)


def chain(node):
    steps = []
    while True:
        if isinstance(node, ast.Call) and isinstance(node.func, ast.Attribute):
            steps.append(("call", node.func.attr, node))
            node = node.func.value
        elif isinstance(node, ast.Subscript):
            steps.append(("item", None, node))
            node = node.value
        else:
            break
    return node, steps[::-1]


def kw(call):
    return {k.arg: k.value for k in call.keywords if k.arg}


class Rel:
    def __init__(self, ctx, unit_frames, calls=None):
        self.ctx = ctx
        self.unit_frames = unit_frames  # python name -> leaf prefix
        self.calls = calls or {}  # python call text prefix -> function(ctx) returning a Frame
        self.env = {}

    # ---- lambda bodies: arithmetic over x[col]
    def scalar(self, n, frame, var):
        if isinstance(n, ast.BinOp) and isinstance(n.op, (ast.Add, ast.Sub)):
            op = "+" if isinstance(n.op, ast.Add) else "-"
            return f"({self.scalar(n.left, frame, var)} {op} {self.scalar(n.right, frame, var)})"
        if isinstance(n, ast.Subscript) and isinstance(n.value, ast.Name) and n.value.id == var:
            return frame.col(self.ctx.colname(n.slice), arithmetic=True)
        raise TranslateError("lambda body " + ast.unparse(n))

    def frame(self, node):
        base, steps = chain(node)
        if isinstance(base, ast.Name) and base.id in self.env:
            f = self.env[base.id].copy()
        elif isinstance(base, ast.Name) and base.id in self.unit_frames:
            # must start with groupby(aggregate).sum().reset_index(drop=False)
            if len(steps) < 3 or [s[1] for s in steps[:3]] != ["groupby", "sum", "reset_index"]:
                raise TranslateError("unit frame used without groupby(aggregate).sum().reset_index(drop=False): " + ast.unparse(node))
            g, s, r = (st[2] for st in steps[:3])
            if [ast.unparse(a) for a in g.args] != ["aggregate"] or g.keywords or s.args or s.keywords:
                raise TranslateError("groupby / sum arguments: " + ast.unparse(node))
            if {k: ast.unparse(v) for k, v in kw(r).items()} != {"drop": "False"}:
                raise TranslateError("reset_index after groupby must keep the keys")
            p = self.unit_frames[base.id]
            f = Frame(self.ctx, self.ctx.param(p + "K", "List Nat"), leaf=p, is_sorted=True)
            steps = steps[3:]
        elif isinstance(base, ast.Name) and base.id == "self" and steps and steps[0][0] == "call" and ("self." + steps[0][1]) in self.calls:
            f = self.calls["self." + steps[0][1]](steps[0][2])
            steps = steps[1:]
        else:
            raise TranslateError("frame expression " + ast.unparse(node))
        for kind, name, n in steps:
            f = self.step(f, kind, name, n)
        return f

    def step(self, f, kind, name, n):
        ctx = self.ctx
        if kind == "item":
            sl = n.slice
            if not (isinstance(sl, ast.BinOp) and isinstance(sl.op, ast.Add) and ast.unparse(sl.left) == "aggregate" and isinstance(sl.right, ast.List)):
                raise TranslateError("projection " + ast.unparse(sl))
            names = [ctx.colname(e) for e in sl.right.elts]
            g = Frame(ctx, f.keys, {c: f.col(c) for c in names}, None, f.nan & set(names), f.filled & set(names), f.sorted)
            return g
        if name == "rename":
            m = kw(n).get("columns")
            if not isinstance(m, ast.Dict) or n.args:
                raise TranslateError("rename")
            pairs = [(ctx.colname(k), ctx.colname(v)) for k, v in zip(m.keys, m.values)]
            vals = {b: f.col(a) for a, b in pairs}
            gone = {a for a, _ in pairs}
            if f.leaf is not None or isinstance(f, LeafView):
                return LeafView(ctx, f, vals, gone)
            g = f.copy()
            for a in gone:
                g.cols.pop(a, None)
            g.cols.update(vals)
            return g
        if name == "merge":
            k = kw(n)
            if len(n.args) != 1 or ast.unparse(k.get("how", ast.Constant(None))) != "'outer'" or ast.unparse(k.get("on", ast.Constant(None))) != "aggregate":
                raise TranslateError("merge must be how='outer', on=aggregate: " + ast.unparse(n)[:120])
            right = self.frame(n.args[0])
            suf = None
            if "suffixes" in k:
                suf = [e.value for e in k["suffixes"].elts]
            return Merged(ctx, f, right, suf)
        if name == "fillna":
            if len(n.args) != 1 or not isinstance(n.args[0], ast.Dict):
                raise TranslateError("fillna")
            g = f.copy()
            for key, v in zip(n.args[0].keys, n.args[0].values):
                if ast.unparse(v) != "0":
                    raise TranslateError("fillna value " + ast.unparse(v))
                g.filled.add(ctx.colname(key))
            return g
        if name == "assign":
            g = f.copy()
            items = []
            for k_ in n.keywords:
                if k_.arg is None:
                    if not isinstance(k_.value, ast.Dict):
                        raise TranslateError("assign(**…)")
                    items += [(ctx.colname(a), b) for a, b in zip(k_.value.keys, k_.value.values)]
                else:
                    items.append((k_.arg, k_.value))
            for cname, lam in items:
                if not isinstance(lam, ast.Lambda) or len(lam.args.args) != 1:
                    raise TranslateError("assign value must be a one-argument lambda")
                g.set(cname, self.scalar(lam.body, g, lam.args.args[0].arg))
            return g
        if name == "sort_values":
            if [ast.unparse(a) for a in n.args] != ["aggregate"] or n.keywords:
                raise TranslateError("sort_values(aggregate)")
            g = f.copy()
            g.sorted = True
            return g
        if name == "reset_index":
            if {k: ast.unparse(v) for k, v in kw(n).items()} != {"drop": "True"}:
                raise TranslateError("reset_index(drop=True)")
            return f
        raise TranslateError(f"frame method {name}")

    def run(self, stmts):
        """statements of a function body; returns the frame of the `return`"""
        for st in stmts:
            if isinstance(st, ast.Expr):
                continue
            if isinstance(st, ast.Return):
                try:
                    return self.value(st.value)
                except TranslateError as e:
                    raise TranslateError("; ".join(getattr(self, "errors", []) + [str(e)])[:400])
            if isinstance(st, ast.Assign) and len(st.targets) == 1 and isinstance(st.targets[0], ast.Name):
                name = st.targets[0].id
                try:
                    self.ctx.strings[name] = self.ctx.colname(st.value)
                    continue
                except TranslateError:
                    pass
                try:
                    self.env[name] = self.frame(st.value)
                except TranslateError as e:
                    self.env.pop(name, None)
                    self.errors = getattr(self, "errors", []) + [f"{name}: {e}"]
                continue
            if isinstance(st, ast.Assign):
                continue  # attribute stores (self.x = …) do not change the frames
            if isinstance(st, ast.If) and ast.unparse(st.test) == "'county_classification' in aggregate":
                a, b = Rel(self.ctx, self.unit_frames, self.calls), Rel(self.ctx, self.unit_frames, self.calls)
                a.env, b.env = dict(self.env), dict(self.env)
                ra, rb = a.run(st.body), b.run(st.orelse)
                self.errors = getattr(self, "errors", []) + getattr(a, "errors", []) + getattr(b, "errors", [])
                if ra is not None or rb is not None:
                    raise TranslateError("return inside the county_classification branch")
                for k in set(a.env) | set(b.env):
                    fa, fb = a.env.get(k), b.env.get(k)
                    if fa is None or fb is None or fa is fb:
                        if fa is fb and fa is not None:
                            self.env[k] = fa
                        continue
                    self.env[k] = IfFrame(self.ctx, self.ctx.param("cls", "Bool"), fa, fb)
                continue
            raise TranslateError(f"statement {type(st).__name__}: {ast.unparse(st)[:80]}")
        return None

    def value(self, node):
        return self.frame(node)


def _set(self, c, term):
    self.cols[c] = term
    self.nan.discard(c)


Frame.set = _set


class LeafView(Frame):
    """a leaf frame after rename: renamed columns by their new names, the old names are gone, everything else still resolves"""

    def __init__(self, ctx, parent, cols, gone):
        super().__init__(ctx, parent.keys, cols, None, (), (), parent.sorted)
        self.parent, self.gone = parent, set(gone)

    def has(self, c):
        return c in self.cols or (c not in self.gone and self.parent.has(c))

    def col(self, c, arithmetic=False):
        if c in self.cols:
            return self.cols[c]
        if c in self.gone:
            raise TranslateError(f"column {c} was renamed away")
        return self.parent.col(c, arithmetic)

    def copy(self):
        g = LeafView(self.ctx, self.parent, self.cols, self.gone)
        g.nan, g.filled, g.sorted = set(self.nan), set(self.filled), self.sorted
        return g


class Merged(Frame):
    def __init__(self, ctx, left, right, suffixes):
        super().__init__(ctx, f"(ElexModel.Table.keysUnion {left.keys} {right.keys})", {}, None, (), (), True)
        self.left, self.right, self.suffixes = left, right, suffixes
        self.resolved = {}

    def _resolve(self, c):
        if self.suffixes:
            s, t = self.suffixes
            if c.endswith(s) and self.left.has(c[: -len(s)]) and self.right.has(c[: -len(s)]):
                return self.left.col(c[: -len(s)])
            if c.endswith(t) and self.left.has(c[: -len(t)]) and self.right.has(c[: -len(t)]):
                return self.right.col(c[: -len(t)])
        dl, dr = c in self.left.cols, c in self.right.cols  # definitely there
        if dl and dr:
            raise TranslateError(f"column {c} exists on both sides of the merge (pandas would suffix it)")
        if dl:
            return self.left.col(c)
        if dr:
            return self.right.col(c)
        pl, pr = self.left.has(c), self.right.has(c)
        if pl and not pr:
            return self.left.col(c)
        if pr and not pl:
            return self.right.col(c)
        raise TranslateError(f"column {c} cannot be attributed to one side of the merge")

    def has(self, c):
        try:
            self.col(c)
            return True
        except TranslateError:
            return False

    def col(self, c, arithmetic=False):
        if c in self.cols:
            return self.cols[c]
        if arithmetic and c not in self.filled:
            raise TranslateError(f"merged column {c} may be NaN when it is used (not named in fillna)")
        return self._resolve(c)

    def copy(self):
        g = Merged(self.ctx, self.left, self.right, self.suffixes)
        g.cols, g.nan, g.filled, g.sorted = dict(self.cols), set(self.nan), set(self.filled), self.sorted
        return g


class IfFrame(Frame):
    def __init__(self, ctx, cond, a, b):
        super().__init__(ctx, f"(if {cond} then {a.keys} else {b.keys})", {}, None, (), (), a.sorted and b.sorted)
        self.cond, self.a, self.b = cond, a, b

    def has(self, c):
        return self.a.has(c) and self.b.has(c)

    def col(self, c, arithmetic=False):
        if c in self.cols:
            return self.cols[c]
        return f"(if {self.cond} then {self.a.col(c, arithmetic)} else {self.b.col(c, arithmetic)})"

    def copy(self):
        g = IfFrame(self.ctx, self.cond, self.a, self.b)
        g.cols, g.filled, g.sorted = dict(self.cols), set(self.filled), self.sorted
        return g


def emit(name, ctx, term, rettype, with_k):
    """a Lean def over exactly the parameters the term mentions (in order of first registration)"""
    used = [(p, t) for p, t in ctx.params if re.search(rf"(?<![A-Za-z0-9_]){re.escape(p)}(?![A-Za-z0-9_])", term)]
    ps = " ".join(f"({p} : {t})" for p, t in used) + (" (k : Nat)" if with_k else "")
    return f"def {name} {ps} : {rettype} :=\n  {term}\n", [p for p, _ in used]
