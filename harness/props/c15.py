"""C15 - gaussian intervals use a group's own calibration if big enough, else its parent.

Stage level: GaussianModel.fit and GaussianElectionModel.get_aggregate_prediction_intervals on generated group structures (groups with
0 / few / exactly 10 / many calibration units, groups present only among nonreporting units, one or several states, one to three key
levels, fewer than 10 calibration units overall).  The bootstrapped scale is an oracle: scipy.stats.bootstrap is replaced at the
library boundary by a stub whose answer is a fingerprint of its argument (the calibration scores are distinct powers of two, the stub
returns their sum), so the calibration subset behind every row of `modeled_bounds_agg` is decoded exactly and compared with the source
the Lean model (`fitRows` + `assign`, proved equal to the rule `source`) names.  The bounds formula and the floor at the partial counts
are recomputed with the same float operations.
"""
import math
from fractions import Fraction

import numpy as np
import pandas as pd

from harness import common as C

PROP = "C15"
MODULES = ["ElexModel.Props.C15"]
DRIVER_TARGETS = ["ElexModel.Driver.Gauss"]
TRUSTED = [
    "weighted_median, compute_inflate, scipy.stats.bootstrap (boot_sigma), norm.ppf and sqrt are oracles; the bootstrap is replaced "
    "by a fingerprinting stub at the library boundary, the others are recomputed with the same library calls",
    "pandas merge / concat of the matching loop is modelled as prefix lookup (validated by the diff)",
]
ASSUMPTIONS = ["at least one calibration unit", "every group key has the same number of levels"]
RULE = (
    "1-3 states x 1-4 groups per level; calibration counts per group drawn from {0,1,3,9,10,11,25}; groups present only among "
    "nonreporting units; 1-3 key levels; total calibration units sometimes < 10; non-trivial = at least one group falls back to a "
    "parent; distinct = sha1 of the structure"
)
STATES = ["AA", "BB", "CC"]


def gen_case(rng):
    levels = rng.choice([1, 2, 2, 2, 3])
    agg = [["postal_code"], ["postal_code", "county_fips"], ["postal_code", "district", "county_fips"]][levels - 1]
    ns = rng.choice([1, 1, 2, 3])
    conf, nonrep = [], []
    budget = 50
    for s in STATES[:ns]:
        subs = [f"{d + 1:02d}" for d in range(rng.randint(1, 2))] if levels == 3 else [None]
        for d in subs:
            counties = [f"c{k}" for k in range(rng.randint(1, 4))] if levels >= 2 else [None]
            for c in counties:
                key = tuple(x for x in (s, d, c) if x is not None)
                n = rng.choice([0, 0, 1, 3, 9, 10, 10, 11, 25])
                n = min(n, budget)
                budget -= n
                conf += [key] * n
                k = rng.choice([0, 1, 2, 4]) if n > 0 else rng.choice([1, 2])
                nonrep += [key] * k
    if not conf:
        conf = [nonrep[0] if nonrep else ("AA",) * levels]
    if not nonrep:
        nonrep = [conf[0]]
    rng.shuffle(conf)
    alpha = rng.choice([0.7, 0.9, 0.5])
    return {"agg": agg, "conf": [list(k) for k in conf], "nonrep": [list(k) for k in nonrep], "alpha": alpha,
            "partial": [rng.choice([0, 0, rng.randint(1, 3000), rng.randint(3000, 90000)]) for _ in nonrep],
            "w_conf": [rng.randint(50, 5000) for _ in conf], "w_non": [rng.randint(50, 5000) for _ in nonrep],
            "l_non": [rng.uniform(-0.5, 0.2) for _ in nonrep], "u_non": [rng.uniform(-0.1, 0.6) for _ in nonrep],
            "rep_votes": rng.randint(0, 5000)}


class _CI:
    def __init__(self, high):
        self.confidence_interval = type("ci", (), {"high": high, "low": 0.0})()


def fake_bootstrap(data, statistic, confidence_level=0.95, method="basic", n_resamples=1, random_state=None, **kw):
    return _CI(float(np.sum(np.asarray(data[0] if isinstance(data, tuple) else data))))


def impl_run(case):
    C.use_repo()
    from elexmodel.models.ConformalElectionModel import PredictionIntervals
    from elexmodel.models.GaussianElectionModel import GaussianElectionModel
    from elexmodel.utils import math_utils

    agg = case["agg"]
    n = len(case["conf"])
    conf = pd.DataFrame({a: [k[i] for k in case["conf"]] for i, a in enumerate(agg)})
    conf["geographic_unit_fips"] = [f"r{i}" for i in range(n)]
    conf["last_election_results_x"] = [float(w) for w in case["w_conf"]]
    conf["lower_bounds"] = [2.0 ** -(i + 1) for i in range(n)]
    conf["upper_bounds"] = [2.0 ** -(i + 1) + 1.0 for i in range(n)]
    non = pd.DataFrame({a: [k[i] for k in case["nonrep"]] for i, a in enumerate(agg)})
    non["geographic_unit_fips"] = [f"n{i}" for i in range(len(case["nonrep"]))]
    non["last_election_results_x"] = [float(w) for w in case["w_non"]]
    non["results_x"] = [float(v) for v in case["partial"]]
    non["reporting"] = 0
    rep = conf[agg + ["geographic_unit_fips", "last_election_results_x"]].copy()
    rep["results_x"] = float(case["rep_votes"])
    rep["reporting"] = 1
    unexp = rep.iloc[0:0].copy()
    model = GaussianElectionModel({"save_conformalization": False, "election_id": "e", "office": "G", "geographic_unit_type": "county"})
    a = case["alpha"]
    model.alpha_to_nonreporting_lower_bounds[a] = np.array(case["l_non"], dtype=float)
    model.alpha_to_nonreporting_upper_bounds[a] = np.array(case["u_non"], dtype=float)
    orig = math_utils.bootstrap
    math_utils.bootstrap = fake_bootstrap
    try:
        with np.errstate(all="ignore"):
            pi = model.get_aggregate_prediction_intervals(rep, non, unexp, agg, a, PredictionIntervals(None, None, conf), "x")
            lo, hi = pi[0], pi[1]
    except Exception as e:
        return {"raises": type(e).__name__, "msg": str(e)[:300]}, (conf, non, rep)
    finally:
        math_utils.bootstrap = orig
    mb = model.modeled_bounds_agg
    rows = []
    for r in mb.to_dict(orient="records"):
        rows.append({"key": [r[x] for x in agg], "sigma_l": r["sigma_lower_bound"], "sigma_u": r["sigma_upper_bound"],
                     "mu_l": r["mu_lower_bound"], "mu_u": r["mu_upper_bound"], "v": r["var_inflate"],
                     "A_l": r["nonreporting_aggregate_lower_bound"], "A_u": r["nonreporting_aggregate_upper_bound"],
                     "W": r["nonreporting_weight_sum"], "W2": r["nonreporting_weight_ssum"]})
    return {"rows": rows, "lower": [float(x) for x in np.asarray(lo)], "upper": [float(x) for x in np.asarray(hi)]}, (conf, non, rep)


def decode(sigma, n):
    """subset of calibration units behind a fingerprint (sum of distinct powers of two)"""
    f = C.frac(sigma)
    out = []
    for i in range(n):
        b = Fraction(1, 2 ** (i + 1))
        if f >= b:
            out.append(i)
            f -= b
    return out if f == 0 else None


def rule_source(case, key):
    """the property: own group if it holds >= min(10, N) calibration units, else parent, ..., else all"""
    conf = [tuple(k) for k in case["conf"]]
    T = min(10, len(conf))
    for l in range(len(key), -1, -1):
        p = tuple(key[:l])
        if sum(1 for c in conf if c[:l] == p) >= T:
            return p
    return ()


def check(run, case, impl, frames, mout, keyrank):
    from scipy import stats

    from elexmodel.utils import math_utils

    if "raises" in impl:
        run.violation("gaussian aggregate intervals raised " + impl["raises"], input=case, impl=impl,
                      predicate="assign_eq_source", signature="C15:raise")
        return
    conf, non, rep = frames
    agg = case["agg"]
    n = len(case["conf"])
    bound_keys = sorted({tuple(k) for k in case["nonrep"]})
    got = {}
    for r in impl["rows"]:
        got.setdefault(tuple(r["key"]), []).append(r)
    for k in bound_keys:
        rows = got.get(k, [])
        if len(rows) != 1:
            run.violation("a group with outstanding units does not have exactly one calibration model", input=case,
                          group=list(k), impl=len(rows), expected=1, predicate="assign_eq_source / fitRows_nodup",
                          signature="C15:one-row")
            continue
        r = rows[0]
        vals = [r["sigma_l"], r["mu_l"], r["mu_u"], r["v"]]
        if not all(isinstance(x, float) and math.isfinite(x) for x in vals):
            run.violation("calibration statistics are not finite", input=case, group=list(k), impl=r, predicate="source_big",
                          signature="C15:finite")
            continue
        sub = decode(r["sigma_l"], n)
        src = rule_source(case, k)
        want = [i for i, c in enumerate(case["conf"]) if tuple(c[: len(src)]) == src]
        if sub != want:
            run.violation("group's interval is computed from the wrong calibration subset (own if >= min(10, N) units, else its "
                          "parent, else all)", input=case, group=list(k), impl={"subset_size": None if sub is None else len(sub)},
                          expected={"source": list(src), "size": len(want)}, predicate="assign_eq_source",
                          signature="C15:source")
            continue
        # statistics of that subset (oracles recomputed with the same library calls)
        w = conf["last_election_results_x"].values[want]
        mu_l = math_utils.weighted_median(conf["lower_bounds"].values[want], w / np.sum(w))
        mu_u = math_utils.weighted_median(conf["upper_bounds"].values[want], w / np.sum(w))
        v = math_utils.compute_inflate(w)
        if not (np.isclose(mu_l, r["mu_l"]) and np.isclose(mu_u, r["mu_u"]) and np.isclose(v, r["v"])):
            run.violation("centre / variance inflation are not those of the assigned source", input=case, group=list(k),
                          impl=[r["mu_l"], r["mu_u"], r["v"]], expected=[mu_l, mu_u, v], predicate="assign_eq_source",
                          signature="C15:stats")
            continue
    # final bounds: formula + floor at the partial counts, per group in sorted order
    q = (3 + case["alpha"]) / 4
    all_keys = sorted({tuple(k) for k in case["nonrep"]} | {tuple(k) for k in case["conf"]})
    if len(impl["lower"]) != len(all_keys):
        run.violation("number of aggregate intervals differs from the number of groups", input=case, impl=len(impl["lower"]),
                      expected=len(all_keys), predicate="fitRows_nodup", signature="C15:count")
        return
    for pos, k in enumerate(all_keys):
        counted = sum(float(case["rep_votes"]) for c in case["conf"] if tuple(c) == k)
        idx = [i for i, c in enumerate(case["nonrep"]) if tuple(c) == k]
        if not idx:
            want_l = want_u = counted
        else:
            rows = got.get(k, [])
            if len(rows) != 1:
                continue
            r = rows[0]
            wn = np.array([case["w_non"][i] for i in idx], dtype=float)
            A_l = float(np.sum(wn * np.array([case["l_non"][i] for i in idx])))
            A_u = float(np.sum(wn * np.array([case["u_non"][i] for i in idx])))
            W, W2 = float(np.sum(wn)), float(np.sum(wn ** 2))
            sd_l = r["sigma_l"] * np.sqrt(W2 + r["v"] * W ** 2)
            sd_u = r["sigma_u"] * np.sqrt(W2 + r["v"] * W ** 2)
            lb = A_l - stats.norm.ppf(q=q, loc=W * r["mu_l"], scale=sd_l)
            ub = A_u + stats.norm.ppf(q=q, loc=W * r["mu_u"], scale=sd_u)
            part = float(sum(case["partial"][i] for i in idx))
            want_l = max(W + lb, part) + counted
            want_u = max(W + ub, part) + counted
        gl, gu = impl["lower"][pos], impl["upper"][pos]
        if not (abs(gl - round(want_l)) <= 1 and abs(gu - round(want_u)) <= 1):
            run.violation("aggregate bounds are not the summed unit bounds shifted by the normal quantile of the group's own "
                          "aggregated centre and scale, floored at its own partial counts", input=case, group=list(k),
                          impl=[gl, gu], expected=[want_l, want_u], predicate="bounds_formula / agg_floor_gauss",
                          signature="C15:bounds")
            break
    if mout is None:
        return
    # diff against the Lean model
    inv = {(l, r): v for (l, v), r in keyrank.items()}
    for k, a in zip(bound_keys, mout["assign"]):
        src = rule_source(case, k)
        msrc = None if a is None else tuple(inv[(l, x)] for l, x in enumerate(a))
        if msrc != src:
            run.diff("model assign vs rule", input=case, group=list(k), model=a, expected=list(src))
        rows = got.get(k, [])
        if len(rows) == 1:
            sub = decode(rows[0]["sigma_l"], n)
            want = [i for i, c in enumerate(case["conf"]) if msrc is not None and tuple(c[: len(msrc)]) == msrc]
            if sub != want:
                run.diff("calibration subset: model vs implementation", input=case, group=list(k),
                         impl=None if sub is None else len(sub), model=len(want))
    run.traces += 1


def model_op(case):
    L = len(case["agg"])
    keyrank = {}
    for l in range(L):
        vals = sorted({k[l] for k in case["conf"] + case["nonrep"]})
        for i, v in enumerate(vals):
            keyrank[(l, v)] = i
    enc = lambda k: [keyrank[(l, x)] for l, x in enumerate(k)]  # noqa: E731
    groups = sorted({tuple(k) for k in case["conf"] + case["nonrep"]})
    bounds = sorted({tuple(k) for k in case["nonrep"]})
    op = {"op": "gauss.assign", "conf": [enc(k) for k in case["conf"]], "groups": [enc(k) for k in groups],
          "bounds": [enc(k) for k in bounds], "L": L}
    return op, keyrank


def floor_stage(run, n, prop="C03"):
    """C03 / C10 clause on the gaussian aggregate: both bounds >= counted votes + partial counts of the *same* group"""
    cases = list(CORPUS) + [gen_case(run.rng) for _ in range(n)]
    for c in cases:
        impl, _ = impl_run(c)
        run.case(c, True)
        run.count("gaussian aggregate stage")
        if "raises" in impl:
            continue
        all_keys = sorted({tuple(k) for k in c["nonrep"]} | {tuple(k) for k in c["conf"]})
        if len(impl["lower"]) != len(all_keys):
            continue
        for pos, k in enumerate(all_keys):
            counted = sum(float(c["rep_votes"]) for x in c["conf"] if tuple(x) == k)
            part = float(sum(v for v, x in zip(c["partial"], c["nonrep"]) if tuple(x) == k))
            gl, gu = impl["lower"][pos], impl["upper"][pos]
            if gl < counted + part or gu < counted + part or gl != int(gl) or gu != int(gu):
                run.violation(("gaussian interval columns do not sit on the row of the group they were computed for: a bound is below the "
                               "counted votes of its own row" if prop == "C02" else
                               "gaussian aggregate bound below the counted votes of its own group (or not a whole number)"),
                              input=c, group=list(k), impl=[gl, gu], expected=f">= {counted + part}",
                              predicate="interval_rows_aligned (gaussian)" if prop == "C02" else "agg_floor_gauss", signature=f"{prop}:gauss-floor")
                break


CORPUS = [
    # a county with exactly 10 calibration units next to one with 3 (threshold boundary), one only among nonreporting units
    {"agg": ["postal_code", "county_fips"],
     "conf": [["AA", "c0"]] * 10 + [["AA", "c1"]] * 3 + [["AA", "c2"]] * 17, "nonrep": [["AA", "c0"], ["AA", "c1"], ["AA", "c3"], ["AA", "c2"]],
     "alpha": 0.9, "partial": [10, 90000, 5, 0], "w_conf": [100 + i for i in range(30)], "w_non": [500, 600, 700, 800],
     "l_non": [-0.1, -0.2, 0.0, -0.05], "u_non": [0.1, 0.2, 0.3, 0.05], "rep_votes": 120},
    # two states, one with < 10 calibration units overall: global model needed; fallback group sorted before an own-model group
    {"agg": ["postal_code", "county_fips"],
     "conf": [["AA", "c1"]] * 14 + [["AA", "c0"]] * 3 + [["BB", "c0"]] * 4, "nonrep": [["AA", "c0"], ["AA", "c1"], ["BB", "c0"], ["BB", "c1"]],
     "alpha": 0.7, "partial": [80000, 0, 3, 70000], "w_conf": [200 + 3 * i for i in range(21)], "w_non": [400, 300, 200, 100],
     "l_non": [-0.3, -0.1, 0.0, -0.2], "u_non": [0.1, 0.2, 0.3, 0.4], "rep_votes": 50},
]


def statistics_stream(run, driver, n):
    """math_utils.weighted_median / compute_inflate against the Lean model on exact inputs: dyadic values, weights with a power-of-two
    total (so that normalised running weights are exact in binary64 and can hit one half exactly), zero weights, ties"""
    C.use_repo()
    from elexmodel.utils import math_utils

    rng = run.rng
    ops, meta = [], []
    for _ in range(n):
        k = rng.choice([1, 2, 3, 4, 5, 8, 13])
        total = 2 ** rng.randint(max(1, k.bit_length()), 10)
        cuts = sorted(rng.sample(range(0, total + 1), k - 1)) if k > 1 else []
        ws = [b - a for a, b in zip([0] + cuts, cuts + [total])]  # zero weights possible
        if rng.random() < 0.4 and k > 1:
            # force a running weight of exactly one half somewhere
            ws = [total // 2] + ws[1:]
            rest = total - total // 2
            s = sum(ws[1:])
            ws[1:] = [w * rest // s if s else 0 for w in ws[1:]]
            ws[-1] += total - sum(ws)
        if rng.random() < 0.3 and k > 1:
            # a running weight within a few millionths of one half, but not one half
            total = 2 ** 21
            half = total // 2 + rng.choice([-3, -1, 1, 2])
            rest = total - half
            others = sorted(rng.sample(range(1, rest), k - 2)) if k > 2 else []
            ws = [half] + [b - a for a, b in zip([0] + others, others + [rest])]
        xs = [Fraction(rng.randint(-40, 40), rng.choice([1, 2, 4, 8])) for _ in range(k)]
        if total == 2 ** 21:
            xs = sorted(set(xs))
            if len(xs) < k:
                continue  # distinct values, in the order of the weights: the near-half running weight is the first one
        if rng.random() < 0.3 and k > 2 and total != 2 ** 21:
            xs[1] = xs[0]
        if len(set(xs)) != len(xs) and any(w == 0 for w in ws):
            continue  # argsort order among equal values with a zero weight in between is unspecified
        case = {"statistics": True, "x": [str(x) for x in xs], "weights": ws, "total": total}
        w = np.array([float(Fraction(a, total)) for a in ws])
        try:
            got = math_utils.weighted_median(np.array([float(x) for x in xs]), w)
            got = C.frac(float(got))
        except Exception as ex:
            got = {"raises": type(ex).__name__}
        infl = C.frac(float(math_utils.compute_inflate(np.array([float(a) for a in ws])))) if sum(ws) else None
        run.case(case, len(set(xs)) > 1)
        run.count("calibration statistics")
        # the statistic is a weighted median: at most half of the weight lies strictly below it and at most half strictly above
        if not isinstance(got, dict):
            below = sum(Fraction(a, total) for x, a in zip(xs, ws) if x < got)
            above = sum(Fraction(a, total) for x, a in zip(xs, ws) if x > got)
            if below > Fraction(1, 2) or above > Fraction(1, 2):
                run.violation("the centre of a calibration group is not a weighted median of its bounds (more than half of the weight lies "
                              "on one side of it)", input=case, impl=str(got), expected={"weight below": str(below), "weight above": str(above)},
                              predicate="calibration statistics (weighted median)", signature="C15:median")
        ops.append({"op": "gauss.wmedian", "xw": [[C.rat(x), C.rat(Fraction(a, total))] for x, a in zip(xs, ws)]})
        meta.append((case, got, infl, ws))
    if driver is None or not ops:
        return
    for (case, got, infl, ws), o in zip(meta, driver.run(ops)):
        m = None if o["wmedian"] is None else C.unrat(o["wmedian"])
        if isinstance(got, dict):
            if m is not None:
                run.diff("weighted_median raised where the model has a value", input=case, impl=got, model=o["wmedian"])
            continue
        if m != got:
            run.diff("weighted_median vs model", input=case, impl=str(got), model=o["wmedian"])
            continue
        tot = sum(ws)
        want_infl = Fraction(sum(a * a for a in ws), tot * tot) if tot else None
        if infl is not None and not C.close(infl, want_infl, Fraction(1, 10**12)):
            run.diff("compute_inflate vs sum of squares over square of sum", input=case, impl=str(infl), model=str(want_infl))
            continue
        run.traces += 1


def api_estimands(run, n):
    """through the client: the gaussian intervals reported for one estimand are computed from that estimand's own calibration (its own
    unadjusted unit bounds, its own groups) - the same whether the estimand is requested alone or together with another"""
    from harness import election as E
    from harness import pairs as P

    rng = run.rng
    for _ in range(n):
        e = E.gen_election(rng, size="medium", roles=["reporting"] * 7 + ["partial"] * 3, unexpected=False, min_reporting=30, n_states=2)
        aggs = ["postal_code", "county_fips", "unit"]
        case = {"api_estimands": True, "election": e.describe()}
        both = E.run_client(e, estimands=["dem", "turnout"], alphas=[0.7], pi_method="gaussian", features=[], aggregates=aggs)
        run.case(case, True)
        run.count("api: two estimands vs one")
        if "raises" in both:
            continue
        for est in ("dem", "turnout"):
            one = E.run_client(e, estimands=[est], alphas=[0.7], pi_method="gaussian", features=[], aggregates=aggs)
            if "raises" in one:
                continue
            bad = None
            for t in ("state_data", "county_data", "unit_data"):
                for col in (f"pred_{est}", f"lower_0.7_{est}", f"upper_0.7_{est}"):
                    if [P.fhex(v) for v in both["tables"][t][col]] != [P.fhex(v) for v in one["tables"][t][col]]:
                        bad = (t, col)
                        break
                if bad:
                    break
            if bad:
                run.violation("the gaussian intervals of an estimand change when another estimand is requested in the same run (they are "
                              "not computed from that estimand's own calibration)", input=case, impl={"table": bad[0], "column": bad[1]},
                              predicate="assign_eq_source (own calibration)", signature="C15:api-estimands", election=e.to_json())
                break
        else:
            run.traces += 1


def extract(run):
    from harness import extract as X

    return X.generate("C15")


def explore(run, driver, budget):
    run.info["rule"] = RULE
    n = {"quick": 120, "thorough": 5000, "search": 800}[budget]
    cases = (list(CORPUS) if budget != "search" else []) + [gen_case(run.rng) for _ in range(n)]
    ops, maps = [], []
    for c in cases:
        op, keyrank = model_op(c)
        ops.append(op)
        maps.append(keyrank)
    outs = None
    if driver is not None:
        outs = driver.run(ops)
    for i, c in enumerate(cases):
        impl, frames = impl_run(c)
        fallback = any(rule_source(c, tuple(k)) != tuple(k) for k in c["nonrep"])
        run.case(c, fallback)
        run.count(f"{len(c['agg'])} level(s)")
        if len(c["conf"]) < 10:
            run.count("fewer than 10 calibration units")
        mout = outs[i] if outs else None
        if isinstance(mout, dict) and "error" in mout:
            run.broken.append("model rejected a case: " + mout["error"])
            mout = None
        check(run, c, impl, frames, mout, maps[i])
    statistics_stream(run, driver, {"quick": 200, "thorough": 8000, "search": 1500}[budget])
    api_estimands(run, {"quick": 2, "thorough": 60, "search": 10}[budget])


def replay(run, driver, payload):
    c = payload["input"]
    op, keyrank = model_op(c)
    mout = driver.run([op])[0] if driver else None
    impl, frames = impl_run(c)
    run.case(c, True)
    check(run, c, impl, frames, mout, keyrank)
