import ElexModel.Driver.Loops
def main : IO Unit := ElexModel.Driver.mainWith ElexModel.Driver.Loops.run
