import ElexModel.Driver.Units
def main : IO Unit := ElexModel.Driver.mainWith ElexModel.Driver.Units.run
