import ElexModel.Core.Conformal
import ElexModel.Lemmas.Num
import ElexModel.Lemmas.Quantile
import Mathlib.Data.List.Perm.Basic

/-!
# C04 — nonparametric intervals are conformally calibrated

`popCorrection` is the model of `_compute_population_correction`; `correction` adds the `robust` option;
`finalLower/finalUpper` the un-normalisation, floor and rounding.  Quantifiers: every list of (score, weight)
pairs (ties, negative scores, any order), every level.
-/

namespace ElexModel.Conformal
open ElexModel

/-- baseline weight of the calibration units whose score is at most `c` — i.e. whose true value lies inside the
    interval widened by `c` (see `inside_iff_score_le`) -/
def wBelow (c : ℚ) : List (ℚ × ℚ) → ℚ
  | [] => 0
  | (s, w) :: t => (if s ≤ c then w else 0) + wBelow c t

/-- **a calibration unit is inside its widened interval iff its conformity score is at most the correction** -/
theorem inside_iff_score_le (lowerFit upperFit r c : ℚ) :
    (lowerFit - c ≤ r ∧ r ≤ upperFit + c) ↔ score (lowerFit - r) (r - upperFit) ≤ c := by
  unfold score; rw [rmax_eq, max_le_iff]; constructor <;> rintro ⟨a, b⟩ <;> constructor <;> linarith

/-! ### sorting by score -/

theorem insertS_perm (p : ℚ × ℚ) (l : List (ℚ × ℚ)) : (insertS p l).Perm (p :: l) := by
  induction l with
  | nil => simp [insertS]
  | cons q t ih =>
    unfold insertS
    split
    · exact List.Perm.refl _
    · exact (List.Perm.cons q ih).trans (List.Perm.swap p q t)

theorem sortS_perm (l : List (ℚ × ℚ)) : (sortS l).Perm l := by
  unfold sortS
  induction l with
  | nil => simp
  | cons a t ih => simp only [List.foldr_cons]; exact (insertS_perm a _).trans (List.Perm.cons a ih)

theorem insertS_sorted (p : ℚ × ℚ) (l : List (ℚ × ℚ)) (h : l.Pairwise (fun a b => a.1 ≤ b.1)) :
    (insertS p l).Pairwise (fun a b => a.1 ≤ b.1) := by
  induction l with
  | nil => simp [insertS]
  | cons q t ih =>
    have hq := List.pairwise_cons.mp h
    unfold insertS
    split
    · rename_i hlt
      refine List.pairwise_cons.mpr ⟨?_, h⟩
      intro x hx
      rcases List.mem_cons.mp hx with rfl | hx
      · exact le_of_lt hlt
      · exact le_trans (le_of_lt hlt) (hq.1 x hx)
    · rename_i hnlt
      refine List.pairwise_cons.mpr ⟨?_, ih hq.2⟩
      intro x hx
      rcases List.mem_cons.mp ((insertS_perm p t).mem_iff.mp hx) with rfl | hx
      · exact not_lt.mp hnlt
      · exact hq.1 x hx

theorem sortS_sorted (l : List (ℚ × ℚ)) : (sortS l).Pairwise (fun a b => a.1 ≤ b.1) := by
  unfold sortS
  induction l with
  | nil => simp
  | cons a t ih => simp only [List.foldr_cons]; exact insertS_sorted a _ ih

theorem wBelow_perm (c : ℚ) {l₁ l₂ : List (ℚ × ℚ)} (h : l₁.Perm l₂) : wBelow c l₁ = wBelow c l₂ := by
  induction h with
  | nil => rfl
  | cons x _ ih => obtain ⟨s, w⟩ := x; simp only [wBelow, ih]
  | swap x y l => obtain ⟨s, w⟩ := x; obtain ⟨s', w'⟩ := y; simp only [wBelow]; ring
  | trans _ _ ih1 ih2 => rw [ih1, ih2]

theorem wTot_perm {l₁ l₂ : List (ℚ × ℚ)} (h : l₁.Perm l₂) : wTot l₁ = wTot l₂ := by
  induction h with
  | nil => rfl
  | cons x _ ih => obtain ⟨s, w⟩ := x; simp only [wTot, ih]
  | swap x y l => obtain ⟨s, w⟩ := x; obtain ⟨s', w'⟩ := y; simp only [wTot]; ring
  | trans _ _ ih1 ih2 => rw [ih1, ih2]

theorem wBelow_nonneg (c : ℚ) (l : List (ℚ × ℚ)) (hw : ∀ p ∈ l, 0 ≤ p.2) : 0 ≤ wBelow c l := by
  induction l with
  | nil => simp [wBelow]
  | cons p t ih =>
    obtain ⟨s, w⟩ := p
    have h0 : 0 ≤ w := hw (s, w) (List.mem_cons_self ..)
    have := ih (fun p hp => hw p (List.mem_cons_of_mem _ hp))
    simp only [wBelow]; split <;> linarith

theorem wBelow_of_all_gt (c : ℚ) (l : List (ℚ × ℚ)) (h : ∀ p ∈ l, c < p.1) : wBelow c l = 0 := by
  induction l with
  | nil => rfl
  | cons p t ih =>
    obtain ⟨s, w⟩ := p
    have h0 : ¬ s ≤ c := not_le.mpr (h (s, w) (List.mem_cons_self ..))
    simp only [wBelow, if_neg h0, zero_add]
    exact ih (fun p hp => h p (List.mem_cons_of_mem _ hp))

/-! ### the scan over a sorted list -/

theorem scan_mem (thr acc : ℚ) (l : List (ℚ × ℚ)) (c : ℚ) (h : scan thr acc l = some c) : ∃ p ∈ l, p.1 = c := by
  induction l generalizing acc with
  | nil => simp [scan] at h
  | cons p t ih =>
    obtain ⟨s, w⟩ := p
    simp only [scan] at h
    split at h
    · exact ⟨(s, w), List.mem_cons_self .., by simpa using h⟩
    · obtain ⟨p, hp, e⟩ := ih _ h
      exact ⟨p, List.mem_cons_of_mem _ hp, e⟩

theorem scan_calibrated (thr acc : ℚ) (l : List (ℚ × ℚ)) (hs : l.Pairwise (fun a b => a.1 ≤ b.1))
    (hw : ∀ p ∈ l, 0 ≤ p.2) (c : ℚ) (h : scan thr acc l = some c) : thr < acc + wBelow c l := by
  induction l generalizing acc with
  | nil => simp [scan] at h
  | cons p t ih =>
    obtain ⟨s, w⟩ := p
    simp only [scan] at h
    have hwt : ∀ p ∈ t, 0 ≤ p.2 := fun p hp => hw p (List.mem_cons_of_mem _ hp)
    have hst := List.pairwise_cons.mp hs
    split at h
    · rename_i hlt
      have hsc : s = c := by simpa using h
      subst hsc
      have := wBelow_nonneg s t hwt
      simp only [wBelow, le_refl, if_true]; linarith
    · have hc := ih (acc + w) hst.2 hwt h
      obtain ⟨p, hp, e⟩ := scan_mem _ _ _ _ h
      have hsc : s ≤ c := e ▸ hst.1 p hp
      simp only [wBelow, if_pos hsc]; linarith

theorem scan_minimal (thr acc : ℚ) (l : List (ℚ × ℚ)) (hs : l.Pairwise (fun a b => a.1 ≤ b.1))
    (hw : ∀ p ∈ l, 0 ≤ p.2) (c : ℚ) (h : scan thr acc l = some c) (c' : ℚ) (hc' : c' < c) :
    acc + wBelow c' l ≤ thr ∨ thr < acc := by
  induction l generalizing acc with
  | nil => simp [scan] at h
  | cons p t ih =>
    obtain ⟨s, w⟩ := p
    simp only [scan] at h
    have hst := List.pairwise_cons.mp hs
    split at h
    · rename_i hlt
      have hsc : s = c := by simpa using h
      subst hsc
      have hz : wBelow c' ((s, w) :: t) = 0 := by
        apply wBelow_of_all_gt
        intro p hp
        rcases List.mem_cons.mp hp with rfl | hp
        · exact hc'
        · exact lt_of_lt_of_le hc' (hst.1 p hp)
      rw [hz]
      by_cases h0 : thr < acc
      · exact Or.inr h0
      · exact Or.inl (by linarith)
    · rename_i hnlt
      have hw0 : 0 ≤ w := hw (s, w) (List.mem_cons_self ..)
      rcases ih (acc + w) hst.2 (fun p hp => hw p (List.mem_cons_of_mem _ hp)) h with h1 | h1
      · left
        by_cases hsc' : s ≤ c'
        · simp only [wBelow, if_pos hsc']; linarith
        · have ht0 : wBelow c' t = 0 := by
            apply wBelow_of_all_gt
            intro p hp
            exact lt_of_lt_of_le (not_le.mp hsc') (hst.1 p hp)
          simp only [wBelow, if_neg hsc', ht0]; linarith [not_lt.mp hnlt]
      · exact absurd h1 hnlt

theorem scan_exists (thr acc : ℚ) (l : List (ℚ × ℚ)) (h0 : acc ≤ thr) (h : thr < acc + wTot l) :
    ∃ c, scan thr acc l = some c := by
  induction l generalizing acc with
  | nil => simp [wTot] at h; linarith
  | cons p t ih =>
    obtain ⟨s, w⟩ := p
    simp only [scan]
    split
    · exact ⟨s, rfl⟩
    · rename_i hn
      apply ih _ (not_lt.mp hn); simp only [wTot] at h; linarith

theorem wTot_nonneg (l : List (ℚ × ℚ)) (hw : ∀ p ∈ l, 0 ≤ p.2) : 0 ≤ wTot l := by
  induction l with
  | nil => simp [wTot]
  | cons p t ih =>
    obtain ⟨s, w⟩ := p
    have h0 : 0 ≤ w := hw (s, w) (List.mem_cons_self ..)
    have := ih (fun p hp => hw p (List.mem_cons_of_mem _ hp))
    simp only [wTot]; linarith

theorem wBelow_le_wTot (c : ℚ) (l : List (ℚ × ℚ)) (hw : ∀ p ∈ l, 0 ≤ p.2) : wBelow c l ≤ wTot l := by
  induction l with
  | nil => simp [wBelow, wTot]
  | cons p t ih =>
    obtain ⟨s, w⟩ := p
    have h0 : 0 ≤ w := hw (s, w) (List.mem_cons_self ..)
    have := ih (fun p hp => hw p (List.mem_cons_of_mem _ hp))
    simp only [wBelow, wTot]; split <;> linarith

/-! ### the population-weighted correction -/

theorem nonneg_of_perm {l l' : List (ℚ × ℚ)} (h : l'.Perm l) (hw : ∀ p ∈ l, 0 ≤ p.2) : ∀ p ∈ l', 0 ≤ p.2 :=
  fun p hp => hw p (h.mem_iff.mp hp)

/-- **calibration**: the baseline-weighted share of calibration units inside the widened interval exceeds the level -/
theorem pop_calibrated (sw : List (ℚ × ℚ)) (hw : ∀ p ∈ sw, 0 ≤ p.2) (q c : ℚ)
    (h : popCorrection sw q = some c) : q * wTot sw < wBelow c sw := by
  unfold popCorrection at h
  have := scan_calibrated _ 0 (sortS sw) (sortS_sorted sw) (nonneg_of_perm (sortS_perm sw) hw) c h
  rw [wBelow_perm c (sortS_perm sw)] at this
  linarith

/-- **minimality**: no smaller correction reaches that share — the correction is the *smallest* calibrated one -/
theorem pop_minimal (sw : List (ℚ × ℚ)) (hw : ∀ p ∈ sw, 0 ≤ p.2) (q : ℚ) (hq : 0 ≤ q) (c : ℚ)
    (h : popCorrection sw q = some c) (c' : ℚ) (hc' : c' < c) : wBelow c' sw ≤ q * wTot sw := by
  unfold popCorrection at h
  have hnn := nonneg_of_perm (sortS_perm sw) hw
  rcases scan_minimal _ 0 (sortS sw) (sortS_sorted sw) hnn c h c' hc' with h1 | h1
  · rw [wBelow_perm c' (sortS_perm sw)] at h1; linarith
  · exfalso
    have : 0 ≤ wTot sw := wTot_nonneg sw hw
    have : 0 ≤ q * wTot sw := mul_nonneg hq this
    linarith

/-- **existence**: for a level below 1 and positive total weight a correction exists -/
theorem pop_exists (sw : List (ℚ × ℚ)) (q : ℚ) (hq0 : 0 ≤ q) (hq : q < 1) (hpos : 0 < wTot sw) :
    ∃ c, popCorrection sw q = some c := by
  unfold popCorrection
  apply scan_exists
  · exact mul_nonneg hq0 hpos.le
  · rw [wTot_perm (sortS_perm sw)]
    nlinarith

/-- the correction is one of the conformity scores -/
theorem pop_is_score (sw : List (ℚ × ℚ)) (q c : ℚ) (h : popCorrection sw q = some c) : ∃ p ∈ sw, p.1 = c := by
  unfold popCorrection at h
  obtain ⟨p, hp, e⟩ := scan_mem _ _ _ _ h
  exact ⟨p, (sortS_perm sw).mem_iff.mp hp, e⟩

/-- **tie / order invariance**: the correction does not depend on the order of the calibration units, in
    particular not on how a (non-stable) sort orders equal scores -/
theorem pop_perm_invariant (sw sw' : List (ℚ × ℚ)) (hp : sw'.Perm sw) (hw : ∀ p ∈ sw, 0 ≤ p.2) (q : ℚ) (hq : 0 ≤ q) :
    popCorrection sw' q = popCorrection sw q := by
  have hw' := nonneg_of_perm hp hw
  cases h1 : popCorrection sw q with
  | none =>
    cases h2 : popCorrection sw' q with
    | none => rfl
    | some c' =>
      exfalso
      have hc := pop_calibrated sw' hw' q c' h2
      rw [wBelow_perm c' hp, wTot_perm hp] at hc
      -- then a correction exists for sw as well
      unfold popCorrection at h1
      have : q * wTot sw < 0 + wTot (sortS sw) := by
        rw [wTot_perm (sortS_perm sw)]
        have hle := wBelow_le_wTot c' sw hw
        linarith
      obtain ⟨c, hc2⟩ := scan_exists _ 0 _ (mul_nonneg hq (wTot_nonneg sw hw)) this
      rw [hc2] at h1; cases h1
  | some c =>
    have hcal := pop_calibrated sw hw q c h1
    cases h2 : popCorrection sw' q with
    | none =>
      exfalso
      unfold popCorrection at h2
      have hle := wBelow_le_wTot c sw hw
      have : q * wTot sw' < 0 + wTot (sortS sw') := by
        rw [wTot_perm (sortS_perm sw'), wTot_perm hp]; linarith
      obtain ⟨c2, hc2⟩ := scan_exists _ 0 _ (mul_nonneg hq (wTot_nonneg sw' hw')) this
      rw [hc2] at h2; cases h2
    | some c' =>
      have hcal' := pop_calibrated sw' hw' q c' h2
      rw [wBelow_perm c' hp, wTot_perm hp] at hcal'
      rcases lt_trichotomy c' c with hlt | heq | hgt
      · have := pop_minimal sw hw q hq c h1 c' hlt; linarith
      · rw [heq]
      · have := pop_minimal sw' hw' q hq c' h2 c hgt
        rw [wBelow_perm c hp, wTot_perm hp] at this; linarith

/-- **robust option**: the applied correction is at least the weighted correction *and* at least the unweighted
    `q`-quantile of the scores, so both calibration statements hold -/
theorem robust_both (sw : List (ℚ × ℚ)) (q c pc : ℚ) (hp : popCorrection sw q = some pc)
    (h : correction true sw q = some c) : pc ≤ c ∧ npQuantile (sw.map Prod.fst) q ≤ c := by
  unfold correction at h
  rw [hp] at h
  simp only [if_true, Option.some.injEq] at h
  rw [← h, rmax_eq]
  exact ⟨le_max_right _ _, le_max_left _ _⟩

theorem nonrobust_is_pop (sw : List (ℚ × ℚ)) (q : ℚ) : correction false sw q = popCorrection sw q := by
  unfold correction; cases popCorrection sw q <;> simp

/-- a larger correction keeps every calibration unit that was inside, inside (share is monotone) -/
theorem wBelow_mono (sw : List (ℚ × ℚ)) (hw : ∀ p ∈ sw, 0 ≤ p.2) (c c' : ℚ) (h : c ≤ c') :
    wBelow c sw ≤ wBelow c' sw := by
  induction sw with
  | nil => simp [wBelow]
  | cons p t ih =>
    obtain ⟨s, w⟩ := p
    have h0 : 0 ≤ w := hw (s, w) (List.mem_cons_self ..)
    have := ih (fun p hp => hw p (List.mem_cons_of_mem _ hp))
    simp only [wBelow]
    by_cases h1 : s ≤ c
    · have : s ≤ c' := le_trans h1 h
      simp [h1, this]; linarith
    · by_cases h2 : s ≤ c' <;> simp [h1, h2] <;> linarith

/-- hence with `robust` the weighted share still exceeds the level -/
theorem robust_calibrated (sw : List (ℚ × ℚ)) (hw : ∀ p ∈ sw, 0 ≤ p.2) (q c : ℚ)
    (h : correction true sw q = some c) : q * wTot sw < wBelow c sw := by
  cases hp : popCorrection sw q with
  | none => unfold correction at h; rw [hp] at h; cases h
  | some pc =>
    have := robust_both sw q c pc hp h
    exact lt_of_lt_of_le (pop_calibrated sw hw q pc hp) (wBelow_mono sw hw pc c this.1)

/-- **vote-space transfer**: rounding and the floor at the partial count preserve coverage of a whole-number
    true count that is at least the partial count -/
theorem vote_space_transfer (l u c w : ℚ) (part t : ℤ) (hpt : part ≤ t)
    (h1 : (l - c) * w + w ≤ t) (h2 : (t : ℚ) ≤ (u + c) * w + w) :
    finalLower l c w part ≤ t ∧ t ≤ finalUpper u c w part := by
  unfold finalLower finalUpper
  rw [rmax_eq, rmax_eq]
  constructor
  · apply rhe_le_int
    exact max_le h1 (by exact_mod_cast hpt)
  · apply rhe_ge_int
    exact le_trans h2 (le_max_left _ _)

/-! ### non-vacuity: ties, a negative correction, running weight hitting the level exactly -/
example : popCorrection [(1/2, 3), (-1/4, 1), (3/4, 2), (1/2, 2)] (1/2) = some (1/2) := by decide +kernel
example : popCorrection [(-1/8, 4), (-1/4, 4)] (1/2) = some (-1/8) := by decide +kernel   -- share exactly ½ is not enough
example : popCorrection [(-1/8, 4), (-1/4, 4)] (7/16) = some (-1/4) := by decide +kernel
example : correction true [(1, 1), (0, 7)] (1/2) = some (1/2) ∧ correction false [(1, 1), (0, 7)] (1/2) = some 0 := by
  decide +kernel

end ElexModel.Conformal
