"""./check Cxx --tier quick|thorough [--replay file]   (decision procedure of DESIGN.md section 2.5)"""
import argparse
import importlib
import json
import os
import sys
import time
import traceback
from pathlib import Path

sys.path.insert(0, str(Path(__file__).resolve().parent.parent))

from harness import common as C  # noqa: E402


def prepare(mod, run):
    """translator + proof obligations + audit. Returns the prep dict; fills run.broken."""
    prep = {"obligations": 0, "discharged": 0, "theorems": [], "axioms_used": [], "driver_ok": False}
    # 1. translator: the property's own anchors, and every regenerated file its theorems (transitively) import
    done = set()
    if hasattr(mod, "extract"):
        try:
            for b in mod.extract(run) or []:
                run.broken.append(b)
            done.add(mod.PROP)
        except Exception as e:  # a source the translator cannot read is a broken obligation
            run.broken.append(f"translator: {type(e).__name__}: {e}")
    try:
        from harness import extract as X

        for g in C.gen_deps(mod.MODULES + mod.DRIVER_TARGETS):
            if g not in done and g in X.GENERATORS:
                for b in X.generate(g) or []:
                    run.broken.append(b)
        prep["regenerated"] = sorted(done | set(C.gen_deps(mod.MODULES + mod.DRIVER_TARGETS)))
    except Exception as e:
        run.broken.append(f"translator: {type(e).__name__}: {e}")
    # 2. model + driver build (needed by the correspondence)
    ok, log, dt = C.lake_build(mod.DRIVER_TARGETS)
    prep["driver_ok"] = ok
    prep["build_s"] = round(dt, 1)
    if not ok:
        run.broken.append("model build failed: " + _first_error(log))
    # 3. property theorems
    okp, logp, dt2 = C.lake_build(mod.MODULES)
    prep["build_s"] += round(dt2, 1)
    lean_files = [C.LEAN / (m.replace(".", "/") + ".lean") for m in mod.MODULES]
    thms = []
    for f in lean_files:
        thms += C.theorems_of(f)
    prep["theorems"] = thms
    prep["obligations"] = len(thms)
    if not okp:
        run.broken.append("proof obligations no longer check: " + _first_error(logp))
        failed = set(_failed_decls(logp, thms))
        prep["discharged"] = len(thms) - max(1, len(failed))
        prep["failed"] = sorted(failed)
        return prep
    # 4. audit
    all_lean = [f for f in C.LEAN.rglob("*.lean") if ".lake" not in f.parts and "Audit" not in f.parts]
    hits = C.forbidden_scan(all_lean)
    if hits:
        run.broken.append("forbidden construct: " + "; ".join(hits[:5]))
    a = C.audit(mod.PROP, mod.MODULES)
    used = set()
    bad = []
    for t in thms:
        ax = a["axioms"].get(t)
        if ax is None:
            bad.append(f"{t}: not reported by #print axioms")
            continue
        used.update(ax)
        extra = set(ax) - C.ALLOWED_AXIOMS
        if extra:
            bad.append(f"{t}: axioms {sorted(extra)}")
    if bad:
        run.broken.append("axiom audit: " + "; ".join(bad[:5]))
    prep["axioms_used"] = sorted(used)
    prep["discharged"] = len(thms) - len(bad) if not hits else 0
    # 5. thorough tier: the compiled theorems (and the regenerated files they import) are re-checked by the independent checker
    if run.tier == "thorough":
        mods = list(mod.MODULES) + [f"ElexModel.Gen.{g}" for g in prep.get("regenerated", [])]
        okc, logc, dtc = C.leanchecker(mods)
        prep["leanchecker"] = {"modules": mods, "ok": okc, "seconds": round(dtc, 1)}
        if not okc:
            run.broken.append("leanchecker rejected the compiled theorems: " + logc[-400:])
            prep["discharged"] = 0
    return prep


def _first_error(log):
    lines = log.splitlines()
    for i, l in enumerate(lines):
        if l.startswith("error:"):
            return " | ".join(x.strip() for x in lines[i : i + 4])[:600]
    return log[-400:]


def _failed_decls(log, thms):
    out = []
    short = {t.split(".")[-1]: t for t in thms}
    for l in log.splitlines():
        for s, t in short.items():
            if s in l:
                out.append(t)
    return out


def main():
    ap = argparse.ArgumentParser()
    ap.add_argument("prop")
    ap.add_argument("--tier", default=os.environ.get("VERIF_TIER", "quick"))
    ap.add_argument("--replay")
    args = ap.parse_args()
    prop = args.prop.upper()
    tier = args.tier if args.tier in ("quick", "thorough") else "quick"
    seed = int(os.environ.get("VERIF_SEED", "0") or 0)
    run = C.Run(prop, tier, seed)
    try:
        mod = importlib.import_module(f"harness.props.{prop.lower()}")
    except ModuleNotFoundError:
        print(f"no check for {prop}")
        sys.exit(2)
    try:
        code = decide(mod, run, args.replay)
    except Exception:
        traceback.print_exc()
        print(f"ERROR property={prop}: the check itself failed (not a verdict)")
        sys.exit(2)
    sys.exit(code)


def decide(mod, run, replay):
    prop = run.prop
    prep = prepare(mod, run)
    driver = C.Driver(prop) if prep["driver_ok"] else None
    run.assumptions = list(getattr(mod, "ASSUMPTIONS", []))
    known = [k for k in C.load_known()["findings"] if k["property"] == prop]
    known_sigs = {k["signature"]: k for k in known}

    if replay:
        payload = json.loads(Path(replay).read_text())
        # same PRNG state as the pass that wrote the replay file: replays that re-run the generator reproduce the case
        run.seed = int(payload.get("seed", run.seed))
        run.start_pass(payload.get("pass", payload.get("tier", "quick")))
        run.info["replay_of"] = {k: payload.get(k) for k in ("kind", "seed", "tier", "pass")}
        mod.replay(run, driver, payload)
    else:
        run.start_pass(run.tier)
        mod.explore(run, driver, run.tier)
        unknown = [v for v in run.violations if v.get("signature") not in known_sigs]
        if (run.broken or run.diffs) and not unknown:
            # a broken obligation / correspondence is not a verdict: search for a failing input
            run.info["search"] = "ran"
            run.start_pass("search")
            mod.explore(run, driver, "search")

    unknown = [v for v in run.violations if v.get("signature") not in known_sigs]
    for v in run.violations:
        s = v.get("signature")
        if s in known_sigs:
            run.known_hits[s] = run.known_hits.get(s, 0) + 1

    checker = f"cd lean && lake build {' '.join(mod.MODULES)} && lake env lean Audit/{prop}.lean  (#print axioms)"
    code = 0
    lines = []
    if unknown:
        v = unknown[0]
        path = C.write_replay(run, "failing-input", v)
        lines.append(f"VIOLATION property={prop} replay={path}")
        code = 1
    elif run.broken or run.diffs:
        payload = {
            "broken_obligations": run.broken,
            "correspondence_disagreements": run.diffs[:5],
            "note": "no concrete failing input was found by the search; the property is no longer shown to hold",
        }
        path = C.write_replay(run, "broken-obligation", payload)
        lines.append(f"VIOLATION property={prop} replay={path} no-failing-input-found")
        code = 1
    for s, n in run.known_hits.items():
        lines.append(f"KNOWN-FINDING: property={prop} {known_sigs[s]['description']} ({n} case(s) this run)")
    C.write_evidence(
        run,
        prep,
        trusted=list(getattr(mod, "TRUSTED", [])) + COMMON_TRUSTED + [
            "translator harness/extract.py + harness/relx.py (exact-subset translation of the anchors of DESIGN.md 2.2); regenerated from "
            "/repo/src on this run: " + (", ".join("Gen/" + g + ".lean" for g in prep.get("regenerated", [])) or "none"),
            "modelled, not verified: the numerical oracles (quantile / OLS solvers, scipy bootstrap, norm.ppf, numpy generators), pandas "
            "semantics of the idioms listed in DESIGN.md 3.2, binary64 rounding (DESIGN.md 3.1)"],
        checker_cmd=checker,
        violations=len(unknown) + (1 if (code == 1 and not unknown) else 0),
        extra={"build_s": prep.get("build_s"), "driver_lines": driver.lines if driver else 0, "regenerated_from_source": prep.get("regenerated", []),
               "leanchecker": prep.get("leanchecker")},
    )
    for l in lines:
        print(l)
    print(
        f"{prop} {run.tier} seed={run.seed}: obligations {prep['discharged']}/{prep['obligations']}, "
        f"cases {run.evaluations} (distinct non-trivial {len(run.distinct)}), diffs {len(run.diffs)}, "
        f"violations {len(unknown)}, known {sum(run.known_hits.values())}, boundary-skipped {run.boundary_skipped}, "
        f"{time.time() - run.t0:.1f}s -> exit {code}"
    )
    return code


COMMON_TRUSTED = [
    "Lean 4.33.0 kernel; axioms of every property theorem audited to be within {propext, Classical.choice, Quot.sound}",
    "correspondence harness (generators, canonicalisation, 1e-9 tolerance and boundary rule for float-vs-exact decisions)",
    "the Lean interpreter executing the model driver (its answers are diffed against the implementation)",
    "pandas/numpy semantics of the idioms used by the glue are modelled, validated by the diff, not proved",
]

if __name__ == "__main__":
    main()
