"""Stage-level driving of BootstrapElectionModel (as the repo's own unit tests do): hand-built unit frames and
directly assigned draw matrices, so that every row of the race-call decision table and every corner of the
interval construction is reached with numbers that are exact in binary64.  Shared by C02 (bootstrap clauses), C06, C07.
"""
from fractions import Fraction

import numpy as np
import pandas as pd

from harness import common as C

STATES = ["AA", "BB", "CC", "DD", "EE", "FF"]
DYADIC_ALPHAS = [0.5, 0.75, 0.875, 0.25]
DECIMAL_ALPHAS = [0.7, 0.9, 0.95, 0.99, 0.8]
EPS = Fraction(1, 10**9)


def dy(rng, lo, hi, den=64):
    return Fraction(rng.randint(int(lo * den), int(hi * den)), den)


def gen_stage(rng, kind="state"):
    """kind: state -> aggregate [postal_code] (top level); county -> [postal_code, county_fips];
    district -> [postal_code, district] (top level, two keys)"""
    ns = rng.randint(1, 5)
    states = rng.sample(STATES, ns)
    B = rng.choice([2, 3, 5, 8, 17])
    scale = rng.choice([Fraction(1, 64), Fraction(1, 8), Fraction(1, 2)])
    units = {"rep": [], "nonrep": [], "unexp": []}
    for s in states:
        role = rng.choice(["mixed", "mixed", "mixed", "all-rep", "all-nonrep", "only-unexp", "rep+unexp"])
        nsub = rng.randint(1, 3)
        subs = [f"{rng.randint(1, 4):02d}" for _ in range(nsub)]
        nu = rng.randint(1, 6)
        for _ in range(nu):
            sub = rng.choice(subs)
            cat = {
                "mixed": rng.choice(["rep", "nonrep", "nonrep", "unexp"]),
                "all-rep": "rep",
                "all-nonrep": "nonrep",
                "only-unexp": "unexp",
                "rep+unexp": rng.choice(["rep", "unexp"]),
            }[role]
            w = 2 ** rng.randint(0, 10)
            dem = rng.choice([0, 0, rng.randint(0, 2000), rng.randint(0, 50)])
            gop = rng.choice([0, rng.randint(0, 2000), rng.randint(0, 50), dem])
            u = {"state": s, "sub": sub, "w": w, "dem": dem, "gop": gop}
            if cat == "nonrep":
                zt = dy(rng, 0, 40) * w / 16
                yfrac = dy(rng, -1, 1)
                u["zt"] = zt
                u["yz"] = yfrac * zt
                # clip-stage invariant of compute_bootstrap_errors: turnout draws >= 0 and every margin draw is a
                # normalised margin in [-1, 1] times the matching turnout draw
                centre = rng.choice([0, 1, 1])
                for k in (3, 4):
                    u[f"e{k}"] = [max(Fraction(0), zt * centre + dy(rng, -2, 8) * scale * w) for _ in range(B)]
                yc = yfrac if rng.random() < 0.7 else Fraction(0)
                for k, kz in ((1, 3), (2, 4)):
                    u[f"e{k}"] = [
                        max(Fraction(-1), min(Fraction(1), yc + dy(rng, -16, 16) * scale)) * z for z in u[f"e{kz}"]
                    ]
            units[cat].append(u)
    if not units["rep"] and not units["nonrep"]:
        units["nonrep"].append(
            {"state": states[0], "sub": "01", "w": 4, "dem": 3, "gop": 1, "zt": Fraction(4), "yz": Fraction(1),
             "e1": [Fraction(1)] * B, "e2": [Fraction(1, 2)] * B, "e3": [Fraction(4)] * B, "e4": [Fraction(3)] * B}
        )
    alphas = rng.sample(DYADIC_ALPHAS, 2) + ([rng.choice(DECIMAL_ALPHAS)] if rng.random() < 0.5 else [])
    contests_all = sorted({key_of(u, kind) for c in units.values() for u in c})
    lhs = [c for c in contests_all if rng.random() < 0.3]
    rhs = [c for c in contests_all if c not in lhs and rng.random() < 0.3]
    stop = [c for c in contests_all if rng.random() < 0.3]
    bad = None
    r = rng.random()
    if r < 0.04 and contests_all:
        c = rng.choice(contests_all)
        lhs, rhs, bad = sorted(set(lhs + [c])), sorted(set(rhs + [c])), "both"
    elif r < 0.07:
        lhs, bad = lhs + ["ZZ"], "unknown-lhs"
        rhs = [c for c in rhs if c not in lhs]
    elif r < 0.10:
        rhs, bad = rhs + ["ZZ"], "unknown-rhs"
    elif r < 0.13:
        stop, bad = stop + ["ZZ"], "unknown-stop"
    return {
        "kind": kind, "B": B, "alphas": alphas, "units": units, "lhs": lhs, "rhs": rhs, "stop": stop, "bad": bad,
    }


def key_of(u, kind):
    return u["state"] if kind == "state" else f"{u['state']}_{u['sub']}"


def aggregate_of(kind):
    return {"state": ["postal_code"], "county": ["postal_code", "county_fips"], "district": ["postal_code", "district"]}[kind]


def frames(case):
    def rows(us, rep):
        out = []
        for u in us:
            rw = u["dem"] + u["gop"]
            m = u["dem"] - u["gop"]
            out.append(
                {
                    "postal_code": u["state"],
                    "county_fips": u["sub"],
                    "district": u["sub"],
                    "pred_margin": float(u["yz"]) if "yz" in u else float(m),
                    "results_margin": float(m),
                    "results_weights": float(rw),
                    "baseline_weights": float(u["w"]),
                    "turnout_factor": rw / u["w"],
                    "reporting": rep,
                    "baseline_dem": 3.0, "baseline_gop": 2.0, "baseline_turnout": 5.0,
                    "results_normalized_margin": (m / rw) if rw else 0.0,
                }
            )
        cols = ["postal_code", "county_fips", "district", "pred_margin", "results_margin", "results_weights",
                "baseline_weights", "turnout_factor", "reporting", "baseline_dem", "baseline_gop",
                "baseline_turnout", "results_normalized_margin"]
        df = pd.DataFrame(out, columns=cols)
        if not out:  # an empty slice of a real frame keeps its dtypes
            df = df.astype({c: (str if c in ("postal_code", "county_fips", "district") else float) for c in cols})
            df["reporting"] = df["reporting"].astype(int)
        return df

    U = case["units"]
    return rows(U["rep"], 1), rows(U["nonrep"], 0), rows(U["unexp"], 0)


_BM = None


def boot_module():
    global _BM
    if _BM is None:
        C.use_repo()
        from elexmodel.models import BootstrapElectionModel as m

        _BM = m
    return _BM


def impl_stage(case):
    """run the real aggregate methods; returns {"raises": cls} or rows keyed by group"""
    bm = boot_module()
    model = bm.BootstrapElectionModel({"features": ["baseline_normalized_margin"]})
    rep, nonrep, unexp = frames(case)
    U = case["units"]["nonrep"]
    B = case["B"]
    model.B = B
    n = len(U)
    for k in (1, 2, 3, 4):
        setattr(model, f"errors_B_{k}", np.array([[float(x) for x in u[f"e{k}"]] for u in U], dtype=float).reshape(n, B))
    model.weighted_yz_test_pred = np.array([float(u["yz"]) for u in U], dtype=float).reshape(n, 1)
    model.weighted_z_test_pred = np.array([float(u["zt"]) for u in U], dtype=float).reshape(n, 1)
    model.ran_bootstrap = True
    agg = aggregate_of(case["kind"])
    kw = dict(lhs_called_contests=list(case["lhs"]), rhs_called_contests=list(case["rhs"]))
    out = {}
    try:
        with np.errstate(all="ignore"):
            df = model.get_aggregate_predictions(rep, nonrep, unexp, agg, "margin", **kw)
            ivs = {}
            for a in case["alphas"]:
                lo, hi = model.get_aggregate_prediction_intervals(
                    rep, nonrep, unexp, agg, a, None, "margin", stop_model_call=list(case["stop"]), **kw
                )
                ivs[a] = (np.asarray(lo).flatten(), np.asarray(hi).flatten())
    except bm.BootstrapElectionModelException:
        return {"raises": "BootstrapElectionModelException"}
    except Exception as e:
        return {"raises": type(e).__name__, "msg": str(e)[:200]}
    rows = {}
    for i in range(df.shape[0]):
        key = "_".join(str(df[c].iloc[i]) for c in agg)
        rows[key] = {
            "pred": float(np.asarray(df["pred_margin"]).flatten()[i]),
            "turnout": float(df["pred_turnout"].iloc[i]),
            "results": float(df["results_margin"].iloc[i]),
            "reporting": float(df["reporting"].iloc[i]),
            "intervals": [[float(ivs[a][0][i]), float(ivs[a][1][i])] if i < len(ivs[a][0]) else None for a in case["alphas"]],
        }
    out["rows"] = rows
    out["order"] = list(rows)
    out["n_interval_rows"] = {str(a): int(len(ivs[a][0])) for a in case["alphas"]}
    return out


def model_op(case):
    kind = case["kind"]
    U = case["units"]
    keys = sorted({key_of(u, kind) for c in U.values() for u in c})
    rank = {k: i for i, k in enumerate(keys)}
    rep = []
    for u in U["rep"]:
        rw = u["dem"] + u["gop"]
        m = u["dem"] - u["gop"]
        # the frame carries floats: pass their exact values
        rep.append([rank[key_of(u, kind)], C.rat(u["w"]), C.rat((m / rw) if rw else 0.0), C.rat(rw / u["w"]), C.rat(m)])
    nonrep = [
        [rank[key_of(u, kind)], C.rat(u["yz"]), C.rat(u["zt"])] + [[C.rat(x) for x in u[f"e{k}"]] for k in (1, 2, 3, 4)]
        for u in U["nonrep"]
    ]
    unexp = [[rank[key_of(u, kind)], C.rat(u["dem"] - u["gop"]), C.rat(u["dem"] + u["gop"])] for u in U["unexp"]]
    calls = ["lhs" if k in case["lhs"] else "rhs" if k in case["rhs"] else "none" for k in keys]
    stops = [k in case["stop"] for k in keys]
    top = kind in ("state", "district")
    return {
        "op": "boot.table", "rep": rep, "nonrep": nonrep, "unexp": unexp, "groups": list(range(len(keys))),
        "top": top, "calls": calls, "stops": stops, "alphas": [C.rat(a) for a in case["alphas"]], "B": case["B"],
    }, keys


def rank_boundary(alpha, B):
    """float evaluation of floor/ceil in _get_quantiles may differ from the exact one only if the exact
    argument is within 1e-9 of (but not equal to) an integer"""
    a = C.frac(alpha)
    la = (1 - a) / 2
    ua = 1 - la
    for x in (la * (B + 1), ua * (B - 1)):
        d = abs(x - round(x))
        if 0 < d < EPS:
            return True
    return False


def expected_error(case):
    return case["bad"] is not None


def sign(x):
    return (x > 0) - (x < 0)
