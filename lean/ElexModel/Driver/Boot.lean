import ElexModel.Driver.Util
import ElexModel.Core.BootAgg
import ElexModel.Gen.C06
import ElexModel.Core.BootErr
import ElexModel.Gen.C07

open Lean ElexModel.Driver

namespace ElexModel.Driver.Boot
open ElexModel ElexModel.Boot ElexModel.BootAgg

def callOfJson (j : Json) : Except String Call := do
  match ← strOfJson j with
  | "lhs" => pure .lhs
  | "rhs" => pure .rhs
  | "none" => pure .none
  | s => throw s!"bad call {s}"

def callToJson : Call → Json
  | .lhs => "lhs"
  | .rhs => "rhs"
  | .none => "none"

def pairToJson (p : Rat × Rat) : Json := Json.arr #[ratToJson p.1, ratToJson p.2]

def repOfJson (j : Json) : Except String Rep := do
  match ← arrOfJson j with
  | [g, w, y, z, m] => pure ⟨← natOfJson g, ← ratOfJson w, ← ratOfJson y, ← ratOfJson z, ← ratOfJson m⟩
  | _ => throw "rep = [g,w,y,z,m]"

def unexpOfJson (j : Json) : Except String Unexp := do
  match ← arrOfJson j with
  | [g, m, t] => pure ⟨← natOfJson g, ← ratOfJson m, ← ratOfJson t⟩
  | _ => throw "unexp = [g,m,t]"

def nonrepOfJson (j : Json) : Except String Nonrep := do
  match ← arrOfJson j with
  | [g, yz, zt, e1, e2, e3, e4] =>
    pure ⟨← natOfJson g, ← ratOfJson yz, ← ratOfJson zt, ← listOf ratOfJson e1, ← listOf ratOfJson e2,
      ← listOf ratOfJson e3, ← listOf ratOfJson e4⟩
  | _ => throw "nonrep = [g,yz,zt,e1,e2,e3,e4]"

def formatErrToJson : FormatErr → Json
  | .both => "both"
  | .unknownLhs => "unknown-lhs"
  | .unknownRhs => "unknown-rhs"

def run (op : String) (j : Json) : Except String Json := do
  match op with
  | "boot.ranks" =>
    let alpha ← ratOfJson (← field j "alpha")
    let B ← natOfJson (← field j "B")
    let g := Gen.C06.get_quantiles alpha (B : Rat)
    pure (Json.mkObj [("model", pairToJson (lowerQ alpha B, upperQ alpha B)), ("gen", pairToJson g)])
  | "boot.bounds" =>
    -- the clip bounds of a nonreporting unit as regenerated from `_generate_nonreporting_bounds`
    let pev ← ratOfJson (← field j "pev")
    let obs ← ratOfJson (← field j "obs")
    let lb ← ratOfJson (← field j "lb")
    let ub ← ratOfJson (← field j "ub")
    if (← strOfJson (← field j "estimand")) == "y" then
      pure (pairToJson (Gen.C06.y_lower_bound pev obs lb ub, Gen.C06.y_upper_bound pev obs lb ub))
    else
      let eb ← ratOfJson (← field j "eb")
      pure (pairToJson (Gen.C06.z_lower_bound pev obs eb lb ub, Gen.C06.z_upper_bound pev obs eb lb ub))
  | "boot.clip" =>
    -- the clip stage of `compute_bootstrap_errors` as regenerated from source: the stored draws of one unit and draw
    let yBar ← ratOfJson (← field j "yBar")
    let zBar ← ratOfJson (← field j "zBar")
    let ry ← ratOfJson (← field j "ry")
    let rz ← ratOfJson (← field j "rz")
    let yl ← ratOfJson (← field j "yl")
    let yu ← ratOfJson (← field j "yu")
    let zl ← ratOfJson (← field j "zl")
    let zu ← ratOfJson (← field j "zu")
    let w ← ratOfJson (← field j "w")
    pure (Json.arr #[ratToJson (Gen.C06.clip_errors_B_2 yBar zBar ry rz yl yu zl zu w),
                     ratToJson (Gen.C06.clip_errors_B_4 zBar rz yl yu zl zu w),
                     ratToJson (Gen.C06.clip_weighted_yz_test_pred yBar zBar yl yu zl zu w),
                     ratToJson (Gen.C06.clip_weighted_z_test_pred zBar yl yu zl zu w)])
  | "boot.epsilon" =>
    -- contest effects and unit-level rests of a list of (contest, residual) pairs; `k` contests
    let cs ← listOf natOfJson (← field j "contests")
    let rs ← listOf ratOfJson (← field j "residuals")
    let k ← natOfJson (← field j "k")
    let prs := cs.zip rs
    pure (Json.mkObj [("epsilon", listToJson ratToJson ((List.range k).map (BootErr.epsilon prs))),
                      ("delta", listToJson ratToJson (BootErr.delta prs))])
  | "boot.interp" =>
    -- np.interp(x, xp, fp, left, right) for each query x
    let xs ← listOf ratOfJson (← field j "xs")
    let xp ← listOf ratOfJson (← field j "xp")
    let fp ← listOf ratOfJson (← field j "fp")
    let left ← ratOfJson (← field j "left")
    let right ← ratOfJson (← field j "right")
    pure (listToJson ratToJson (xs.map (fun x => BootErr.interp x left right (xp.zip fp))))
  | "boot.quantile" =>
    let xs ← listOf ratOfJson (← field j "xs")
    let q ← ratOfJson (← field j "q")
    pure (ratToJson (npQuantile xs q))
  | "boot.unit" =>
    let pred ← ratOfJson (← field j "pred")
    let draws ← listOf ratOfJson (← field j "draws")
    let alpha ← ratOfJson (← field j "alpha")
    let B ← natOfJson (← field j "B")
    let r := unitInterval pred draws alpha B
    let raw := unitRaw pred draws alpha B
    pure (Json.mkObj [("interval", Json.arr #[intToJson r.1, intToJson r.2]), ("raw", pairToJson raw)])
  | "boot.format" =>
    let lhs ← listOf natOfJson (← field j "lhs")
    let rhs ← listOf natOfJson (← field j "rhs")
    let contests ← listOf natOfJson (← field j "contests")
    match formatCalled lhs rhs contests with
    | .error e => pure (Json.mkObj [("raises", formatErrToJson e)])
    | .ok v => pure (listToJson callToJson v)
  | "boot.stop" =>
    let stop ← listOf natOfJson (← field j "stop")
    let contests ← listOf natOfJson (← field j "contests")
    match formatStop stop contests with
    | .error e => pure (Json.mkObj [("raises", formatErrToJson e)])
    | .ok v => pure (listToJson Json.bool v)
  | "boot.istop" =>
    let agg ← listOf strOfJson (← field j "aggregate")
    pure (Json.mkObj [("model", Json.bool (isTop agg)), ("gen", Json.bool (Gen.C07.is_top_level_aggregate agg))])
  | "boot.table" =>
    let rep ← listOf repOfJson (← field j "rep")
    let nonrep ← listOf nonrepOfJson (← field j "nonrep")
    let unexp ← listOf unexpOfJson (← field j "unexp")
    let U : Units := ⟨rep, nonrep, unexp⟩
    let groups ← listOf natOfJson (← field j "groups")
    let top ← boolOfJson (← field j "top")
    let calls ← listOf callOfJson (← field j "calls")
    let stops ← listOf boolOfJson (← field j "stops")
    let alphas ← listOf ratOfJson (← field j "alphas")
    let B ← natOfJson (← field j "B")
    let rows := (groups.zip (calls.zip stops)).map fun (g, c, s) =>
      Json.mkObj [
        ("g", natToJson g),
        ("pred", ratToJson (reportedPred U top c g)),
        ("centre", ratToJson (intervalCentre U top c g)),
        ("turnout", ratToJson (predTurnout U g)),
        ("raw_pred", ratToJson (predMarginRaw U g)),
        ("intervals", listToJson (fun a => pairToJson (interval U top c s g a B)) alphas)]
    pure (Json.arr rows.toArray)
  | _ => throw s!"unknown op {op}"

end ElexModel.Driver.Boot
