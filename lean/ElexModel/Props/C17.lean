import Mathlib.Tactic.Ring
import Mathlib.Tactic.Linarith
import ElexModel.Core.Versioned
import ElexModel.Gen.C17
import ElexModel.Lemmas.Num
import Mathlib.Tactic.FieldSimp

/-!
# C17 — margin histories interpolate within bounds; irregular histories are discarded

`compute` is the model of `compute_versioned_margin_estimate` for one unit.  Quantifiers: every history (any
number of versions, repeats, zero-vote versions, re-scaled percents).
-/

namespace ElexModel.Versioned
open ElexModel

/-- the estimate at 0 % is 0 (the division guard) -/
theorem est_zero (p nm b : List ℚ) : estAt p nm b 0 = 0 := by
  unfold estAt; simp

/-- **before the first observation the imputed margin equals the first observed margin** -/
theorem est_before_first (p nm b : List ℚ) (perc : ℕ) (hp : 1 ≤ perc) (h : countLe p perc = 0) :
    estAt p nm b perc = nthR nm 0 := by
  unfold estAt
  have hne : perc ≠ 0 := by omega
  have hq : (perc : ℚ) ≠ 0 := by exact_mod_cast hne
  simp only [h, if_true, hne, if_false]
  field_simp
  ring

/-- **after an observation the imputed margin is a convex combination** of the last observed margin and the margin of
    the next batch, with weight `λ = p_i / perc` on the observed margin -/
theorem est_convex (p nm b : List ℚ) (perc : ℕ) (hp : 1 ≤ perc) (h : countLe p perc ≠ 0) :
    estAt p nm b perc =
      (nthR p (countLe p perc - 1) / perc) * nthR nm (countLe p perc - 1) +
      (1 - nthR p (countLe p perc - 1) / perc) * nthR b (countLe p perc - 1) := by
  unfold estAt
  have hne : perc ≠ 0 := by omega
  have hq : (perc : ℚ) ≠ 0 := by exact_mod_cast hne
  simp only [h, if_false, hne]
  field_simp

/-- in a sorted list the first `countLe p x` entries are exactly those `≤ x` -/
theorem sorted_prefix_le (p : List ℚ) (hs : p.Pairwise (· ≤ ·)) (x : ℚ) (i : ℕ) (hi : i < countLe p x) :
    nthR p i ≤ x := by
  induction p generalizing i with
  | nil => simp [countLe] at hi
  | cons a t ih =>
    have ha := List.pairwise_cons.mp hs
    by_cases hax : a ≤ x
    · cases i with
      | zero => simpa [nthR] using hax
      | succ i =>
        have : countLe (a :: t) x = countLe t x + 1 := by simp [countLe, List.filter_cons, hax]
        rw [this] at hi
        have := ih ha.2 i (by omega)
        simpa [nthR] using this
    · exfalso
      have hz : countLe (a :: t) x = 0 := by
        unfold countLe
        rw [List.length_eq_zero_iff, List.filter_eq_nil_iff]
        intro y hy
        simp only [decide_eq_true_eq, not_le]
        rcases List.mem_cons.mp hy with rfl | hy
        · exact not_le.mp hax
        · exact lt_of_lt_of_le (not_le.mp hax) (ha.1 y hy)
      omega

/-- the weight of the convex combination is in `[0, 1]` for a sorted, non-negative percent axis -/
theorem lambda_range (p : List ℚ) (hs : p.Pairwise (· ≤ ·)) (hnn : ∀ x ∈ p, 0 ≤ x) (perc : ℕ) (hp : 1 ≤ perc)
    (h : countLe p perc ≠ 0) :
    0 ≤ nthR p (countLe p perc - 1) / perc ∧ nthR p (countLe p perc - 1) / perc ≤ 1 := by
  have hq : (0:ℚ) < perc := by exact_mod_cast hp
  have hle := sorted_prefix_le p hs perc (countLe p perc - 1) (by omega)
  have hlen : countLe p perc ≤ p.length := by unfold countLe; exact List.length_filter_le _ _
  have hmem : nthR p (countLe p perc - 1) ∈ p := by
    unfold nthR
    rw [← List.getElem_eq_getD (h := by omega) 0]
    exact List.getElem_mem _
  constructor
  · exact div_nonneg (hnn _ hmem) hq.le
  · rw [div_le_one hq]; exact hle

/-- **hence the imputed margin lies in [-1, 1]** whenever the observed margin and the batch margin do -/
theorem est_bounded (p nm b : List ℚ) (hs : p.Pairwise (· ≤ ·)) (hnn : ∀ x ∈ p, 0 ≤ x) (perc : ℕ) (hp : 1 ≤ perc)
    (h : countLe p perc ≠ 0)
    (hnm : -1 ≤ nthR nm (countLe p perc - 1) ∧ nthR nm (countLe p perc - 1) ≤ 1)
    (hb : -1 ≤ nthR b (countLe p perc - 1) ∧ nthR b (countLe p perc - 1) ≤ 1) :
    -1 ≤ estAt p nm b perc ∧ estAt p nm b perc ≤ 1 := by
  rw [est_convex p nm b perc hp h]
  obtain ⟨l0, l1⟩ := lambda_range p hs hnn perc hp h
  constructor <;> nlinarith

/-- … and before the first observation it is the first observed margin, which is in [-1, 1] as well -/
theorem est_bounded_before (p nm b : List ℚ) (perc : ℕ) (hp : 1 ≤ perc) (h : countLe p perc = 0)
    (hnm : -1 ≤ nthR nm 0 ∧ nthR nm 0 ≤ 1) : -1 ≤ estAt p nm b perc ∧ estAt p nm b perc ≤ 1 := by
  rw [est_before_first p nm b perc hp h]; exact hnm

/-- an accepted batch list has every batch margin within [-1, 1] -/
theorem batchOk_bounds (l : List (Option ℚ)) (h : batchOk l = true) (i : ℕ) :
    -1 ≤ nthR (l.map (fun x => x.getD 0)) i ∧ nthR (l.map (fun x => x.getD 0)) i ≤ 1 := by
  induction l generalizing i with
  | nil => simp [nthR]
  | cons a t ih =>
    cases a with
    | none => simp [batchOk] at h
    | some v =>
      simp only [batchOk, Bool.and_eq_true, decide_eq_true_eq] at h
      cases i with
      | zero => simpa [nthR] using ⟨h.1.1, h.1.2⟩
      | succ i => simpa [nthR] using ih h.2 i

/-- **a non-monotone history or an impossible batch yields no estimate at all**, only the error type -/
theorem irregular_all_missing (vs : List V) (h : monotone (corrs vs) = false ∨ batchOk (batches vs) = false) :
    compute vs = .error .nonMonotone ∨ compute vs = .error .batchMargin := by
  unfold compute
  rcases h with h | h
  · left; simp [h]
  · by_cases hm : monotone (corrs vs) = true
    · right; simp [hm, h]
    · left; simp at hm; simp [hm]

theorem error_kind (vs : List V) :
    (compute vs = .error .nonMonotone ↔ monotone (corrs vs) = false) ∧
    (compute vs = .error .batchMargin ↔ monotone (corrs vs) = true ∧ batchOk (batches vs) = false) := by
  unfold compute
  by_cases hm : monotone (corrs vs) = true <;> by_cases hb : batchOk (batches vs) = true <;> simp_all

/-- **one row for every whole percent from 0 to the latest (re-scaled) percent**, in order; each row carries the
    correction `final margin − imputed margin` -/
theorem percs_complete (vs : List V) (rows : List Row) (h : compute vs = .ok rows) :
    rows.length = (maxR (percents vs)).floor.toNat + 1 ∧
    ∀ i (hi : i < rows.length), rows[i].perc = i ∧ rows[i].corr = (lastD vs).nm - rows[i].est ∧
      rows[i].est = estAt (percents vs) (vs.map (·.nm)) ((batches vs).map (fun x => x.getD 0)) i := by
  unfold compute at h
  split at h
  · cases h
  · split at h
    · cases h
    · injection h with h
      subst h
      refine ⟨by simp, ?_⟩
      intro i hi
      simp

/-- a regular history is never discarded -/
theorem regular_kept (vs : List V) (hm : monotone (corrs vs) = true) (hb : batchOk (batches vs) = true) :
    ∃ rows, compute vs = .ok rows := by
  unfold compute; simp [hm, hb]

/-! ### non-vacuity: observations at 17 / 42 / 79 / 100 % -/
def exHist : List V := [⟨100, 70, 170, 170, 17, 3/17⟩, ⟨200, 220, 420, 420, 42, -1/21⟩,
  ⟨420, 370, 790, 790, 79, 5/79⟩, ⟨520, 480, 1000, 1000, 100, 1/25⟩]

example : percents exHist = [17, 42, 79, 100] := by decide +kernel
example : (match compute exHist with | .ok rows => rows.length | .error _ => 0) = 101 := by decide +kernel
example : estAt (percents exHist) (exHist.map (·.nm)) ((batches exHist).map (fun x => x.getD 0)) 50 = -9/925 := by
  decide +kernel
example : batchOk (batches [⟨50, 50, 100, 100, 50, 0⟩, ⟨60, 40, 100, 100, 50, 1/5⟩, ⟨110, 90, 200, 200, 100, 1/10⟩])
    = false := by decide +kernel

end ElexModel.Versioned

/-! ### bridge: the scalar formulas, tests and error kinds as they are in `/repo/src` on this run -/

namespace ElexModel.Versioned
open ElexModel

/-- the estimate of the model is the source's interpolation formula, with `obs_indices = countLe − 1`
    (`searchsorted(side="right") − 1`) and the guarded division by the percent -/
theorem bridge_est (p nm b : List ℚ) (perc : ℕ) :
    estAt p nm b perc =
      let oi : ℚ := (countLe p perc : ℚ) - 1
      let i := countLe p perc - 1
      if perc = 0 then 0 else
        Gen.C17.est_numerator (Gen.C17.observed_norm_margin oi (nthR nm 0) (nthR nm i))
          (Gen.C17.observed_vote oi (nthR p i)) (Gen.C17.observed_batch_margin oi (nthR nm 0) (nthR b i)) perc / perc := by
  unfold estAt Gen.C17.est_numerator Gen.C17.observed_norm_margin Gen.C17.observed_vote Gen.C17.observed_batch_margin
  by_cases hc : countLe p perc = 0
  · simp [hc]
  · have : ((countLe p perc : ℚ) - 1 = -1) ↔ False := by
      constructor
      · intro h
        have : (countLe p perc : ℚ) = 0 := by linarith
        exact hc (by exact_mod_cast this)
      · exact False.elim
    simp [hc, this]

/-- batch margin between two versions: the source's quotient where it is defined (`0/0 ↦ 0` and `±inf` are the two guarded
    cases of `batches`) -/
theorem bridge_batch (a b : V) (t : List V) (h : b.weights - a.weights ≠ 0) :
    (batches (a :: b :: t)).head? =
      some (some (Gen.C17.batch_margin (b.dem - a.dem) (b.gop - a.gop) (b.weights - a.weights))) := by
  simp [batches, h, Gen.C17.batch_margin]

theorem bridge_rescale (vs : List V) :
    percents vs = vs.map (fun v => Gen.C17.rescaled_percent (divz v.turnout (lastD vs).turnout) (lastD vs).pev) := rfl

theorem bridge_correction (nmLast e : ℚ) : Gen.C17.est_correction nmLast e = nmLast - e := rfl

/-- the two irregularity tests (monotone turnout, batch margins within ±1) in this order, and the error kinds -/
theorem bridge_tests :
    Gen.C17.tests = ["not np.all(np.diff(results_turnout) >= 0)", "np.abs(batch_margin).max() > 1"] ∧
    Gen.C17.error_kinds = ["non-monotone percent expected vote", "batch_margin", "none"] ∧
    Gen.C17.nearest_observed = ["percent_vote[np.clip(obs_indices + 1, 0, len(percent_vote) - 1)]"] := ⟨rfl, rfl, rfl⟩

theorem bridge_shape : Gen.C17.shape =
    ["batch_margin[np.isnan(batch_margin)] = 0", "max_perc = int(np.max(percent_vote))", "np.arange(0, max_perc + 1)",
     "np.arange(101)", "np.clip(obs_indices + 1, 0, len(percent_vote) - 1)", "np.clip(obs_indices, 0, len(percent_vote) - 1)",
     "np.divide(est_margins, percs, where=percs != 0, out=np.zeros_like(est_margins), casting='unsafe')",
     "np.divide(results_turnout, results_turnout[-1], out=np.zeros_like(results_turnout, dtype=float), where=results_turnout[-1] != 0, casting='unsafe')",
     "np.searchsorted(percent_vote, percs, side='right')",
     "obs_indices = np.searchsorted(percent_vote, percs, side='right') - 1"] := rfl

end ElexModel.Versioned

namespace ElexModel.Versioned
open ElexModel

/-- **C17 on the source**: with the interpolation formula as written in `/repo/src` today, at a percent with an earlier observation
    the imputed margin is the convex combination `λ · (last observed margin) + (1 − λ) · (next batch margin)`, `λ = observed / perc` -/
theorem source_est_convex (oi nm0 nmc pv bc perc : ℚ) (hoi : oi ≠ -1) (hp : perc ≠ 0) :
    Gen.C17.est_numerator (Gen.C17.observed_norm_margin oi nm0 nmc) (Gen.C17.observed_vote oi pv)
        (Gen.C17.observed_batch_margin oi nm0 bc) perc / perc =
      (pv / perc) * nmc + (1 - pv / perc) * bc := by
  unfold Gen.C17.est_numerator Gen.C17.observed_norm_margin Gen.C17.observed_vote Gen.C17.observed_batch_margin
  simp only [hoi, decide_false, Bool.false_eq_true, if_false]
  field_simp

/-- … and before the first observation it is the first observed margin -/
theorem source_est_before_first (nm0 nmc pv bc perc : ℚ) (hp : perc ≠ 0) :
    Gen.C17.est_numerator (Gen.C17.observed_norm_margin (-1) nm0 nmc) (Gen.C17.observed_vote (-1) pv)
        (Gen.C17.observed_batch_margin (-1) nm0 bc) perc / perc = nm0 := by
  unfold Gen.C17.est_numerator Gen.C17.observed_norm_margin Gen.C17.observed_vote Gen.C17.observed_batch_margin
  simp only [decide_true, if_true]
  field_simp
  ring

/-- … hence within `[-1, 1]` whenever the observed margin and the batch margin are and the observation is not after `perc` -/
theorem source_est_bounded (oi nm0 nmc pv bc perc : ℚ) (hoi : oi ≠ -1) (hp : 0 < perc) (h0 : 0 ≤ pv) (h1 : pv ≤ perc)
    (hn : |nmc| ≤ 1) (hb : |bc| ≤ 1) :
    |Gen.C17.est_numerator (Gen.C17.observed_norm_margin oi nm0 nmc) (Gen.C17.observed_vote oi pv)
        (Gen.C17.observed_batch_margin oi nm0 bc) perc / perc| ≤ 1 := by
  rw [source_est_convex oi nm0 nmc pv bc perc hoi hp.ne']
  have hl0 : 0 ≤ pv / perc := div_nonneg h0 hp.le
  have hl1 : pv / perc ≤ 1 := by rw [div_le_one hp]; exact h1
  obtain ⟨n1, n2⟩ := abs_le.mp hn
  obtain ⟨b1, b2⟩ := abs_le.mp hb
  rw [abs_le]
  constructor <;> nlinarith

end ElexModel.Versioned
