import ElexModel.Core.Table
import Mathlib.Tactic.Linarith
import Mathlib.Tactic.Ring
import Mathlib.Data.List.Sort

/-! Group-sum algebra: the lemmas every aggregation theorem (C01, C02, C03, C10, C11) rests on. -/

namespace ElexModel.Table

/-- keys strictly increasing: sorted, no duplicates -/
def Sorted (t : Table) : Prop := (keys t).Pairwise (· < ·)

theorem keys_cons (k : ℕ) (v : ℚ) (t : Table) : keys ((k, v) :: t) = k :: keys t := rfl

/-! ### insertKey -/

theorem mem_insertKey (k x : ℕ) (l : List ℕ) : x ∈ insertKey k l ↔ x = k ∨ x ∈ l := by
  induction l with
  | nil => simp [insertKey]
  | cons a t ih =>
    unfold insertKey
    split
    · simp
    · split
      · rename_i h; subst h; simp
      · simp only [List.mem_cons, ih]; tauto

theorem insertKey_sorted (k : ℕ) (l : List ℕ) (h : l.Pairwise (· < ·)) : (insertKey k l).Pairwise (· < ·) := by
  induction l with
  | nil => simp [insertKey]
  | cons a t ih =>
    have ha := List.pairwise_cons.mp h
    unfold insertKey
    split
    · rename_i hlt
      refine List.pairwise_cons.mpr ⟨?_, h⟩
      intro x hx
      rcases List.mem_cons.mp hx with rfl | hx
      · exact hlt
      · exact lt_trans hlt (ha.1 x hx)
    · split
      · exact h
      · rename_i h1 h2
        refine List.pairwise_cons.mpr ⟨?_, ih ha.2⟩
        intro x hx
        rcases (mem_insertKey k x t).mp hx with rfl | hx
        · omega
        · exact ha.1 x hx

theorem insertAdd_keys (k : ℕ) (v : ℚ) (t : Table) : keys (insertAdd k v t) = insertKey k (keys t) := by
  induction t with
  | nil => rfl
  | cons a t ih =>
    obtain ⟨k', v'⟩ := a
    unfold insertAdd
    simp only [keys_cons]
    unfold insertKey
    split
    · rfl
    · split
      · rfl
      · simp only [keys_cons]; rw [ih]

theorem insertAdd_sorted (k : ℕ) (v : ℚ) (t : Table) (h : Sorted t) : Sorted (insertAdd k v t) := by
  unfold Sorted; rw [insertAdd_keys]; exact insertKey_sorted k _ h

/-! ### values -/

theorem val_of_not_mem {k : ℕ} {t : Table} (h : k ∉ keys t) : val k t = 0 := by
  induction t with
  | nil => rfl
  | cons a t ih =>
    obtain ⟨k', v'⟩ := a
    simp only [keys_cons, List.mem_cons, not_or] at h
    simp only [val, if_neg h.1]; exact ih h.2

theorem val_of_lt_all {k : ℕ} {t : Table} (h : ∀ x ∈ keys t, k < x) : val k t = 0 :=
  val_of_not_mem (fun hk => absurd (h k hk) (lt_irrefl k))

theorem val_insertAdd (k k0 : ℕ) (v : ℚ) (t : Table) (h : Sorted t) :
    val k0 (insertAdd k v t) = val k0 t + (if k0 = k then v else 0) := by
  induction t with
  | nil => simp [insertAdd, val]
  | cons a t ih =>
    obtain ⟨k', v'⟩ := a
    have hs := List.pairwise_cons.mp h
    unfold insertAdd
    split
    · rename_i hlt
      by_cases hk : k0 = k
      · subst hk
        have h0 : val k0 t = 0 := val_of_lt_all (fun x hx => lt_trans hlt (hs.1 x hx))
        have hne : ¬ k0 = k' := by omega
        simp [val, hne, h0]
      · simp [val, hk]
    · split
      · rename_i _ heq
        subst heq
        by_cases hk : k0 = k
        · subst hk; simp [val]
        · simp [val, hk]
      · rename_i hnlt hne
        by_cases hk' : k0 = k'
        · subst hk'
          have : ¬ k0 = k := fun e => hne e.symm
          simp [val, this]
        · simp only [val, if_neg hk']; exact ih hs.2

/-! ### groupSum -/

theorem groupSum_aux (k0 : ℕ) (rows : List (Option ℕ × ℚ)) (acc : Table) (h : Sorted acc) :
    val k0 (rows.foldl gstep acc) = val k0 acc + sumAt k0 rows
    ∧ Sorted (rows.foldl gstep acc) := by
  induction rows generalizing acc with
  | nil => simp [sumAt, h]
  | cons r rs ih =>
    obtain ⟨ko, v⟩ := r
    simp only [List.foldl_cons, gstep]
    cases ko with
    | none =>
      have := ih acc h
      refine ⟨?_, this.2⟩
      rw [this.1]; simp [sumAt]
    | some k =>
      have := ih (insertAdd k v acc) (insertAdd_sorted k v acc h)
      refine ⟨?_, this.2⟩
      rw [this.1, val_insertAdd _ _ _ _ h]
      simp only [sumAt, Option.some.injEq]
      by_cases hk : k0 = k
      · subst hk; simp; ring
      · have : ¬ k = k0 := fun e => hk e.symm
        simp [hk, this]

/-- **the value of a group is the sum of its rows** -/
theorem val_groupSum (k : ℕ) (rows : List (Option ℕ × ℚ)) : val k (groupSum rows) = sumAt k rows := by
  have := (groupSum_aux k rows [] (by simp [Sorted, keys])).1
  simpa [groupSum, val] using this

/-- **grouped frames are key-sorted without duplicates** -/
theorem groupSum_sorted (rows : List (Option ℕ × ℚ)) : Sorted (groupSum rows) :=
  (groupSum_aux 0 rows [] (by simp [Sorted, keys])).2

theorem mem_keys_foldl (k0 : ℕ) (rows : List (Option ℕ × ℚ)) (acc : Table) :
    k0 ∈ keys (rows.foldl gstep acc) ↔ k0 ∈ keys acc ∨ ∃ r ∈ rows, r.1 = some k0 := by
  induction rows generalizing acc with
  | nil => simp
  | cons r rs ih =>
    obtain ⟨ko, v⟩ := r
    simp only [List.foldl_cons, gstep]
    cases ko with
    | none => rw [ih]; simp
    | some k =>
      rw [ih, insertAdd_keys, mem_insertKey]
      simp only [List.mem_cons, exists_eq_or_imp, Option.some.injEq]
      constructor
      · rintro ((rfl | h) | h)
        · right; left; rfl
        · left; exact h
        · right; right; exact h
      · rintro (h | h | h)
        · left; right; exact h
        · left; left; exact h.symm
        · right; exact h

/-- **a group exists iff some row carries its key** -/
theorem mem_keys_groupSum (k : ℕ) (rows : List (Option ℕ × ℚ)) :
    k ∈ keys (groupSum rows) ↔ ∃ r ∈ rows, r.1 = some k := by
  unfold groupSum
  rw [mem_keys_foldl]; simp [keys]

/-! ### outer merge -/

theorem mem_foldl_insertKey (x : ℕ) (l acc : List ℕ) :
    x ∈ l.foldl (fun acc k => insertKey k acc) acc ↔ x ∈ acc ∨ x ∈ l := by
  induction l generalizing acc with
  | nil => simp
  | cons a t ih =>
    simp only [List.foldl_cons]
    rw [ih, mem_insertKey]; simp only [List.mem_cons]; tauto

theorem foldl_insertKey_sorted (l acc : List ℕ) (h : acc.Pairwise (· < ·)) :
    (l.foldl (fun acc k => insertKey k acc) acc).Pairwise (· < ·) := by
  induction l generalizing acc with
  | nil => simpa
  | cons a t ih => simp only [List.foldl_cons]; exact ih _ (insertKey_sorted a acc h)

theorem mem_keysUnion (x : ℕ) (a b : List ℕ) : x ∈ keysUnion a b ↔ x ∈ a ∨ x ∈ b := by
  unfold keysUnion
  rw [mem_foldl_insertKey, mem_foldl_insertKey]; simp

theorem keysUnion_sorted (a b : List ℕ) : (keysUnion a b).Pairwise (· < ·) := by
  unfold keysUnion
  exact foldl_insertKey_sorted _ _ (foldl_insertKey_sorted _ _ List.Pairwise.nil)

theorem keys_map_mk (l : List ℕ) (f : ℕ → ℚ) : keys (l.map (fun k => (k, f k))) = l := by
  induction l with
  | nil => rfl
  | cons a t ih => simp only [List.map_cons, keys_cons, ih]

theorem val_map_mk (k : ℕ) (l : List ℕ) (f : ℕ → ℚ) :
    val k (l.map (fun k => (k, f k))) = if k ∈ l then f k else 0 := by
  induction l with
  | nil => simp [val]
  | cons a t ih =>
    simp only [List.map_cons, val, List.mem_cons]
    by_cases h : k = a
    · subst h; simp
    · simp [h, ih]

theorem keys_addTables (a b : Table) : keys (addTables a b) = keysUnion (keys a) (keys b) := by
  unfold addTables; exact keys_map_mk _ _

theorem addTables_sorted (a b : Table) : Sorted (addTables a b) := by
  unfold Sorted; rw [keys_addTables]; exact keysUnion_sorted _ _

/-- **outer merge, fill with 0, add: the value at every key is the sum of the two values** -/
theorem val_addTables (k : ℕ) (a b : Table) : val k (addTables a b) = val k a + val k b := by
  unfold addTables
  rw [val_map_mk]
  split
  · rfl
  · rename_i h
    rw [mem_keysUnion] at h
    rw [not_or] at h
    rw [val_of_not_mem h.1, val_of_not_mem h.2]; ring

theorem mem_keys_addTables (k : ℕ) (a b : Table) : k ∈ keys (addTables a b) ↔ k ∈ keys a ∨ k ∈ keys b := by
  rw [keys_addTables, mem_keysUnion]

/-- two strictly sorted key lists with the same members are the same list: this is what makes positional
    assignment of an interval column to a prediction frame sound -/
theorem sorted_ext {l₁ l₂ : List ℕ} (h₁ : l₁.Pairwise (· < ·)) (h₂ : l₂.Pairwise (· < ·))
    (h : ∀ x, x ∈ l₁ ↔ x ∈ l₂) : l₁ = l₂ := by
  apply List.Perm.eq_of_pairwise (le := fun a b => a < b)
  · intro a b _ _ hab hba; exact absurd (lt_trans hab hba) (lt_irrefl a)
  · exact h₁
  · exact h₂
  · exact (List.perm_ext_iff_of_nodup (h₁.imp (fun h => ne_of_lt h)) (h₂.imp (fun h => ne_of_lt h))).mpr h

/-! ### sums -/

theorem sumAt_append (k : ℕ) (a b : List (Option ℕ × ℚ)) : sumAt k (a ++ b) = sumAt k a + sumAt k b := by
  induction a with
  | nil => simp [sumAt]
  | cons r t ih => obtain ⟨ko, v⟩ := r; simp only [List.cons_append, sumAt, ih]; ring

theorem sumAt_eq_zero_of_no_key (k : ℕ) (rows : List (Option ℕ × ℚ)) (h : ∀ r ∈ rows, r.1 ≠ some k) :
    sumAt k rows = 0 := by
  induction rows with
  | nil => rfl
  | cons r t ih =>
    obtain ⟨ko, v⟩ := r
    have h0 := h (ko, v) (List.mem_cons_self ..)
    simp only [sumAt, if_neg h0, zero_add]
    exact ih (fun r hr => h r (List.mem_cons_of_mem _ hr))

theorem sumAt_nonneg (k : ℕ) (rows : List (Option ℕ × ℚ)) (h : ∀ r ∈ rows, 0 ≤ r.2) : 0 ≤ sumAt k rows := by
  induction rows with
  | nil => simp [sumAt]
  | cons r t ih =>
    obtain ⟨ko, v⟩ := r
    have h0 : 0 ≤ v := h (ko, v) (List.mem_cons_self ..)
    have := ih (fun r hr => h r (List.mem_cons_of_mem _ hr))
    simp only [sumAt]; split <;> linarith

/-- pointwise `≤` between two columns of the same rows lifts to the group sums -/
theorem sumAt_le_sumAt (k : ℕ) (rows : List (Option ℕ × ℚ × ℚ)) (h : ∀ r ∈ rows, r.2.1 ≤ r.2.2) :
    sumAt k (rows.map (fun r => (r.1, r.2.1))) ≤ sumAt k (rows.map (fun r => (r.1, r.2.2))) := by
  induction rows with
  | nil => simp [sumAt]
  | cons r t ih =>
    obtain ⟨ko, a, b⟩ := r
    have h0 : a ≤ b := h (ko, a, b) (List.mem_cons_self ..)
    have := ih (fun r hr => h r (List.mem_cons_of_mem _ hr))
    simp only [List.map_cons, sumAt]; split <;> linarith

end ElexModel.Table
