import ElexModel.Driver.Util
import ElexModel.Core.Persist
import ElexModel.Gen.C18

open Lean ElexModel.Driver

namespace ElexModel.Driver.Persist
open ElexModel ElexModel.Persist

def effToJson : Eff → Json
  | .put _ k => Json.mkObj [("put", Json.str ("/".intercalate k))]
  | .file p => Json.mkObj [("file", Json.str ("/".intercalate p))]

def pairOfJson (j : Json) : Except String (String × String) := do
  match ← arrOfJson j with
  | [a, b] => pure (← strOfJson a, ← strOfJson b)
  | _ => throw "pair"

def outcomeToJson : Outcome → Json
  | .completed => Json.str "completed"
  | .notEnough => Json.str "ModelNotEnoughSubunitsException"
  | .storageError => Json.str "Exception"

def cfgOfJson (j : Json) : Except String Cfg := do
    let so ← listOf strOfJson (← field j "save_output")
    pure {
      saveResults := Gen.C18.flag_results so, saveData := Gen.C18.flag_data so, saveConfig := Gen.C18.flag_config so,
      saveConf := Gen.C18.flag_conformalization so,
      isLocal := ← boolOfJson (← field j "is_local"), gaussian := ← boolOfJson (← field j "gaussian"),
      gatePass := ← boolOfJson (← field j "gate_pass"),
      root := ← strOfJson (← field j "root"), eid := ← strOfJson (← field j "eid"), office := ← strOfJson (← field j "office"),
      utype := ← strOfJson (← field j "utype"), estimands := ← listOf strOfJson (← field j "estimands"),
      alphas := ← listOf strOfJson (← field j "alphas"), levels := ← listOf pairOfJson (← field j "levels"),
      unitTable := ← boolOfJson (← field j "unit_table") }

def run (op : String) (j : Json) : Except String Json := do
  match op with
  | "persist.fault" =>
    -- the call against a storage that does not acknowledge its `nack`-th put
    let c ← cfgOfJson j
    let k ← natOfJson (← field j "nack")
    let r := runWithFault c (some k)
    pure (Json.mkObj [("attempted", listToJson effToJson r.attempted), ("stored", listToJson effToJson (puts r.stored)),
      ("outcome", outcomeToJson r.outcome)])
  | "persist.effects" =>
    let so ← listOf strOfJson (← field j "save_output")
    let c : Cfg := {
      saveResults := Gen.C18.flag_results so, saveData := Gen.C18.flag_data so, saveConfig := Gen.C18.flag_config so,
      saveConf := Gen.C18.flag_conformalization so,
      isLocal := ← boolOfJson (← field j "is_local"), gaussian := ← boolOfJson (← field j "gaussian"),
      gatePass := ← boolOfJson (← field j "gate_pass"),
      root := ← strOfJson (← field j "root"), eid := ← strOfJson (← field j "eid"), office := ← strOfJson (← field j "office"),
      utype := ← strOfJson (← field j "utype"), estimands := ← listOf strOfJson (← field j "estimands"),
      alphas := ← listOf strOfJson (← field j "alphas"), levels := ← listOf pairOfJson (← field j "levels"),
      unitTable := ← boolOfJson (← field j "unit_table") }
    pure (Json.mkObj [("effects", listToJson effToJson (effects c)),
      ("default", listToJson Json.str Gen.C18.save_output_default)])
  | _ => throw s!"unknown op {op}"

end ElexModel.Driver.Persist
