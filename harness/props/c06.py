"""C06 - bootstrap intervals are ordered, nested by level, and margins stay in [-1, 1].

(i) rank grid: BootstrapElectionModel._get_quantiles vs the Lean model and the definition regenerated from source;
(ii) stage level: get_unit_prediction_intervals / get_aggregate_predictions / get_aggregate_prediction_intervals on
     hand-built frames with assigned draw matrices vs ElexModel.BootAgg; property predicates on every real output;
(iii) API level: full bootstrap runs through ModelClient (harness/election.py), predicates on the returned tables.
"""
from fractions import Fraction

import random

import numpy as np

from harness import bootstage as S
from harness import common as C
from harness import extract as X

PROP = "C06"
MODULES = ["ElexModel.Props.C06"]
DRIVER_TARGETS = ["ElexModel.Driver.Boot"]
TRUSTED = [
    "compute_bootstrap_errors (OLS fits, numpy generators) is an oracle: its outputs (errors_B_1..4, weighted_*_test_pred) are "
    "assigned directly at stage level and only range-checked at API level",
    "binary64 vs exact rationals: 1e-9 tolerance; floor/ceil/round decisions skipped when the exact argument is within 1e-9 of "
    "the boundary (counted in boundary_cases_skipped)",
    "excluded float corner: alpha < 2^-53 makes 1-alpha round to 1 (lower_alpha = upper_alpha = 1/2)",
]
ASSUMPTIONS = [
    "B >= 2 and 0 < alpha < 1 (client parameters)",
    "margins bounded: counted votes are non-negative and the configured naive bounds satisfy -1 <= y_lower <= y_upper <= 1, "
    "0 <= z_lower <= z_upper (the defaults do); given that, every unit's predicted margin is bounded by its predicted two-party turnout "
    "by theorem (source_clip_draws / source_clip_point / source_group_margin_bounded on the clip stage translated from source)",
    "the raw draws entering the clip stage are finite (sampling and regressions inside compute_bootstrap_errors are an oracle)",
    "nesting is claimed for uncalled, unstopped groups only (documented limitation with a kernel-checked example)",
]
RULE = (
    "rank grid over B and alpha (dyadic: exact equality; decimal: boundary rule) + stage-level cases "
    "(1-5 contests, units in every role incl. contests present only through unexpected units, B in {2,3,5,8,17}, dyadic draws); "
    "non-trivial = at least one group with nonreporting units; distinct = sha1 of the case"
)
TOL = Fraction(1, 10**9)


def extract(run):
    return X.generate("C06")


def rank_grid(run, driver, Bs, alphas):
    bm = S.boot_module()
    model = bm.BootstrapElectionModel({"features": ["baseline_normalized_margin"]})
    ops, meta = [], []
    for B in Bs:
        model.B = B
        for a in alphas:
            lq, uq = model._get_quantiles(a)
            lq, uq = float(lq), float(uq)
            case = {"grid": "ranks", "B": B, "alpha": a}
            run.evaluations += 1
            # monitor: valid ranks (the property itself, on the implementation's floats)
            if not (0 <= lq <= uq <= 1) and not (C.frac(a) < Fraction(1, 2**53)):
                run.violation("quantile ranks are not valid ranks", input=case, impl=[lq, uq],
                              predicate="quantile_levels_valid", signature="C06:ranks")
            if S.rank_boundary(a, B):
                run.boundary_skipped += 1
                continue
            ops.append({"op": "boot.ranks", "alpha": C.rat(a), "B": B})
            meta.append((case, lq, uq))
    if driver is None or not ops:
        return
    outs = driver.run(ops)
    for (case, lq, uq), o in zip(meta, outs):
        m = [C.unrat(x) for x in o["model"]]
        g = [C.unrat(x) for x in o["gen"]]
        if not (C.close(lq, m[0]) and C.close(uq, m[1])):
            run.diff("_get_quantiles: implementation vs model", input=case, impl=[lq, uq], model=[str(x) for x in m])
        if m != g:
            run.diff("_get_quantiles: definition regenerated from source vs hand model", input=case,
                     model=[str(x) for x in m], gen=[str(x) for x in g])
    run.count("rank grid points", len(ops))


def unit_stage(run, driver, n):
    """get_unit_prediction_intervals on assigned draws"""
    bm = S.boot_module()
    rng = run.rng
    ops, meta = [], []
    for _ in range(n):
        B = rng.choice([2, 3, 5, 8, 17, 40])
        nu = rng.randint(1, 4)
        alphas = sorted(rng.sample(S.DYADIC_ALPHAS + S.DECIMAL_ALPHAS, 3))
        model = bm.BootstrapElectionModel({"features": ["baseline_normalized_margin"]})
        model.B = B
        pred = [S.dy(rng, -200, 200, 8) for _ in range(nu)]
        e1 = [[S.dy(rng, -50, 50, 8) for _ in range(B)] for _ in range(nu)]
        e2 = [[S.dy(rng, -50, 50, 8) for _ in range(B)] for _ in range(nu)]
        model.errors_B_1 = np.array([[float(x) for x in r] for r in e1])
        model.errors_B_2 = np.array([[float(x) for x in r] for r in e2])
        model.weighted_yz_test_pred = np.array([float(p) for p in pred]).reshape(-1, 1)
        case = {"stage": "unit", "B": B, "alphas": alphas, "pred": [str(p) for p in pred],
                "e1": [[str(x) for x in r] for r in e1], "e2": [[str(x) for x in r] for r in e2]}
        res = {}
        for a in alphas:
            try:
                pi = model.get_unit_prediction_intervals(None, None, a, "margin")
                res[a] = (np.asarray(pi.lower).flatten(), np.asarray(pi.upper).flatten())
            except Exception as e:
                run.violation("get_unit_prediction_intervals raised", input=case, impl=type(e).__name__,
                              predicate="unit_ordered", signature="C06:unit-raise")
                res = None
                break
        run.case(case, True)
        run.count("unit-stage cases")
        if res is None:
            continue
        # monitors
        for a in alphas:
            lo, hi = res[a]
            if not np.all(lo <= hi):
                run.violation("unit lower > upper", input=case, impl=[lo.tolist(), hi.tolist()], alpha=a,
                              predicate="unit_ordered", signature="C06:unit-ordered")
            if not (np.all(np.isfinite(lo)) and np.all(np.isfinite(hi))):
                run.violation("unit bound not finite", input=case, impl=[lo.tolist(), hi.tolist()], alpha=a,
                              predicate="unit_ordered", signature="C06:unit-finite")
        for a, b in zip(alphas, alphas[1:]):
            if not (np.all(res[b][0] <= res[a][0]) and np.all(res[a][1] <= res[b][1])):
                run.violation("unit intervals not nested by level", input=case,
                              impl={str(a): [x.tolist() for x in res[a]], str(b): [x.tolist() for x in res[b]]},
                              predicate="unit_nested", signature="C06:unit-nested")
        for i in range(nu):
            draws = [C.rat(C.frac(float(x)) - C.frac(float(y))) for x, y in zip(e1[i], e2[i])]
            for a in alphas:
                if S.rank_boundary(a, B):
                    run.boundary_skipped += 1
                    continue
                ops.append({"op": "boot.unit", "pred": C.rat(pred[i]), "draws": draws, "alpha": C.rat(a), "B": B})
                meta.append((case, i, a, float(res[a][0][i]), float(res[a][1][i])))
    if driver is None or not ops:
        return
    outs = driver.run(ops)
    for (case, i, a, lo, hi), o in zip(meta, outs):
        raw = [C.unrat(x) for x in o["raw"]]
        # rounding decision: skip if the exact pre-rounding value is within 1e-9 of a half-integer (float noise)
        near_half = any(0 < abs((r * 2) - round(r * 2)) < TOL * 2 and round(r * 2) % 2 == 1 for r in raw)
        if near_half:
            run.boundary_skipped += 1
            continue
        if [int(lo), int(hi)] != [int(x) for x in o["interval"]] or lo != int(lo) or hi != int(hi):
            # tolerate the float error of the interpolation when it lands within 1e-9 of a tie
            tie = any(abs((r * 2) - round(r * 2)) < TOL * 2 and round(r * 2) % 2 == 1 for r in raw)
            if tie and abs(lo - int(o["interval"][0])) <= 1 and abs(hi - int(o["interval"][1])) <= 1:
                run.boundary_skipped += 1
                continue
            run.diff("get_unit_prediction_intervals vs model unitInterval", input=case, unit=i, alpha=a,
                     impl=[lo, hi], model=o["interval"])
        run.traces += 1


def check_stage(run, case, impl, mout, keys, prop="C06"):
    """monitors on the implementation's aggregate output + diff against the model"""
    top = case["kind"] in ("state", "district")
    want_err = top and case["bad"] is not None
    run = _Filtered(run, prop)
    if "raises" in impl:
        if impl["raises"] == "BootstrapElectionModelException" and want_err:
            run.count("rejected calls: " + case["bad"])
            return
        if impl["raises"] == "BootstrapElectionModelException":
            run.violation("valid call lists were rejected", input=case, impl=impl, predicate="format_error_iff",
                          signature="C07:format-spurious")
        else:
            run.violation("aggregate computation raised " + impl["raises"], input=case, impl=impl,
                          predicate="agg_straddle", signature="C06:agg-raise")
        return
    if want_err:
        run.violation("contradictory / unknown race calls were not rejected", input=case, impl="no exception",
                      predicate="format_error_iff", signature="C07:format-missed")
        return
    rows = impl["rows"]
    alphas = case["alphas"]
    order = sorted(range(len(alphas)), key=lambda i: alphas[i])
    for key, r in rows.items():
        called = "lhs" if key in case["lhs"] else "rhs" if key in case["rhs"] else "none"
        stopped = key in case["stop"]
        free = (not top) or (called == "none" and not stopped)
        if any(iv is None for iv in r["intervals"]):
            run.violation("interval frame shorter than prediction frame", input=case, impl=r, group=key,
                          predicate="interval_rows_aligned", signature="C02:boot-align")
            continue
        vals = [r["pred"], r["turnout"]] + [x for iv in r["intervals"] for x in iv]
        if not all(np.isfinite(v) for v in vals):
            run.violation("non-finite aggregate output", input=case, impl=r, group=key, predicate="margin_bounded",
                          signature="C06:agg-finite")
            continue
        if free:
            for iv, a in zip(r["intervals"], alphas):
                if not (iv[0] < r["pred"] < iv[1]):
                    run.violation("uncalled, unstopped group: not lower < prediction < upper", input=case, group=key,
                                  alpha=a, impl=r, predicate="agg_straddle", signature="C06:agg-straddle")
            for i, j in zip(order, order[1:]):
                a_iv, b_iv = r["intervals"][i], r["intervals"][j]
                if b_iv[0] > a_iv[0] + 1e-9 or a_iv[1] > b_iv[1] + 1e-9:
                    run.violation("aggregate intervals not nested by level", input=case, group=key, impl=r,
                                  predicate="agg_nested", signature="C06:agg-nested")
        if top and called == "none" and not (-1 - 1e-9 <= r["pred"] <= 1 + 1e-9):
            run.violation("predicted normalised margin outside [-1, 1]", input=case, group=key, impl=r,
                          predicate="margin_bounded", signature="C06:margin")
        if not top and not (-1 - 1e-9 <= r["pred"] <= 1 + 1e-9):
            run.violation("predicted normalised margin outside [-1, 1]", input=case, group=key, impl=r,
                          predicate="margin_bounded", signature="C06:margin")
        if r["turnout"] < 0:
            run.violation("negative predicted turnout", input=case, group=key, impl=r, predicate="margin_bounded",
                          signature="C06:turnout")
        # C07 clauses
        if top:
            if called == "lhs" and r["pred"] < 0.005 - 1e-12:
                run.violation("called left but prediction < +0.005", input=case, group=key, impl=r,
                              predicate="called_lhs_pred", signature="C07:lhs-pred")
            if called == "rhs" and r["pred"] > -0.005 + 1e-12:
                run.violation("called right but prediction > -0.005", input=case, group=key, impl=r,
                              predicate="called_rhs_pred", signature="C07:rhs-pred")
            for iv in r["intervals"]:
                if called == "lhs" and not stopped and iv[0] < 0:
                    run.violation("called left, not stopped, lower bound negative", input=case, group=key, impl=r,
                                  predicate="called_lhs_lower", signature="C07:lhs-lower")
                if called == "rhs" and not stopped and iv[1] > 0:
                    run.violation("called right, not stopped, upper bound positive", input=case, group=key, impl=r,
                                  predicate="called_rhs_upper", signature="C07:rhs-upper")
                if called == "none" and stopped and not (iv[0] <= 0 <= iv[1]):
                    run.violation("stop-listed uncalled contest: interval does not contain zero", input=case,
                                  group=key, impl=r, predicate="stopped_uncalled_contains_zero", signature="C07:stop")
    if mout is None:
        return
    # diff against the model
    if sorted(rows) != keys:
        run.diff("aggregate table keys differ from the model's group set", input=case, impl=sorted(rows), model=keys)
        return
    if impl["order"] != keys:
        run.diff("aggregate table row order differs from the model's (sorted) order", input=case, impl=impl["order"], model=keys)
    for k, m in zip(keys, mout):
        r = rows[k]
        called_k = k in case["lhs"] or k in case["rhs"] or k in case["stop"]
        if prop == "C06" and top and called_k:
            continue  # race-call arithmetic is C07's correspondence
        mp, mt = C.unrat(m["pred"]), C.unrat(m["turnout"])
        if not (C.close(r["pred"], mp) and C.close(r["turnout"], mt)):
            run.diff("aggregate prediction / turnout vs model", input=case, group=k, impl=r,
                     model={"pred": str(mp), "turnout": str(mt)})
            continue
        for idx, (iv, miv, a) in enumerate(zip(r["intervals"], m["intervals"], alphas)):
            if S.rank_boundary(a, case["B"]):
                run.boundary_skipped += 1
                continue
            ml, mu = C.unrat(miv[0]), C.unrat(miv[1])
            if C.close(iv[0], ml) and C.close(iv[1], mu):
                continue
            # an override decision (lower < 0 etc.) taken on a float within 1e-9 of the boundary is skipped
            if near_override_boundary(m, idx, case):
                run.boundary_skipped += 1
                continue
            run.diff("aggregate interval vs model", input=case, group=k, alpha=a, impl=iv, model=[str(ml), str(mu)])
    run.traces += 1


class _Filtered:
    """a check only reports violations of its own property (signature prefix); diffs pass through"""

    def __init__(self, run, prop):
        self._run, self._prop = run, prop

    def violation(self, what, **kw):
        if kw.get("signature", "").startswith(self._prop + ":"):
            self._run.violation(what, **kw)

    def __getattr__(self, name):
        return getattr(self._run, name)

    def __setattr__(self, name, value):
        if name in ("_run", "_prop"):
            object.__setattr__(self, name, value)
        else:
            setattr(self._run, name, value)


def near_override_boundary(m, idx, case):
    c = C.unrat(m["centre"])
    return abs(c) < Fraction(2, 1000) + TOL and abs(abs(c) - Fraction(1, 1000)) < TOL


def agg_stage(run, driver, n, kinds=("state", "county", "district"), prop="C06"):
    rng = run.rng
    cases = [S.gen_stage(rng, rng.choice(kinds)) for _ in range(n)]
    ops, keys = [], []
    for c in cases:
        op, ks = S.model_op(c)
        ops.append(op)
        keys.append(ks)
    outs = None
    if driver is not None:
        try:
            outs = driver.run(ops)
        except C.DriverError as e:
            run.broken.append(f"model driver failed: {e}")
    for i, c in enumerate(cases):
        impl = S.impl_stage(c)
        mout = outs[i] if outs else None
        if isinstance(mout, dict) and "error" in mout:
            run.broken.append("model rejected a stage case: " + mout["error"])
            mout = None
        run.case(_light(c), bool(c["units"]["nonrep"]), {"impl": impl})
        run.count("stage " + c["kind"])
        if c["bad"]:
            run.count("malformed call lists")
        check_stage(run, _light(c), impl, mout, keys[i], prop)


def _light(c):
    """JSON-able copy of a stage case"""
    def conv(u):
        return {k: ([str(x) for x in v] if isinstance(v, list) else (str(v) if isinstance(v, Fraction) else v))
                for k, v in u.items()}
    d = dict(c)
    d["units"] = {k: [conv(u) for u in v] for k, v in c["units"].items()}
    return d


def bounds_stage(run, driver, n):
    """`_generate_nonreporting_bounds` on frames of outstanding units (expected vote 0 ... 130 percent, partial margins in [-1, 1],
    turnout factors >= 0, the provider-error setting) against the definitions regenerated from its source (`Gen.C06.*_bound`), and the
    statement of `source_y_bounds` / `source_z_bounds` on the implementation's output"""
    import pandas as pd

    C.use_repo()
    from elexmodel.models.BootstrapElectionModel import BootstrapElectionModel

    rng = run.rng
    for _ in range(n):
        eb = rng.choice([0.5, 0.5, 0.1, 0.6, 0.75, 0.0])
        model = BootstrapElectionModel({"features": ["baseline_normalized_margin"], "percent_expected_vote_error_bound": eb})
        k = rng.randint(1, 12)
        pev = [rng.choice([0, 1, 25, 49.5, 50, 50.5, 60, 75, 90, 99, 99.5, 100, 100.5, 104, 110, 130]) for _ in range(k)]
        y = [rng.choice([-1, 1, 0, rng.randint(-64, 64) / 64]) for _ in range(k)]
        z = [rng.choice([0, 0.125, 0.5, 1, 1.5, rng.randint(0, 256) / 64]) for _ in range(k)]
        df = pd.DataFrame({"percent_expected_vote": pev, "results_normalized_margin": y, "turnout_factor": z})
        if rng.random() < 0.3:
            df.index = [7 + 3 * j for j in range(k)][::-1]     # the frames need not carry a default index
        case = {"bounds_stage": True, "percent_expected_vote": pev, "normalized_margin": y, "turnout_factor": z, "error_bound": eb}
        run.case(case, True)
        run.count("clip bounds")
        try:
            with np.errstate(all="ignore"):
                yl, yu = model._generate_nonreporting_bounds(df, "results_normalized_margin")
                zl, zu = model._generate_nonreporting_bounds(df, "turnout_factor")
        except Exception as ex:
            run.violation("_generate_nonreporting_bounds raised " + type(ex).__name__, input=case, impl=str(ex)[:200],
                          predicate="source_y_bounds", signature="C06:bounds-raise")
            continue
        lbz, ubz = float(model.z_unobserved_lower_bound), float(model.z_unobserved_upper_bound)
        bad = None
        for j in range(k):
            a, b, c_, d = float(yl[j, 0]), float(yu[j, 0]), float(zl[j, 0]), float(zu[j, 0])
            if not (-1 - 1e-12 <= a <= y[j] + 1e-12 and y[j] - 1e-12 <= b <= 1 + 1e-12):
                bad = ("margin clip bounds do not bracket the partial margin inside [-1, 1]", j, [a, b])
            elif not (c_ >= -1e-12 and c_ <= d + 1e-12):
                bad = ("turnout-factor clip bounds are negative or out of order", j, [c_, d])
            if bad:
                break
        if bad:
            run.violation(bad[0], input=case, impl={"row": bad[1], "bounds": bad[2]}, predicate="source_y_bounds / source_z_bounds",
                          signature="C06:bounds")
            continue
        if driver is None:
            continue
        ops = []
        for j in range(k):
            ops.append({"op": "boot.bounds", "estimand": "y", "pev": C.rat(pev[j]), "obs": C.rat(y[j]), "lb": C.rat(model.y_unobserved_lower_bound),
                        "ub": C.rat(model.y_unobserved_upper_bound)})
            ops.append({"op": "boot.bounds", "estimand": "z", "pev": C.rat(pev[j]), "obs": C.rat(z[j]), "lb": C.rat(lbz), "ub": C.rat(ubz),
                        "eb": C.rat(eb)})
        outs = driver.run(ops)
        for j in range(k):
            my, mz = [C.unrat(x) for x in outs[2 * j]], [C.unrat(x) for x in outs[2 * j + 1]]
            got = [float(yl[j, 0]), float(yu[j, 0]), float(zl[j, 0]), float(zu[j, 0])]
            want = [float(v) for v in my + mz]
            if any(abs(g - w) > 1e-9 * max(1.0, abs(w)) for g, w in zip(got, want)):
                run.diff("clip bounds of a nonreporting unit: implementation vs the definitions regenerated from its source", input=case,
                         row=j, impl=got, model=want)
                break
        else:
            run.traces += 1


def epsilon_stage(run, driver, n):
    """`_estimate_epsilon` / `_estimate_delta` on random assignments of units to contests (empty contests, single-unit contests, one
    contest only) with dyadic residuals, against the model `BootErr.epsilon / delta` (per-contest mean; none below two units)"""
    C.use_repo()
    from elexmodel.models.BootstrapElectionModel import BootstrapElectionModel

    rng = random.Random(f"c06-epsilon-{run.seed}-{n}")      # own generator: the older streams keep their cases
    model = BootstrapElectionModel({"features": ["baseline_normalized_margin"]})
    pending = []
    for _ in range(n):
        k = rng.randint(1, 6)
        nu = rng.randint(1, 14)
        cs = [rng.randrange(k) for _ in range(nu)]
        if rng.random() < 0.3:
            cs = [min(c, max(0, k - 2)) for c in cs]      # the last contest has no unit
        rs = [rng.randint(-256, 256) / 64 for _ in range(nu)]
        ind = np.zeros((nu, k))
        for i, c in enumerate(cs):
            ind[i, c] = 1
        case = {"epsilon_stage": True, "contests": cs, "residuals": rs, "k": k}
        counts = [cs.count(c) for c in range(k)]
        run.case(case, any(c >= 2 for c in counts) and any(c == 1 for c in counts))
        run.count("contest effects")
        try:
            with np.errstate(all="ignore"):
                eps = model._estimate_epsilon(np.asarray(rs, dtype=float).reshape(-1, 1), ind)
                dl = model._estimate_delta(np.asarray(rs, dtype=float).reshape(-1, 1), eps, ind)
        except Exception as ex:
            run.diff("_estimate_epsilon / _estimate_delta raised " + type(ex).__name__, input=case, impl=str(ex)[:200], model="no error")
            continue
        got = [float(x) for x in np.asarray(eps, dtype=float).ravel()] + [float(x) for x in np.asarray(dl, dtype=float).ravel()]
        pending.append((case, got, {"op": "boot.epsilon", "contests": cs, "residuals": [C.rat(r) for r in rs], "k": k}))
    if driver is None or not pending:
        return
    outs = driver.run([p[2] for p in pending])
    for (case, got, _), m in zip(pending, outs):
        want = [float(C.unrat(x)) for x in m["epsilon"]] + [float(C.unrat(x)) for x in m["delta"]]
        if len(got) != len(want) or any(not (abs(g - w) <= 1e-9 * max(1.0, abs(w))) for g, w in zip(got, want)):
            run.diff("contest effects / unit-level rests: implementation vs model", input=case, impl=got, model=want)
        else:
            run.traces += 1


def interp_stage(run, driver, n):
    """`np.interp` the way the stratum distributions call it (ppf: left / right = smallest / largest fitted quantile; cdf: right = 1) on
    dyadic knots, queried at knots, between them and outside, against the model `BootErr.interp`"""
    if driver is None:
        return
    rng = random.Random(f"c06-interp-{run.seed}-{n}")
    pending = []
    for _ in range(n):
        k = rng.randint(1, 7)
        xp = sorted(rng.sample(range(-64, 65), k))
        xp = [v / 64 for v in xp]
        fp = [rng.randint(-128, 128) / 32 for _ in range(k)]
        if rng.random() < 0.5:
            left, right = min(fp), max(fp)       # ppf_creator
        else:
            left, right = fp[0], 1.0             # cdf_creator (left defaults to fp[0])
        xs = xp[:3] + [rng.randint(-96, 96) / 64 for _ in range(5)] + [xp[-1], xp[-1] + 0.5, xp[0] - 0.5]
        case = {"interp_stage": True, "xp": xp, "fp": fp, "left": left, "right": right, "xs": xs}
        run.case(case, k >= 3)
        run.count("np.interp")
        got = [float(v) for v in np.interp(np.asarray(xs), np.asarray(xp), np.asarray(fp), left, right)]
        pending.append((case, got, {"op": "boot.interp", "xs": [C.rat(v) for v in xs], "xp": [C.rat(v) for v in xp],
                                    "fp": [C.rat(v) for v in fp], "left": C.rat(left), "right": C.rat(right)}))
    outs = driver.run([p[2] for p in pending])
    for (case, got, _), m in zip(pending, outs):
        want = [float(C.unrat(v)) for v in m]
        fp, left, right = case["fp"], case["left"], case["right"]
        lo, hi = min(fp + [left, right]), max(fp + [left, right])
        if any(not (lo - 1e-12 <= g <= hi + 1e-12) for g in got):
            run.diff("np.interp leaves the range of its values (ppf_within_fitted_range)", input=case, impl=got, model=[lo, hi])
        elif any(abs(g - w) > 1e-9 * max(1.0, abs(w)) for g, w in zip(got, want)):
            run.diff("np.interp vs the model", input=case, impl=got, model=want)
        else:
            run.traces += 1


def explore(run, driver, budget):
    run.info["rule"] = RULE
    interp_stage(run, driver, {"quick": 60, "thorough": 2000, "search": 300}[budget])
    bounds_stage(run, driver, {"quick": 60, "thorough": 3000, "search": 400}[budget])
    epsilon_stage(run, driver, {"quick": 60, "thorough": 2000, "search": 300}[budget])
    if budget == "quick":
        rank_grid(run, driver, list(range(2, 400)) + [500, 999, 1000, 2000], [0.5, 0.75, 0.9375, 0.7, 0.9, 0.95, 0.99, 0.1])
        unit_stage(run, driver, 60)
        agg_stage(run, driver, 150)
    elif budget == "thorough":
        al = [0.5, 0.75, 0.875, 0.9375, 0.25, 0.125] + [round(0.01 * k, 2) for k in range(1, 100, 3)]
        rank_grid(run, driver, list(range(2, 3000)) + [5000, 10000, 20000], al)
        unit_stage(run, driver, 1500)
        agg_stage(run, driver, 4000)
    else:  # search
        rank_grid(run, driver, list(range(2, 1200)), [0.5, 0.75, 0.7, 0.9, 0.95, 0.99, 0.01, 0.3])
        unit_stage(run, driver, 400)
        agg_stage(run, driver, 1200)
    try:
        from harness import election

        run.driver = driver   # the clip-stage differential of apiboot.model_level_clip talks to the Lean driver
        election.api_boot_checks(run, budget, props=("C06",))
    except ImportError:
        pass


def replay(run, driver, payload):
    c = payload["input"]
    if c.get("grid") == "ranks":
        rank_grid(run, driver, [c["B"]], [c["alpha"]])
        return
    if c.get("bounds_stage") or c.get("api_boot") or c.get("clip_stage") or c.get("epsilon_stage") or c.get("interp_stage"):
        # the generators are driven by the seed and pass recorded in the replay file (set by main): the same pass is re-run
        explore(run, driver, run.budget)
        return
    if c.get("stage") == "unit":
        run.info["note"] = "unit-stage replays re-run the generator with the recorded seed"
        unit_stage(run, driver, 60)
        return
    case = _unlight(c)
    op, ks = S.model_op(case)
    mout = driver.run([op])[0] if driver else None
    impl = S.impl_stage(case)
    run.case(c, True, {"impl": impl})
    check_stage(run, c, impl, mout, ks)


def _unlight(c):
    def conv(u):
        out = {}
        for k, v in u.items():
            if isinstance(v, list):
                out[k] = [Fraction(x) for x in v]
            elif k in ("yz", "zt"):
                out[k] = Fraction(v)
            else:
                out[k] = v
        return out
    d = dict(c)
    d["units"] = {k: [conv(u) for u in v] for k, v in c["units"].items()}
    return d
