/-
Model of the loop nest of `ModelClient.get_estimates` together with the gaussian model's caches keyed by the interval
level only (`alpha_to_nonreporting_lower_bounds[alpha]`), property C13.

for estimand:  unit predictions;  for alpha: unit intervals  (WRITE cache[alpha] := bounds of this estimand)
               for level: aggregate predictions;  for alpha: aggregate intervals  (READ cache[alpha])
-/
namespace ElexModel.Loops

inductive Op where
  | write (alpha est : Nat)
  | read (alpha est lvl : Nat)
  deriving Repr, DecidableEq

/-- the operations of one call, in program order -/
def trace (ests levels alphas : List Nat) : List Op :=
  ests.flatMap fun e =>
    alphas.map (fun a => Op.write a e) ++ levels.flatMap (fun g => alphas.map (fun a => Op.read a e g))

/-- the cache: which estimand's bounds are stored under a level -/
abbrev Cache := Nat → Option Nat

def step (c : Cache) : Op → Cache × Option (Nat × Nat × Nat × Option Nat)
  | .write a e => (fun x => if x = a then some e else c x, none)
  | .read a e g => (c, some (a, e, g, c a))

/-- all reads with the owner of the value they see -/
def reads : List Op → Cache → List (Nat × Nat × Nat × Option Nat)
  | [], _ => []
  | op :: t, c =>
    match step c op with
    | (c', some r) => r :: reads t c'
    | (c', none) => reads t c'

def finalCache : List Op → Cache → Cache
  | [], c => c
  | op :: t, c => finalCache t (step c op).1

end ElexModel.Loops
