#!/bin/bash
# run every seeded change under /verif/seeded (or /tmp/seed/out) against the check of its property; one line per change
SRC=${1:-/verif/seeded}
FILTER=${2:-.}   # regular expression on the change id, e.g. '-[34]$'
for d in $(ls -d $SRC/*/ | sort); do
  id=$(basename $d)
  echo "$id" | grep -Eq -e "$FILTER" || continue
  prop=${id%%-*}
  patch=$d/patch.diff
  [ -f $patch ] || continue
  cd /repo && git apply $patch 2>/dev/null || { echo "$id apply-failed"; continue; }
  cd /verif && cp evidence/$prop.json /tmp/.ev_$prop.json 2>/dev/null
  out=$(./check $prop --tier quick 2>&1); code=$?
  git -C /repo checkout -- . ; git -C /repo clean -fdq src
  cp /tmp/.ev_$prop.json evidence/$prop.json 2>/dev/null; rm -f /tmp/.ev_$prop.json
  v=$(echo "$out" | grep -c "^VIOLATION")
  nf=$(echo "$out" | grep -c "no-failing-input-found")
  echo "$id exit=$code violation_lines=$v no_failing_input=$nf :: $(echo "$out" | tail -1 | cut -c1-160)"
done
cd /verif && /venv/bin/python -m harness.extract >/dev/null 2>&1
