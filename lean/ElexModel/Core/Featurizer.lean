import ElexModel.Core.Table
/-
Model of `Featurizer` (property C16), one fixed effect at a time: levels are ranks of the level names in the
order `pd.get_dummies` sorts them; a row is (is a fitting row, level or missing).

`prepare_data`: active levels = levels observed on fitting rows (reporting ∧ expected); the first active level is
dropped (absorbed by the intercept); `generate_holdout_data`: a row whose level is present in the frame but was not
observed in fitting gets `1/(k+1)` on each of the `k` active columns.
-/
namespace ElexModel.Feat
open ElexModel ElexModel.Table

/-- sorted list of the distinct values -/
def sortDedup (l : List Nat) : List Nat := l.foldl (fun acc k => insertKey k acc) []

/-- pooling of non-selected levels into the level `other` (`sel = none`: all levels get their own column).
    With a selection a *missing* level is pooled as well (`~df[fe].isin(params)` is true for NaN). -/
def pool (sel : Option (List Nat)) (other : Nat) (lvl : Option Nat) : Option Nat :=
  match sel, lvl with
  | none, l => l
  | some _, none => some other
  | some s, some v => if s.contains v then some v else some other

/-- levels present anywhere in the frame (the expanded dummy columns, in column order) -/
def present (rows : List (Bool × Option Nat)) : List Nat := sortDedup (rows.filterMap (·.2))

/-- levels observed on the fitting rows -/
def active (rows : List (Bool × Option Nat)) : List Nat := sortDedup ((rows.filter (·.1)).filterMap (·.2))

/-- the level absorbed by the intercept -/
def dropped (rows : List (Bool × Option Nat)) : Option Nat := (active rows).head?

/-- the dummy columns the model is fitted on -/
def activeCols (rows : List (Bool × Option Nat)) : List Nat := (active rows).tail

/-- the dummy columns kept in the prepared frame: all present levels except the dropped one -/
def expandedCols (rows : List (Bool × Option Nat)) : List Nat :=
  (present rows).filter (fun v => some v != dropped rows)

/-- value of dummy column `c` on a row of the prepared frame -/
def dummy (lvl : Option Nat) (c : Nat) : Rat := if lvl = some c then 1 else 0

/-- `generate_holdout_data` for one row: its values on the active columns -/
def holdout (rows : List (Bool × Option Nat)) (lvl : Option Nat) : List Rat :=
  let cols := activeCols rows
  let unseen : Bool := match lvl with
    | none => false
    | some v => (expandedCols rows).contains v && !cols.contains v
  cols.map fun c => if unseen then 1 / ((cols.length : Rat) + 1) else dummy lvl c

/-- `_sort_features`: stable sort by class (0 intercept, 1 baseline-margin terms, 2 the rest) -/
def sortFeatures (cols : List (Nat × Nat)) : List (Nat × Nat) :=
  cols.filter (·.1 == 0) ++ cols.filter (·.1 == 1) ++ cols.filter (fun c => c.1 != 0 && c.1 != 1)

/-- centring: subtract the mean over *all* rows -/
def centre (xs : List Rat) : List Rat :=
  let m := sumR xs / (xs.length : Rat)
  xs.map (· - m)

end ElexModel.Feat
