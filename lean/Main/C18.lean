import ElexModel.Driver.Persist
def main : IO Unit := ElexModel.Driver.mainWith ElexModel.Driver.Persist.run
