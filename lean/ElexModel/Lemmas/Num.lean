import ElexModel.Core.Num
import Mathlib.Algebra.Order.Floor.Ring
import Mathlib.Data.Rat.Floor
import Mathlib.Tactic.Linarith
import Mathlib.Tactic.Positivity

/-! Lemmas about rounding (`rhe`), `rmax`/`rmin`, `divz`, sums. -/

namespace ElexModel

theorem ratFloor_eq (x : ℚ) : x.floor = ⌊x⌋ := rfl
theorem ratCeil_eq (x : ℚ) : x.ceil = ⌈x⌉ := by
  rw [Rat.ceil_eq_neg_floor_neg, ratFloor_eq, Int.floor_neg, neg_neg]

@[simp] theorem rmax_eq (a b : ℚ) : rmax a b = max a b := by
  unfold rmax; split <;> rename_i h
  · exact (max_eq_right h).symm
  · exact (max_eq_left (le_of_lt (not_le.mp h))).symm

@[simp] theorem rmin_eq (a b : ℚ) : rmin a b = min a b := by
  unfold rmin; split <;> rename_i h
  · exact (min_eq_left h).symm
  · exact (min_eq_right (le_of_lt (not_le.mp h))).symm

/-- rounding moves a value by at most one half -/
theorem rhe_near (x : ℚ) : (rhe x : ℚ) - 1/2 ≤ x ∧ x ≤ (rhe x : ℚ) + 1/2 := by
  have h1 : (x.floor : ℚ) ≤ x := by rw [ratFloor_eq]; exact Int.floor_le x
  have h2 : x < (x.floor : ℚ) + 1 := by rw [ratFloor_eq]; exact Int.lt_floor_add_one x
  unfold rhe
  generalize x.floor = f at *
  simp only []
  by_cases h3 : x - (f : ℚ) < 1/2
  · rw [if_pos h3]; constructor <;> linarith
  · rw [if_neg h3]
    by_cases h4 : 1/2 < x - (f : ℚ)
    · rw [if_pos h4]; push_cast; constructor <;> linarith
    · rw [if_neg h4]
      have : x - (f : ℚ) = 1/2 := le_antisymm (not_lt.mp h4) (not_lt.mp h3)
      by_cases h5 : f % 2 = 0
      · rw [if_pos h5]; constructor <;> linarith
      · rw [if_neg h5]; push_cast; constructor <;> linarith

/-- an integer rounds to itself -/
@[simp] theorem rhe_int (n : ℤ) : rhe (n : ℚ) = n := by
  unfold rhe
  have : (n : ℚ).floor = n := by rw [ratFloor_eq]; exact Int.floor_intCast n
  simp only [this, sub_self]
  norm_num

/-- rounding is monotone -/
theorem rhe_mono {x y : ℚ} (h : x ≤ y) : rhe x ≤ rhe y := by
  by_contra hc
  have hc' : rhe y + 1 ≤ rhe x := by omega
  have hq : ((rhe y : ℤ) : ℚ) + 1 ≤ (rhe x : ℚ) := by exact_mod_cast hc'
  have hx := (rhe_near x).1
  have hy := (rhe_near y).2
  -- x ≥ rhe x - 1/2 ≥ rhe y + 1/2 ≥ y ≥ x  so all equal: x = y, contradiction with rhe x ≠ rhe y
  have hxy : x = y := le_antisymm h (by linarith)
  subst hxy
  omega

/-- `round(max(x, r)) = max(round(x), r)` for a whole number `r`: flooring at the counted votes commutes
    with rounding -/
theorem rhe_max_int (x : ℚ) (r : ℤ) : rhe (max x (r : ℚ)) = max (rhe x) r := by
  rcases le_total x (r : ℚ) with h | h
  · rw [max_eq_right h, rhe_int]
    have := rhe_mono h
    rw [rhe_int] at this
    exact (max_eq_right this).symm
  · rw [max_eq_left h]
    have := rhe_mono h
    rw [rhe_int] at this
    exact (max_eq_left this).symm

theorem rhe_ge_int {x : ℚ} {r : ℤ} (h : (r : ℚ) ≤ x) : r ≤ rhe x := by
  have := rhe_mono h
  rwa [rhe_int] at this

theorem rhe_le_int {x : ℚ} {r : ℤ} (h : x ≤ (r : ℚ)) : rhe x ≤ r := by
  have := rhe_mono h
  rwa [rhe_int] at this

theorem divz_zero (a : ℚ) : divz a 0 = 0 := by simp [divz]
theorem divz_of_ne {a b : ℚ} (h : b ≠ 0) : divz a b = a / b := by simp [divz, h]

end ElexModel
