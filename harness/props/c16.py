"""C16 - fitting and prediction design matrices are aligned and identifiable.

API level on the public Featurizer methods (prepare_data / filter_to_active_features / generate_holdout_data): random small
frames (levels seen only in holdout, only through unexpected rows, missing levels, one to three effects, selected levels with an
`other` pool, with/without separate-state models, baseline-margin features); column names and matrices are compared with the Lean
model (per effect: active / dropped / expanded levels and holdout rows; column order; centring).  Oracle boundary in full runs: the
design matrix handed to every solver call is recorded and the caller-level predicate "no non-intercept column is constant on the
rows handed to the solver" is evaluated (known finding KF-3 for the interval fits).
"""
import math
from fractions import Fraction

import numpy as np
import pandas as pd

from harness import common as C

PROP = "C16"
MODULES = ["ElexModel.Props.C16"]
DRIVER_TARGETS = ["ElexModel.Driver.Feat"]
TRUSTED = [
    "pd.get_dummies column order = sorted level names per effect, effects in the order given (modelled by ranks)",
    "PrefixFree: no fixed-effect name is a prefix of another effect's name or of a feature name (the code matches dummy columns to "
    "their effect with startswith)",
]
ASSUMPTIONS = ["an intercept is added (the only mode any estimator uses)", "every effect has at least one level on a fitting row"]
RULE = (
    "6-40 rows, roles reporting-expected / nonreporting / unexpected / reporting-non-modelled; 0-3 fixed effects with 1-6 levels, 15% "
    "missing, levels forced to appear only outside the fitting rows; list / dict / selected-level configuration; 0-3 features incl. "
    "baseline_normalized_margin; separate-state models for 0-2 states; non-trivial = some level unseen in fitting; distinct = sha1"
)
FES = ["county_classification", "county_fips", "district"]
LEVELS = {"county_classification": ["rural", "urban", "suburban", "other", "exurb", "zeta"],
          "county_fips": ["01001", "01003", "02001", "1", "10", "9"], "district": ["01", "02", "03", "AL", "1", "10", "rural"]}
# some labels occur in more than one effect ("1", "10", "rural"): a level selected for one effect says nothing about another


def gen_case(rng):
    n = rng.randint(6, 40)
    nfe = rng.choice([0, 1, 1, 2, 3])
    fes = rng.sample(FES, nfe)
    feats = rng.sample(["x1", "x2", "baseline_normalized_margin"], rng.choice([0, 1, 2, 3]))
    states = ["AA", "BB", "CC"][: rng.choice([1, 2, 3])]
    sep = rng.sample(states, min(len(states), rng.choice([0, 0, 1, 2]))) if feats else []
    sep = sep[: len(states)]
    rows = []
    for i in range(n):
        role = rng.choice(["rep", "rep", "rep", "nonrep", "nonrep", "unexp", "rep-nonmod"])
        r = {"postal_code": rng.choice(states), "reporting": 1 if role in ("rep", "rep-nonmod") else 0,
             "unit_category": "expected" if role in ("rep", "nonrep") else ("unexpected" if role == "unexp" else "non-modeled: x")}
        for fe in fes:
            pool = LEVELS[fe][: rng.randint(1, len(LEVELS[fe]))]
            r[fe] = None if rng.random() < 0.15 else rng.choice(pool)
        for f in feats:
            r[f] = rng.randint(-64, 64) / 32
        rows.append(r)
    # make sure every effect has a level on a fitting row; force some levels outside the fitting rows only
    for fe in fes:
        fit = [r for r in rows if r["reporting"] == 1 and r["unit_category"] == "expected"]
        if not fit:
            rows[0]["reporting"], rows[0]["unit_category"] = 1, "expected"
            fit = [rows[0]]
        if all(r[fe] is None for r in fit):
            fit[0][fe] = LEVELS[fe][0]
        if rng.random() < 0.6:
            lv = LEVELS[fe][-1]
            for r in rows:
                if r[fe] == lv and r["reporting"] == 1 and r["unit_category"] == "expected":
                    r[fe] = LEVELS[fe][0]
            others = [r for r in rows if not (r["reporting"] == 1 and r["unit_category"] == "expected")]
            if others:
                rng.choice(others)[fe] = lv
    cfgkind = rng.choice(["list", "dict-all", "dict-sel"]) if fes else "list"
    if cfgkind == "list":
        fixed = list(fes)
    elif cfgkind == "dict-all":
        fixed = {fe: "all" for fe in fes}
    else:
        fixed = {}
        for fe in fes:
            fixed[fe] = "all" if rng.random() < 0.3 else rng.sample(LEVELS[fe], rng.randint(1, 3))
    if rng.random() < 0.5:
        rows.sort(key=lambda r: (0 if (r["reporting"] == 1 and r["unit_category"] == "expected") else 1 if r["unit_category"] == "expected" else 2))
    # a third of the frames carry repeated row labels (what concatenating the reporting / nonreporting / unexpected frames without a
    # reset gives): the label of a row is its position within its own role
    return {"rows": rows, "fes": fes, "features": feats, "fixed": fixed, "sep": sep, "dup_index": rng.random() < 0.34}


def impl_run(case):
    C.use_repo()
    from elexmodel.handlers.data.Featurizer import Featurizer

    df = pd.DataFrame(case["rows"])
    for fe in case["fes"]:
        df[fe] = df[fe].astype(object).where(df[fe].notna(), np.nan)
    if case.get("dup_index"):
        seen = {}
        labels = []
        for r in case["rows"]:
            k = (r["reporting"], r["unit_category"])
            labels.append(seen.get(k, 0))
            seen[k] = seen.get(k, 0) + 1
        df.index = labels
    fz = Featurizer(list(case["features"]), case["fixed"] if isinstance(case["fixed"], list) else dict(case["fixed"]),
                    states_for_separate_model=list(case["sep"]))
    try:
        x_all = fz.prepare_data(df, center_features=True, scale_features=False, add_intercept=True)
        fit_mask = ((df.reporting == 1) & (df.unit_category == "expected")).values
        act = fz.filter_to_active_features(x_all[fit_mask])
        hold = fz.generate_holdout_data(x_all[~fit_mask])
    except Exception as e:
        return {"raises": type(e).__name__, "msg": str(e)[:200]}
    return {"complete": list(x_all.columns), "active_cols": list(act.columns), "holdout_cols": list(hold.columns),
            "fit": act.values.tolist(), "hold": hold.values.tolist(), "fit_mask": fit_mask.tolist(),
            "all": x_all.values.tolist()}


def level_ranks(case, fe):
    names = set(LEVELS[fe]) | {"other"}
    order = sorted(names)
    return {v: i for i, v in enumerate(order)}, order


def model_ops(case):
    ops = []
    fit = [r["reporting"] == 1 and r["unit_category"] == "expected" for r in case["rows"]]
    for fe in case["fes"]:
        rk, order = level_ranks(case, fe)
        sel = None
        if isinstance(case["fixed"], dict) and case["fixed"][fe] != "all":
            sel = [rk[v] for v in case["fixed"][fe]]
        ops.append({"op": "feat.effect", "rows": [[f, None if r[fe] is None else rk[r[fe]]] for f, r in zip(fit, case["rows"])],
                    "sel": sel, "other": rk["other"], "queries": [None if r[fe] is None else rk[r[fe]] for r in case["rows"]]})
    return ops


def expected(case, mouts):
    """column lists and matrices the property demands, assembled from the per-effect model answers"""
    rows = case["rows"]
    fit = [r["reporting"] == 1 and r["unit_category"] == "expected" for r in rows]
    feats = list(case["features"])
    rep_states = {r["postal_code"] for r in rows if r["reporting"] == 1}
    sep_active = [s for s in case["sep"] if s in rep_states]
    cols = [("intercept", None)]
    for f in feats:
        cols.append((f, ("feat", f)))
    for s in sep_active:
        for f in feats:
            cols.append((f"{f}_{s}", ("sfeat", f, s)))
    active_dummies, expanded_dummies = [], []
    per = {}
    for fe, o in zip(case["fes"], mouts):
        rk, order = level_ranks(case, fe)
        per[fe] = o
        active_dummies += [(f"{fe}_{order[c]}", ("dummy", fe, j)) for j, c in enumerate(o["activeCols"])]
        expanded_dummies += [(f"{fe}_{order[c]}", ("exp", fe, c)) for c in o["expandedCols"]]

    def cls(name):
        return 0 if name.startswith("intercept") else 1 if name.startswith("baseline_normalized_margin") else 2

    def order_cols(cs):
        return sorted(cs, key=lambda c: cls(c[0]))  # python's sort is stable

    active_cols = order_cols(cols + active_dummies)
    complete_cols = order_cols(cols + expanded_dummies)
    # values
    n = len(rows)
    base = {}
    for f in feats:
        vals = [Fraction(r[f]).limit_denominator(10**6) if False else C.frac(r[f]) for r in rows]
        vals = [Fraction(0) if (r["postal_code"] in sep_active) else v for r, v in zip(rows, vals)]
        m = sum(vals) / n
        base[f] = [v - m for v in vals]

    def value(i, spec, holdout_row):
        r = rows[i]
        if spec is None:
            return Fraction(0) if r["postal_code"] in case["sep"] else Fraction(1)
        if spec[0] == "feat":
            return base[spec[1]][i]
        if spec[0] == "sfeat":
            return C.frac(r[spec[1]]) if r["postal_code"] == spec[2] else Fraction(0)
        fe, j = spec[1], spec[2]
        o = per[fe]
        if holdout_row:
            return C.unrat(o["holdout"][i][j])
        lvl = o["pooled"][i]
        return Fraction(1) if lvl == o["activeCols"][j] else Fraction(0)

    fit_m = [[value(i, spec, False) for _, spec in active_cols] for i in range(n) if fit[i]]
    hold_m = [[value(i, spec, True) for _, spec in active_cols] for i in range(n) if not fit[i]]
    return [c[0] for c in complete_cols], [c[0] for c in active_cols], fit_m, hold_m


def check(run, case, impl, mouts):
    if "raises" in impl:
        run.violation("Featurizer raised " + impl["raises"], input=case, impl=impl, predicate="one_dropped_per_effect",
                      signature="C16:raise")
        return
    # monitors that need no model: same columns, intercept first, baseline margin next, non-constant fitted dummies
    if impl["active_cols"] != impl["holdout_cols"]:
        run.violation("fitting and prediction matrices have different columns", input=case,
                      impl=[impl["active_cols"], impl["holdout_cols"]], predicate="same_columns", signature="C16:columns")
        return
    names = impl["active_cols"]
    k = [0 if c.startswith("intercept") else 1 if c.startswith("baseline_normalized_margin") else 2 for c in names]
    if names[0] != "intercept" or k != sorted(k):
        run.violation("column order is not intercept first, baseline margin terms next", input=case, impl=names,
                      predicate="sortFeatures_classes", signature="C16:order")
        return
    fitm = np.array(impl["fit"], dtype=float)
    for j, c in enumerate(names):
        if any(c.startswith(fe + "_") for fe in case["fes"]) and fitm.shape[0] > 0:
            col = fitm[:, j]
            if not (np.any(col == 1) and np.any(col == 0)):
                run.violation("a fitted dummy column is constant on the fitting rows", input=case, impl=c,
                              predicate="active_nonconstant", signature="C16:constant")
                return
    if mouts is None:
        return
    complete, active, fit_m, hold_m = expected(case, mouts)
    if impl["complete"] != complete or impl["active_cols"] != active:
        run.violation("columns differ from the rule (one dropped level per effect, unselected levels pooled, per-state copies only for "
                      "reporting states, stable order)", input=case, impl={"complete": impl["complete"], "active": impl["active_cols"]},
                      expected={"complete": complete, "active": active}, predicate="one_dropped_per_effect / other_pooled",
                      signature="C16:colset")
        run.diff("column lists: model vs implementation", input=case, impl=impl["active_cols"], model=active)
        return
    for name, got, want in (("fitting", impl["fit"], fit_m), ("prediction", impl["hold"], hold_m)):
        for i, (gr, wr) in enumerate(zip(got, want)):
            for j, (g, w) in enumerate(zip(gr, wr)):
                if not C.close(g, w, Fraction(1, 10**9)):
                    run.violation(f"{name} matrix entry differs from the rule (indicator for seen levels, 1/(k+1) for unseen levels, "
                                  "centring over all units)", input=case, impl={"row": i, "col": active[j], "value": g},
                                  expected=float(w), predicate="holdout_seen / holdout_unseen / centred_sum_zero",
                                  signature="C16:matrix")
                    run.diff(f"{name} matrix: model vs implementation", input=case, row=i, col=active[j], impl=g, model=str(w))
                    return
    run.traces += 1


def solver_boundary(run, n):
    """full runs: record the design matrix of every solver call; constant non-intercept columns in the interval fits = KF-3"""
    from harness import election as E

    C.use_repo()
    from elexsolver.QuantileRegressionSolver import QuantileRegressionSolver as QRS

    rng = run.rng
    for _ in range(n):
        e = E.gen_election(rng, size="small", roles=["reporting"] * 6 + ["partial"] * 2, unexpected=False, min_reporting=10)
        fe = rng.choice([["county_classification"], ["county_fips"], ["postal_code"]])
        calls = []
        orig = QRS.fit

        def rec(self, x, y, *a, **kw):
            calls.append((np.array(x, dtype=float).copy(), kw.get("taus")))
            return orig(self, x, y, *a, **kw)

        QRS.fit = rec
        try:
            ests = rng.choice([["turnout"], ["turnout", "dem"], ["dem", "gop", "turnout"]])
            res = E.run_client(e, estimands=ests, alphas=[0.5], pi_method=rng.choice(["nonparametric", "gaussian"]), features=["x1"],
                               fixed_effects=fe)
        finally:
            QRS.fit = orig
        case = {"solver_boundary": True, "election": e.describe(), "fixed_effects": fe, "estimands": ests}
        run.case(case, True)
        run.count("solver-boundary runs")
        if "raises" in res:
            continue
        # every estimand is fitted on the same design: same number of columns in every median fit, no column twice
        med_cols = {x.shape[1] for x, tau in calls if tau == 0.5}
        dup = next(((i, j) for x, tau in calls if tau == 0.5 for i in range(x.shape[1]) for j in range(i + 1, x.shape[1])
                    if x.shape[0] > 1 and np.array_equal(x[:, i], x[:, j])), None)  # (interval fits: constant columns are KF-3)
        if len(med_cols) > 1 or dup is not None:
            run.violation("the design matrix handed to the solver has a column twice, or differs in width between the estimands of one run",
                          input=case, impl={"median_fit_widths": sorted(med_cols), "equal_columns": dup},
                          predicate="sortFeatures_perm / one_dropped_per_effect (same columns, same order)", signature="C16:solver-columns")
            continue
        for x, tau in calls:
            const = [j for j in range(1, x.shape[1]) if x.shape[0] > 0 and np.all(x[:, j] == x[0, j])]
            if const:
                median = tau == 0.5
                run.violation(
                    "a non-intercept column is constant on the rows handed to the solver"
                    + ("" if median else " (interval fit: active levels are computed on all reporting rows, the fit uses the training slice)"),
                    input=case, impl={"tau": tau, "rows": int(x.shape[0]), "constant_columns": const},
                    predicate="active_nonconstant", signature="C16:solver-constant" if median else "KF-3")
                break


def extract(run):
    from harness import extract as X

    return X.generate("C16")


def explore(run, driver, budget):
    run.info["rule"] = RULE
    n = {"quick": 250, "thorough": 12000, "search": 2000}[budget]
    cases = [gen_case(run.rng) for _ in range(n)]
    ops, spans = [], []
    for c in cases:
        o = model_ops(c)
        spans.append((len(ops), len(o)))
        ops += o
    outs = driver.run(ops) if (driver is not None and ops) else None
    for c, (a, k) in zip(cases, spans):
        impl = impl_run(c)
        fit = [r["reporting"] == 1 and r["unit_category"] == "expected" for r in c["rows"]]
        unseen = any(r[fe] is not None and r[fe] not in {q[fe] for q, f in zip(c["rows"], fit) if f}
                     for fe in c["fes"] for r, f in zip(c["rows"], fit) if not f)
        run.case(c, unseen)
        run.count(f"{len(c['fes'])} effect(s)")
        if c["sep"]:
            run.count("separate-state models")
        check(run, c, impl, outs[a:a + k] if outs is not None else None)
    solver_boundary(run, {"quick": 4, "thorough": 60, "search": 10}[budget])


def replay(run, driver, payload):
    c = payload["input"]
    if c.get("solver_boundary"):
        solver_boundary(run, 4)
        return
    ops = model_ops(c)
    outs = driver.run(ops) if (driver is not None and ops) else ([] if driver is not None else None)
    run.case(c, True)
    check(run, c, impl_run(c), outs)
