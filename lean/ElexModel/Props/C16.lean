import ElexModel.Core.Featurizer
import ElexModel.Gen.C16
import ElexModel.Lemmas.Table
import ElexModel.Lemmas.Num
import Mathlib.Tactic.FieldSimp

/-!
# C16 — fitting and prediction design matrices are aligned and identifiable

One fixed effect at a time (the code treats the effects independently, matching dummy columns to their effect by
name prefix — hypothesis `PrefixFree`, see DESIGN).  Quantifiers: every assignment of levels (or missing) to rows,
every choice of fitting rows, every selected-level list.
-/

namespace ElexModel.Feat
open ElexModel ElexModel.Table

theorem mem_sortDedup (x : ℕ) (l : List ℕ) : x ∈ sortDedup l ↔ x ∈ l := by
  unfold sortDedup; rw [mem_foldl_insertKey]; simp

theorem sortDedup_sorted (l : List ℕ) : (sortDedup l).Pairwise (· < ·) :=
  foldl_insertKey_sorted l [] List.Pairwise.nil

theorem sortDedup_nodup (l : List ℕ) : (sortDedup l).Nodup := (sortDedup_sorted l).imp (fun h => ne_of_lt h)

/-- a level is active iff it is observed on a fitting row -/
theorem mem_active (rows : List (Bool × Option ℕ)) (v : ℕ) :
    v ∈ active rows ↔ ∃ r ∈ rows, r.1 = true ∧ r.2 = some v := by
  unfold active; rw [mem_sortDedup]
  simp only [List.mem_filterMap, List.mem_filter]
  constructor
  · rintro ⟨r, ⟨hr, hf⟩, hv⟩; exact ⟨r, hr, hf, by simpa using hv⟩
  · rintro ⟨r, hr, hf, hv⟩; exact ⟨r, ⟨hr, hf⟩, by simpa using hv⟩

theorem mem_present (rows : List (Bool × Option ℕ)) (v : ℕ) : v ∈ present rows ↔ ∃ r ∈ rows, r.2 = some v := by
  unfold present; rw [mem_sortDedup, List.mem_filterMap]

/-- **exactly one observed level per fixed effect is absorbed by the intercept**: the levels observed in fitting are
    the dropped one followed by the fitted columns, all distinct -/
theorem one_dropped_per_effect (rows : List (Bool × Option ℕ)) (d : ℕ) (h : dropped rows = some d) :
    active rows = d :: activeCols rows ∧ d ∉ activeCols rows ∧ (activeCols rows).Nodup := by
  unfold dropped activeCols at *
  cases ha : active rows with
  | nil => rw [ha] at h; cases h
  | cons a t =>
    rw [ha] at h; simp only [List.head?_cons, Option.some.injEq] at h; subst h
    have hn : (a :: t).Nodup := ha ▸ sortDedup_nodup _
    exact ⟨rfl, (List.nodup_cons.mp hn).1, (List.nodup_cons.mp hn).2⟩

/-- fitted columns are levels observed in fitting, and not the dropped one -/
theorem activeCols_sub (rows : List (Bool × Option ℕ)) (c : ℕ) (h : c ∈ activeCols rows) :
    c ∈ active rows ∧ some c ≠ dropped rows := by
  unfold activeCols dropped at *
  cases ha : active rows with
  | nil => rw [ha] at h; cases h
  | cons a t =>
    rw [ha] at h
    simp only [List.tail_cons] at h
    refine ⟨List.mem_cons_of_mem _ h, ?_⟩
    simp only [List.head?_cons, ne_eq, Option.some.injEq]
    have hn : (a :: t).Nodup := ha ▸ sortDedup_nodup _
    intro e; subst e
    exact (List.nodup_cons.mp hn).1 h

/-- **every fitted dummy column is non-constant on the fitting rows**: some fitting row has the level (value 1) and
    some fitting row has the dropped level (value 0) -/
theorem active_nonconstant (rows : List (Bool × Option ℕ)) (c : ℕ) (h : c ∈ activeCols rows) :
    (∃ r ∈ rows, r.1 = true ∧ dummy r.2 c = 1) ∧ (∃ r ∈ rows, r.1 = true ∧ dummy r.2 c = 0) := by
  obtain ⟨hc, hne⟩ := activeCols_sub rows c h
  constructor
  · obtain ⟨r, hr, hf, hv⟩ := (mem_active rows c).mp hc
    exact ⟨r, hr, hf, by simp [dummy, hv]⟩
  · -- the dropped level exists (the active list is non-empty) and is observed on a fitting row
    cases hd : dropped rows with
    | none =>
      unfold dropped at hd
      have : active rows = [] := by simpa [List.head?_eq_none_iff] using hd
      rw [this] at hc; cases hc
    | some d =>
      have hdm : d ∈ active rows := by
        rw [(one_dropped_per_effect rows d hd).1]; exact List.mem_cons_self ..
      obtain ⟨r, hr, hf, hv⟩ := (mem_active rows d).mp hdm
      refine ⟨r, hr, hf, ?_⟩
      have : d ≠ c := by intro e; subst e; exact hne (by rw [hd])
      simp [dummy, hv, this]

/-- **a unit whose level was seen in fitting gets that level's indicator** -/
theorem holdout_seen (rows : List (Bool × Option ℕ)) (v : ℕ) (h : v ∈ activeCols rows) :
    holdout rows (some v) = (activeCols rows).map (fun c => if v = c then 1 else 0) := by
  unfold holdout
  have : (activeCols rows).contains v = true := by simpa using h
  simp only [this, Bool.not_true, Bool.and_false, Bool.false_eq_true, if_false, dummy, Option.some.injEq]

/-- a unit with the dropped level (or a missing level) gets zeros: the intercept stands in for it -/
theorem holdout_dropped (rows : List (Bool × Option ℕ)) (d : ℕ) (h : dropped rows = some d) :
    holdout rows (some d) = (activeCols rows).map (fun _ => 0) := by
  unfold holdout
  have hne : (expandedCols rows).contains d = false := by
    unfold expandedCols
    simp only [List.contains_eq_mem, List.mem_filter, decide_eq_false_iff_not, not_and]
    intro _; simp [h]
  have hnot := (one_dropped_per_effect rows d h).2.1
  simp only [hne, Bool.false_and, Bool.false_eq_true, if_false, dummy, Option.some.injEq]
  apply List.map_congr_left
  intro c hc
  have : d ≠ c := by intro e; subst e; exact hnot hc
  simp [this]

theorem holdout_missing (rows : List (Bool × Option ℕ)) :
    holdout rows none = (activeCols rows).map (fun _ => 0) := by
  unfold holdout; simp [dummy]

/-- **a unit whose level was not seen in fitting gets the equal share `1/(k+1)` on each of the `k` fitted levels** -/
theorem holdout_unseen (rows : List (Bool × Option ℕ)) (v : ℕ) (hp : v ∈ present rows) (ha : v ∉ active rows) :
    holdout rows (some v) = (activeCols rows).map (fun _ => 1 / (((activeCols rows).length : ℚ) + 1)) := by
  unfold holdout
  have hnc : (activeCols rows).contains v = false := by
    simp only [List.contains_eq_mem, decide_eq_false_iff_not]
    intro h; exact ha (activeCols_sub rows v h).1
  have hexp : (expandedCols rows).contains v = true := by
    unfold expandedCols
    simp only [List.contains_eq_mem, List.mem_filter, decide_eq_true_eq]
    refine ⟨hp, ?_⟩
    cases hd : dropped rows with
    | none => simp
    | some d =>
      have : d ∈ active rows := by rw [(one_dropped_per_effect rows d hd).1]; exact List.mem_cons_self ..
      have : v ≠ d := by intro e; subst e; exact ha this
      simp [this]
  simp only [hexp, hnc, Bool.not_false, Bool.and_true, if_true]

/-- the shares of an unseen level sum to `k/(k+1)`: the missing `1/(k+1)` is the dropped level's share -/
theorem holdout_unseen_sum (rows : List (Bool × Option ℕ)) (v : ℕ) (hp : v ∈ present rows) (ha : v ∉ active rows) :
    sumR (holdout rows (some v)) = ((activeCols rows).length : ℚ) / (((activeCols rows).length : ℚ) + 1) := by
  rw [holdout_unseen rows v hp ha]
  have key : ∀ (l : List ℕ) (x : ℚ), sumR (l.map (fun _ => x)) = (l.length : ℚ) * x := by
    intro l x; induction l with
    | nil => simp [sumR]
    | cons a t ih => simp only [List.map_cons, sumR, ih, List.length_cons]; push_cast; ring
  rw [key]; ring

/-- **levels not selected by the user are pooled into one `other` level** -/
theorem other_pooled (sel : List ℕ) (other v : ℕ) (h : v ∉ sel) : pool (some sel) other (some v) = some other := by
  simp [pool, h]

theorem selected_kept (sel : List ℕ) (other v : ℕ) (h : v ∈ sel) : pool (some sel) other (some v) = some v := by
  simp [pool, h]

theorem all_kept (other : ℕ) (lvl : Option ℕ) : pool none other lvl = lvl := by
  cases lvl <;> simp [pool]

/-- with a selection, a missing level is pooled into `other` too (the code as it exists) -/
theorem missing_pooled (sel : List ℕ) (other : ℕ) : pool (some sel) other none = some other := rfl

/-- **same columns in the same order, intercept first, baseline-margin terms next**: the ordering is a stable
    three-class partition -/
theorem sortFeatures_classes (cols : List (ℕ × ℕ)) :
    ∃ a b c, sortFeatures cols = a ++ b ++ c ∧ (∀ x ∈ a, x.1 = 0) ∧ (∀ x ∈ b, x.1 = 1) ∧ (∀ x ∈ c, x.1 ≠ 0 ∧ x.1 ≠ 1) := by
  refine ⟨_, _, _, rfl, ?_, ?_, ?_⟩
  · intro x hx; simpa using (List.mem_filter.mp hx).2
  · intro x hx; simpa using (List.mem_filter.mp hx).2
  · intro x hx; simpa using (List.mem_filter.mp hx).2

theorem sortFeatures_perm (cols : List (ℕ × ℕ)) : (sortFeatures cols).Perm cols := by
  unfold sortFeatures
  induction cols with
  | nil => simp
  | cons x t ih =>
    rw [List.append_assoc] at ih ⊢
    simp only [List.filter_cons]
    by_cases h0 : x.1 = 0
    · have e1 : (x.1 == 1) = false := by simp [h0]
      simp only [h0, beq_self_eq_true, if_true, e1, Bool.false_eq_true, if_false, bne_self_eq_false, Bool.false_and]
      exact List.Perm.cons x ih
    · by_cases h1 : x.1 = 1
      · have e0 : (x.1 == 0) = false := by simp [h1]
        simp only [e0, Bool.false_eq_true, if_false, h1, beq_self_eq_true, if_true, bne_self_eq_false, Bool.and_false]
        exact (List.perm_middle).trans (List.Perm.cons x ih)
      · have e0 : (x.1 == 0) = false := by simp [h0]
        have e1 : (x.1 == 1) = false := by simp [h1]
        have e2 : (x.1 != 0 && x.1 != 1) = true := by simp [h0, h1]
        simp only [e0, e1, e2, Bool.false_eq_true, if_false, if_true]
        rw [← List.append_assoc]
        refine (List.perm_middle).trans (List.Perm.cons x ?_)
        rw [List.append_assoc]; exact ih

/-- **centring over all units**: the centred column sums to zero over all rows -/
theorem centred_sum_zero (xs : List ℚ) (h : xs ≠ []) : sumR (centre xs) = 0 := by
  unfold centre
  have hlen : (xs.length : ℚ) ≠ 0 := by
    have : 0 < xs.length := List.length_pos_iff.mpr h
    exact_mod_cast (Nat.pos_iff_ne_zero.mp this)
  have key : ∀ (l : List ℚ) (m : ℚ), sumR (l.map (· - m)) = sumR l - (l.length : ℚ) * m := by
    intro l m
    induction l with
    | nil => simp [sumR]
    | cons a t ih => simp only [List.map_cons, sumR, ih, List.length_cons]; push_cast; ring
  rw [key]
  field_simp
  ring

/-! ### non-vacuity: level 5 seen only in holdout, level 2 dropped, a missing level -/
def exRows : List (Bool × Option ℕ) := [(true, some 3), (true, some 2), (false, some 5), (true, some 7), (false, none), (true, some 3)]
example : active exRows = [2, 3, 7] ∧ dropped exRows = some 2 ∧ activeCols exRows = [3, 7] ∧ expandedCols exRows = [3, 5, 7] := by
  decide +kernel
example : holdout exRows (some 5) = [1/3, 1/3] ∧ holdout exRows (some 7) = [0, 1] ∧ holdout exRows (some 2) = [0, 0] := by
  decide +kernel

/-! ### bridge: `Featurizer` as it is in `/repo/src` on this run -/

/-- the value an unseen level receives on every active column is the source's `1 / (len(active) + 1)` -/
theorem bridge_unseen_value (rows : List (Bool × Option ℕ)) :
    (1 : ℚ) / (((activeCols rows).length : ℚ) + 1) = Gen.C16.unseen_value ((activeCols rows).length : ℚ) := rfl

/-- fitting rows = reporting ∧ expected; a level is active iff its dummy column has a positive sum on them; per fixed effect the
    first active level is dropped and the rest are fitted; expanded = present minus dropped; pooling into `other`; column order;
    unseen rows are those with a positive sum over the inactive columns -/
theorem bridge_featurizer_shape :
    Gen.C16.unseen_target = ["df.loc[rows_w_inactive_fixed_effects, fe_active_fixed_effects]"] ∧
    Gen.C16.holdout_steps = ["inactive_fixed_effects = [x for x in self.expanded_fixed_effects if x not in self.active_fixed_effects]", "fe_active_fixed_effects = self._get_categories_for_fe(self.active_fixed_effects, fe)", "fe_inactive_fixed_effects = self._get_categories_for_fe(inactive_fixed_effects, fe)", "rows_w_inactive_fixed_effects = df[fe_inactive_fixed_effects].sum(axis=1) > 0", "return self.filter_to_active_features(df)"] ∧
    Gen.C16.prepare_steps = ["self.complete_features += self.features + additional_state_features + self.expanded_fixed_effects", "self.active_features += self.features + additional_state_features + self.active_fixed_effects", "self.complete_features = self._sort_features(self.complete_features)", "self.active_features = self._sort_features(self.active_features)", "df[self.features] -= df[self.features].mean()", "df[self.features] /= df[self.features].std()", "self.complete_features += ['intercept']", "self.active_features += ['intercept']", "all_expanded_fixed_effects = [x for x in df.columns if x.startswith(tuple((fixed_effect + '_' for fixed_effect in self.fixed_effect_cols)))]", "df_fitting = df[df.reporting & (df.unit_category == 'expected')]", "active_fixed_effect_boolean_df = df_fitting[all_expanded_fixed_effects].sum(axis=0) > 0", "all_active_fixed_effects = np.asarray(all_expanded_fixed_effects)[active_fixed_effect_boolean_df]", "self.active_fixed_effects = active_fixed_effects", "self.intercept_column = intercept_column", "self.expanded_fixed_effects = [x for x in all_expanded_fixed_effects if x not in intercept_column]", "self.active_fixed_effects = all_active_fixed_effects", "self.expanded_fixed_effects = all_expanded_fixed_effects", "fe_fixed_effect_filter = self._get_categories_for_fe(all_active_fixed_effects, fe)", "active_fixed_effects.extend(fe_fixed_effect_filter[1:])", "intercept_column.append(fe_fixed_effect_filter[0])"] ∧
    Gen.C16.prepare_returned = ["return df[self.complete_features]"] ∧
    Gen.C16.pooling = ["if 'all' not in params:     df[fe] = np.where(~df[fe].isin(params), 'other', df[fe])", "pd.get_dummies(df, columns=self.fixed_effect_cols, prefix=self.fixed_effect_cols, prefix_sep='_', dtype=np.int64)"] ∧
    Gen.C16.sort_features = ["custom_order = ['intercept', 'baseline_normalized_margin']", "return list(sorted(features, key=lambda x: custom_order.index(next((start for start in custom_order if x.startswith(start)), None)) if any((x.startswith(start) for start in custom_order)) else len(custom_order)))"] ∧
    Gen.C16.categories_for_fe = ["return [x for x in list_ if x.startswith(fe)]"] ∧
    Gen.C16.filter_to_active = ["return df[self.active_features]"] :=
  ⟨rfl, rfl, rfl, rfl, rfl, rfl, rfl, rfl⟩

end ElexModel.Feat
