import ElexModel.Props.C04
import ElexModel.Props.C03
import ElexModel.Gen.C05
import Mathlib.Algebra.Order.AbsoluteValue.Basic

/-!
# C05 — with no covariates the model is uniform swing by the weighted median

`wmed` (first value in sorted order whose running weight exceeds half the total) is shown to minimise the
weighted absolute loss — the objective of the τ = ½ quantile regression with an intercept only — and to be
the *only* minimiser when no running weight equals exactly half.  Hence any correct solver returns it.
-/

namespace ElexModel.Conformal
open ElexModel

/-- weighted absolute loss of the intercept-only fit at `x` -/
def loss (x : ℚ) : List (ℚ × ℚ) → ℚ
  | [] => 0
  | (r, w) :: t => w * |r - x| + loss x t

/-- weight strictly below `c` -/
def wLt (c : ℚ) : List (ℚ × ℚ) → ℚ
  | [] => 0
  | (s, w) :: t => (if s < c then w else 0) + wLt c t

/-- the solver's objective: weighted pinball loss; at τ = ½ it is half the weighted absolute loss -/
def pinball (tau e : ℚ) : ℚ := if 0 ≤ e then tau * e else (tau - 1) * e

theorem pinball_half (e : ℚ) : pinball (1/2) e = (1/2) * |e| := by
  unfold pinball
  split
  · rename_i h; rw [abs_of_nonneg h]
  · rename_i h; rw [abs_of_neg (not_le.mp h)]; ring

theorem loss_right (m x : ℚ) (hx : m ≤ x) (l : List (ℚ × ℚ)) (hw : ∀ p ∈ l, 0 ≤ p.2) :
    (x - m) * (wBelow m l - (wTot l - wBelow m l)) ≤ loss x l - loss m l := by
  induction l with
  | nil => simp [loss, wBelow, wTot]
  | cons p t ih =>
    obtain ⟨r, w⟩ := p
    have hw0 : 0 ≤ w := hw (r, w) (List.mem_cons_self ..)
    have iht := ih (fun p hp => hw p (List.mem_cons_of_mem _ hp))
    simp only [loss, wBelow, wTot]
    by_cases hr : r ≤ m
    · simp only [hr, if_true]
      have h1 : |r - x| = x - r := by rw [abs_sub_comm]; exact abs_of_nonneg (by linarith)
      have h2 : |r - m| = m - r := by rw [abs_sub_comm]; exact abs_of_nonneg (by linarith)
      rw [h1, h2]; nlinarith
    · simp only [hr, if_false]
      have hrm : m < r := not_le.mp hr
      have h2 : |r - m| = r - m := abs_of_nonneg (by linarith)
      have h1 : r - m - (x - m) ≤ |r - x| := by
        have := neg_abs_le (r - x); have := le_abs_self (r - x); linarith
      rw [h2]; nlinarith

theorem loss_left (m x : ℚ) (hx : x ≤ m) (l : List (ℚ × ℚ)) (hw : ∀ p ∈ l, 0 ≤ p.2) :
    (m - x) * ((wTot l - wLt m l) - wLt m l) ≤ loss x l - loss m l := by
  induction l with
  | nil => simp [loss, wLt, wTot]
  | cons p t ih =>
    obtain ⟨r, w⟩ := p
    have hw0 : 0 ≤ w := hw (r, w) (List.mem_cons_self ..)
    have iht := ih (fun p hp => hw p (List.mem_cons_of_mem _ hp))
    simp only [loss, wLt, wTot]
    by_cases hr : r < m
    · simp only [hr, if_true]
      have h2 : |r - m| = m - r := by rw [abs_sub_comm]; exact abs_of_nonneg (by linarith)
      have h1 : (m - r) - (m - x) ≤ |r - x| := by
        have := neg_abs_le (r - x); linarith
      rw [h2]; nlinarith
    · simp only [hr, if_false]
      have hrm : m ≤ r := not_lt.mp hr
      have h2 : |r - m| = r - m := abs_of_nonneg (by linarith)
      have h1 : |r - x| = r - x := abs_of_nonneg (by linarith)
      rw [h1, h2]; nlinarith

/-- the weighted-median conditions imply optimality -/
theorem median_conditions_minimise (m : ℚ) (l : List (ℚ × ℚ)) (hw : ∀ p ∈ l, 0 ≤ p.2)
    (hle : wTot l ≤ 2 * wBelow m l) (hlt : 2 * wLt m l ≤ wTot l) : ∀ x, loss m l ≤ loss x l := by
  intro x
  rcases le_total m x with h | h
  · have := loss_right m x h l hw; nlinarith
  · have := loss_left m x h l hw; nlinarith

/-- … and uniqueness when both conditions are strict -/
theorem median_conditions_unique (m : ℚ) (l : List (ℚ × ℚ)) (hw : ∀ p ∈ l, 0 ≤ p.2)
    (hle : wTot l < 2 * wBelow m l) (hlt : 2 * wLt m l < wTot l) (x : ℚ) (hx : x ≠ m) : loss m l < loss x l := by
  rcases lt_or_gt_of_ne hx with h | h
  · have := loss_left m x h.le l hw; nlinarith
  · have := loss_right m x h.le l hw; nlinarith

theorem wLt_perm (c : ℚ) {l₁ l₂ : List (ℚ × ℚ)} (h : l₁.Perm l₂) : wLt c l₁ = wLt c l₂ := by
  induction h with
  | nil => rfl
  | cons x _ ih => obtain ⟨s, w⟩ := x; simp only [wLt, ih]
  | swap x y l => obtain ⟨s, w⟩ := x; obtain ⟨s', w'⟩ := y; simp only [wLt]; ring
  | trans _ _ ih1 ih2 => rw [ih1, ih2]

theorem loss_perm (x : ℚ) {l₁ l₂ : List (ℚ × ℚ)} (h : l₁.Perm l₂) : loss x l₁ = loss x l₂ := by
  induction h with
  | nil => rfl
  | cons p _ ih => obtain ⟨s, w⟩ := p; simp only [loss, ih]
  | swap p q l => obtain ⟨s, w⟩ := p; obtain ⟨s', w'⟩ := q; simp only [loss]; ring
  | trans _ _ ih1 ih2 => rw [ih1, ih2]

theorem wLt_of_all_ge (c : ℚ) (l : List (ℚ × ℚ)) (h : ∀ p ∈ l, c ≤ p.1) : wLt c l = 0 := by
  induction l with
  | nil => rfl
  | cons p t ih =>
    obtain ⟨s, w⟩ := p
    have h0 : ¬ s < c := not_lt.mpr (h (s, w) (List.mem_cons_self ..))
    simp only [wLt, if_neg h0, zero_add]
    exact ih (fun p hp => h p (List.mem_cons_of_mem _ hp))

/-- the weight strictly below the scanned value does not exceed the threshold -/
theorem scan_below (thr acc : ℚ) (l : List (ℚ × ℚ)) (hs : l.Pairwise (fun a b => a.1 ≤ b.1))
    (hw : ∀ p ∈ l, 0 ≤ p.2) (c : ℚ) (h : scan thr acc l = some c) : acc + wLt c l ≤ thr ∨ thr < acc := by
  induction l generalizing acc with
  | nil => simp [scan] at h
  | cons p t ih =>
    obtain ⟨s, w⟩ := p
    simp only [scan] at h
    have hst := List.pairwise_cons.mp hs
    split at h
    · have hsc : s = c := by simpa using h
      subst hsc
      have hz : wLt s ((s, w) :: t) = 0 := by
        apply wLt_of_all_ge
        intro p hp
        rcases List.mem_cons.mp hp with rfl | hp
        · exact le_refl _
        · exact hst.1 p hp
      rw [hz]
      by_cases h0 : thr < acc
      · exact Or.inr h0
      · exact Or.inl (by linarith)
    · rename_i hnlt
      have hw0 : 0 ≤ w := hw (s, w) (List.mem_cons_self ..)
      rcases ih (acc + w) hst.2 (fun p hp => hw p (List.mem_cons_of_mem _ hp)) h with h1 | h1
      · left
        by_cases hsc : s < c
        · simp only [wLt, if_pos hsc]; linarith
        · have ht0 : wLt c t = 0 := by
            apply wLt_of_all_ge
            intro p hp
            exact le_trans (not_lt.mp hsc) (hst.1 p hp)
          simp only [wLt, if_neg hsc, ht0]; linarith [not_lt.mp hnlt]
      · exact absurd h1 hnlt

/-- **the weighted median minimises the weighted absolute loss**, i.e. it is a solution of the intercept-only
    quantile regression at τ = ½ with weights `w` -/
theorem wmed_minimises (rw : List (ℚ × ℚ)) (hw : ∀ p ∈ rw, 0 ≤ p.2) (m : ℚ) (h : wmed rw = some m) :
    ∀ x, loss m rw ≤ loss x rw := by
  unfold wmed at h
  have hnn := nonneg_of_perm (sortS_perm rw) hw
  have hc := scan_calibrated _ 0 (sortS rw) (sortS_sorted rw) hnn m h
  have hb := scan_below _ 0 (sortS rw) (sortS_sorted rw) hnn m h
  rw [wBelow_perm m (sortS_perm rw)] at hc
  rw [wLt_perm m (sortS_perm rw)] at hb
  have htot := wTot_nonneg rw hw
  apply median_conditions_minimise m rw hw
  · linarith
  · rcases hb with hb | hb
    · linarith
    · linarith

/-- **uniqueness**: if no running weight equals exactly half the total (`wLt m < W/2`), every other value has a
    strictly larger loss, so any correct solver returns exactly `wmed` -/
theorem wmed_unique (rw : List (ℚ × ℚ)) (hw : ∀ p ∈ rw, 0 ≤ p.2) (m : ℚ) (h : wmed rw = some m)
    (hstrict : 2 * wLt m rw < wTot rw) (x : ℚ) (hx : x ≠ m) : loss m rw < loss x rw := by
  unfold wmed at h
  have hnn := nonneg_of_perm (sortS_perm rw) hw
  have hc := scan_calibrated _ 0 (sortS rw) (sortS_sorted rw) hnn m h
  rw [wBelow_perm m (sortS_perm rw)] at hc
  exact median_conditions_unique m rw hw (by linarith) hstrict x hx

theorem wmed_exists (rw : List (ℚ × ℚ)) (hpos : 0 < wTot rw) : ∃ m, wmed rw = some m := by
  unfold wmed
  apply scan_exists
  · linarith
  · rw [wTot_perm (sortS_perm rw)]; linarith

/-- the weighted median does not depend on the order of the units -/
theorem wmed_perm_invariant (rw rw' : List (ℚ × ℚ)) (hp : rw'.Perm rw) (hw : ∀ p ∈ rw, 0 ≤ p.2) :
    wmed rw' = wmed rw := by
  have := pop_perm_invariant rw rw' hp hw (1/2) (by norm_num)
  unfold popCorrection at this
  unfold wmed
  rw [wTot_perm hp] at this ⊢
  have e : (1/2 : ℚ) * wTot rw = wTot rw / 2 := by ring
  rw [e] at this
  exact this

/-- **uniform swing, closed form**: every nonreporting prediction is its baseline + 1 scaled by the one common
    factor `1 + m`, rounded, floored at the partial count (the floor and the rounding commute) -/
theorem swing_closed_form (m b : ℚ) (part : ℤ) :
    swingPred m b part = max (rhe ((1 + m) * (b + 1))) part := by
  unfold swingPred; rw [rmax_eq, rhe_max_int]

/-- it is the conformal unit prediction with regression output `m` and weight `b + 1` -/
theorem swing_is_unitPred (m b part : ℚ) : swingPred m b part = Agg.unitPred m (b + 1) part := by
  unfold swingPred Agg.unitPred
  congr 2; ring

/-! ### non-vacuity -/
example : wmed [(1/10, 100), (-1/5, 300), (3/10, 150), (0, 50)] = some (0 : ℚ) := by decide +kernel
example : swingPred (1/10) 99 30 = 110 ∧ swingPred (-1/2) 99 80 = 80 := by decide +kernel

end ElexModel.Conformal

/-! ### bridge: the median solve and the closing formula as they are in `/repo/src` on this run -/

namespace ElexModel.Conformal
open ElexModel

/-- the median fit is asked for level ½ of the relative changes of the reporting units, weighted by their baseline column,
    with an intercept -/
theorem bridge_median_fit :
    Gen.C05.median_fit_args = ["qr", "reporting_units_features", "reporting_units_residuals", "0.5", "weights", "True"] ∧
    Gen.C05.median_fit_weights = ["reporting_units[f'last_election_results_{estimand}']"] ∧
    Gen.C05.median_fit_target = ["reporting_units[f'residuals_{estimand}']"] := by decide

/-- the source's prediction formula at the fitted constant `m` is the uniform swing -/
theorem bridge_swing (m b part : ℚ) : Gen.C05.unit_pred m (b + 1) part = (swingPred m b part : ℚ) := by
  rw [swing_is_unitPred]; rfl

end ElexModel.Conformal
