import ElexModel.Driver.Det
def main : IO Unit := ElexModel.Driver.mainWith ElexModel.Driver.Det.run
