/-
Model of `ConformalElectionModel.fit_model` against a fallible solver (property C20).

A solve is identified by its arguments; the solver is an oracle indexed by the number of the call (so that a fault can
be injected at any position of a run).  `normalize` is the only argument the retry changes.
-/
namespace ElexModel.Retry

/-- everything `fit_model` passes to `QuantileRegressionSolver.fit` (design, response and weights are abstracted to an
    identifier: the model only needs to know whether they are *the same*) -/
structure Args where
  data : Nat          -- identifies (X, y, weights)
  tau : Nat           -- identifies the quantile
  lambda : Nat        -- identifies the regularisation constant
  intercept : Bool
  normalize : Bool
  deriving Repr, DecidableEq

inductive Outcome where
  | ok (coefs : Nat)        -- identifies the fitted coefficients
  | solverError             -- cvxpy.error.SolverError
  | inaccurate              -- the UserWarning turned into an exception by the module-level filter
  | other (e : Nat)         -- any other exception
  deriving Repr, DecidableEq

def retried : Outcome → Bool
  | .solverError => true
  | .inaccurate => true
  | _ => false

/-- the solver oracle: call number → arguments → outcome -/
abbrev Solver := Nat → Args → Outcome

/-- `fit_model`: first attempt with weight normalisation; on a solver error or the inaccuracy warning one retry with the
    same arguments except `normalize`.  Returns the outcome, the calls made and the next call number. -/
def fitModel (solve : Solver) (n : Nat) (a : Args) : Outcome × List Args × Nat :=
  let a1 := { a with normalize := true }
  match solve n a1 with
  | .solverError => (solve (n+1) { a with normalize := false }, [a1, { a with normalize := false }], n + 2)
  | .inaccurate => (solve (n+1) { a with normalize := false }, [a1, { a with normalize := false }], n + 2)
  | r => (r, [a1], n + 1)

/-- a run is a sequence of fits (median, then per level lower and upper, per estimand); it stops at the first fit that
    does not produce coefficients -/
def runFits (solve : Solver) : Nat → List Args → Except Outcome (List Nat)
  | _, [] => .ok []
  | n, a :: rest =>
    match fitModel solve n a with
    | (.ok c, _, n') =>
      match runFits solve n' rest with
      | .ok cs => .ok (c :: cs)
      | .error e => .error e
    | (r, _, _) => .error r

end ElexModel.Retry
