import ElexModel.Core.Gauss
import ElexModel.Gen.C15
import ElexModel.Core.MathUtils
import ElexModel.Props.C04
import ElexModel.Lemmas.Num
import Mathlib.Data.Rat.Defs
import Mathlib.Tactic.Linarith
import Mathlib.Data.List.Basic

/-!
# C15 — gaussian intervals use a group's own calibration if big enough, else its parent

`fitRows` models the recursive `GaussianModel.fit`, `assign` the matching loop, `source` the rule of the
property.  Main theorem: for every group structure the loop assigns to every group exactly the rule's source.
-/

namespace ElexModel.Gauss

theorem big_nil (conf : List Key) : big conf [] = true := by
  unfold big
  rw [decide_eq_true_eq]
  unfold cnt thr
  have : (conf.filter (fun c => c.take ([] : Key).length == ([] : Key))).length = conf.length := by simp
  rw [this]; exact Nat.min_le_right _ _

theorem mem_dedup (a : Key) (l : List Key) : a ∈ dedup l ↔ a ∈ l := by
  induction l with
  | nil => simp [dedup]
  | cons b t ih =>
    unfold dedup
    split
    · rename_i h
      rw [ih]
      have hb : b ∈ t := by simpa using h
      constructor
      · exact fun h => List.mem_cons_of_mem _ h
      · intro h
        rcases List.mem_cons.mp h with rfl | h
        · exact hb
        · exact h
    · simp only [List.mem_cons, ih]

theorem dedup_nodup (l : List Key) : (dedup l).Nodup := by
  induction l with
  | nil => simp [dedup]
  | cons b t ih =>
    unfold dedup
    split
    · exact ih
    · rename_i h
      refine List.nodup_cons.mpr ⟨?_, ih⟩
      rw [mem_dedup]
      simpa using h

theorem mem_level (groups : List Key) (l : ℕ) (p : Key) : p ∈ level groups l ↔ ∃ g ∈ groups, g.take l = p := by
  unfold level; rw [mem_dedup]; simp

/-- every row of the fit is a group that holds at least the threshold -/
theorem fitRows_big (conf groups : List Key) (l : ℕ) (p : Key) (h : p ∈ fitRows conf groups l) : big conf p = true := by
  induction l with
  | zero => simp only [fitRows, List.mem_singleton] at h; subst h; exact big_nil conf
  | succ l ih =>
    unfold fitRows at h
    split at h
    · rename_i hall
      exact List.all_eq_true.mp hall p h
    · rcases List.mem_append.mp h with h | h
      · exact ih h
      · exact (List.mem_filter.mp h).2

theorem fitRows_len (conf groups : List Key) (l : ℕ) (p : Key) (h : p ∈ fitRows conf groups l) : p.length ≤ l := by
  induction l with
  | zero => simp only [fitRows, List.mem_singleton] at h; subst h; simp
  | succ l ih =>
    unfold fitRows at h
    have hlev : ∀ q ∈ level groups (l+1), q.length ≤ l + 1 := by
      intro q hq
      obtain ⟨g, _, rfl⟩ := (mem_level groups (l+1) q).mp hq
      simp
    split at h
    · exact hlev p h
    · rcases List.mem_append.mp h with h | h
      · exact Nat.le_succ_of_le (ih h)
      · exact hlev p (List.mem_filter.mp h).1

/-- completeness of the recursion: the longest big prefix of a group is always among the rows -/
theorem fitRows_complete (conf groups : List Key) (g : Key) (hg : g ∈ groups) (l m : ℕ) (hm : m ≤ l)
    (hbig : big conf (g.take m) = true) (hsmall : ∀ j, m < j → j ≤ l → big conf (g.take j) = false) :
    g.take m ∈ fitRows conf groups l := by
  induction l with
  | zero =>
    have : m = 0 := by omega
    subst this; simp [fitRows]
  | succ l ih =>
    unfold fitRows
    rcases Nat.lt_or_eq_of_le hm with hlt | heq
    · -- g.take (l+1) is a small group of this level: the coarser fit is invoked
      have hs := hsmall (l+1) hlt (le_refl _)
      have hin : g.take (l+1) ∈ level groups (l+1) := (mem_level _ _ _).mpr ⟨g, hg, rfl⟩
      have hnall : (level groups (l+1)).all (big conf) = false := by
        rw [List.all_eq_false]
        exact ⟨g.take (l+1), hin, by simp [hs]⟩
      rw [hnall]
      simp only [Bool.false_eq_true, if_false]
      apply List.mem_append_left
      exact ih (by omega) (fun j h1 h2 => hsmall j h1 (by omega))
    · subst heq
      have hin : g.take (l+1) ∈ level groups (l+1) := (mem_level _ _ _).mpr ⟨g, hg, rfl⟩
      split
      · exact hin
      · exact List.mem_append_right _ (List.mem_filter.mpr ⟨hin, hbig⟩)

/-- the rule's source is a prefix of the group's own key, and it is big -/
theorem source_spec (conf : List Key) (l : ℕ) (g : Key) :
    ∃ m, m ≤ l ∧ source conf l g = g.take m ∧ big conf (g.take m) = true ∧
      ∀ j, m < j → j ≤ l → big conf (g.take j) = false := by
  induction l with
  | zero => exact ⟨0, le_refl _, by simp [source], by simpa using big_nil conf, by intro j h1 h2; omega⟩
  | succ l ih =>
    unfold source
    by_cases hb : big conf (g.take (l+1)) = true
    · rw [if_pos hb]
      exact ⟨l+1, le_refl _, rfl, hb, by intro j h1 h2; omega⟩
    · rw [if_neg hb]
      obtain ⟨m, hm, hs, hbm, hsm⟩ := ih
      refine ⟨m, by omega, hs, hbm, ?_⟩
      intro j h1 h2
      rcases Nat.lt_or_eq_of_le h2 with h | h
      · exact hsm j h1 (by omega)
      · subst h; simpa using hb

theorem findSome_range (f : ℕ → Option Key) (n k : ℕ) (hk : k < n) (v : Key) (hv : f k = some v)
    (hnone : ∀ i, i < k → f i = none) : (List.range n).findSome? f = some v := by
  induction n generalizing k f with
  | zero => omega
  | succ n ih =>
    rw [List.range_succ_eq_map, List.findSome?_cons]
    cases k with
    | zero => rw [hv]
    | succ k =>
      rw [hnone 0 (by omega)]
      rw [List.findSome?_map]
      exact ih (f ∘ Nat.succ) k (by omega) hv (fun i hi => hnone (i+1) (by omega))

/-- **main theorem: the matching loop assigns to every group exactly the source the rule names** — the group
    itself if it holds at least `min(10, all calibration units)` calibration units, otherwise its parent (state),
    otherwise all calibration units together; for every group structure and every number of key levels -/
theorem assign_eq_source (conf groups : List Key) (L : ℕ) (g : Key) (hg : g ∈ groups) (hlen : g.length = L) :
    assign (fitRows conf groups L) L g = some (source conf L g) := by
  obtain ⟨m, hm, hs, hbm, hsm⟩ := source_spec conf L g
  unfold assign
  apply findSome_range _ (L+1) (L - m) (by omega)
  · have : L - (L - m) = m := by omega
    rw [this, hs]
    have := fitRows_complete conf groups g hg L m hm hbm hsm
    simp [this]
  · intro i hi
    have hj : big conf (g.take (L - i)) = false := hsm (L - i) (by omega) (by omega)
    have : ¬ (g.take (L - i) ∈ fitRows conf groups L) := by
      intro hmem
      have := fitRows_big conf groups L _ hmem
      rw [hj] at this; cases this
    simp [this]

/-- a group with enough calibration units uses its own statistics -/
theorem source_own (conf : List Key) (L : ℕ) (g : Key) (hlen : g.length = L) (h : big conf g = true) :
    source conf L g = g := by
  cases L with
  | zero => simp [source]; exact List.length_eq_zero_iff.mp hlen
  | succ l =>
    unfold source
    have : g.take (l+1) = g := by rw [← hlen]; exact List.take_length
    rw [this, if_pos h]

/-- a group without enough calibration units uses its parent's (and so on up to all calibration units) -/
theorem source_parent (conf : List Key) (l : ℕ) (g : Key) (h : big conf (g.take (l+1)) = false) :
    source conf (l+1) g = source conf l g := by
  rw [source]; simp [h]

/-- **never a statistic of another group at the same level**: the source is a prefix of the group's own key -/
theorem assign_not_sibling (conf : List Key) (L : ℕ) (g : Key) (hlen : g.length = L)
    (h : (source conf L g).length = L) : source conf L g = g := by
  obtain ⟨m, hm, hs, _, _⟩ := source_spec conf L g
  rw [hs] at h ⊢
  have : m = L := by
    rw [List.length_take] at h
    omega
  subst this
  rw [← hlen]; exact List.take_length

/-- the source always holds at least the threshold number of calibration units (so its statistics exist) -/
theorem source_big (conf : List Key) (L : ℕ) (g : Key) : big conf (source conf L g) = true := by
  obtain ⟨m, _, hs, hb, _⟩ := source_spec conf L g
  rw [hs]; exact hb

/-- the model frame has no duplicate rows, so each merge of the loop matches at most one model per group:
    **exactly one interval per group** -/
theorem fitRows_nodup (conf groups : List Key) (L : ℕ) (hL : ∀ g ∈ groups, g.length = L) (l : ℕ) (hl : l ≤ L) :
    (fitRows conf groups l).Nodup := by
  induction l with
  | zero => simp [fitRows]
  | succ l ih =>
    unfold fitRows
    split
    · exact dedup_nodup _
    · refine List.nodup_append.mpr ⟨ih (by omega), (dedup_nodup _).filter _, ?_⟩
      intro a ha b hb hab
      subst hab
      have h1 := fitRows_len conf groups l a ha
      obtain ⟨g, hg, hgt⟩ := (mem_level groups (l+1) a).mp (List.mem_filter.mp hb).1
      have : a.length = l + 1 := by
        rw [← hgt, List.length_take, hL g hg]; omega
      omega

/-! ### non-vacuity: two states; a county with 10 calibration units, one with 3, one only among nonreporting units;
    a state with fewer than 10 calibration units overall -/
def exConf : List Key :=
  List.replicate 10 [0, 0] ++ List.replicate 3 [0, 1] ++ List.replicate 4 [1, 0]
def exGroups : List Key := [[0, 0], [0, 1], [0, 2], [1, 0], [1, 1]]

example : fitRows exConf exGroups 2 = [[], [0], [0, 0]] := by decide
example : exGroups.map (assign (fitRows exConf exGroups 2) 2) =
    [some [0, 0], some [0], some [0], some [], some []] := by decide
example : exGroups.map (source exConf 2) = [[0, 0], [0], [0], [], []] := by decide

end ElexModel.Gauss

/-! ### bridge: `GaussianModel.fit` and the matching loop as they are in `/repo/src` on this run -/

namespace ElexModel.Gauss
open ElexModel

/-- `MODEL_THRESHOLD = min(10, n_conformalization_data)` -/
theorem bridge_threshold (conf : List Key) : ((thr conf : ℕ) : ℚ) = Gen.C15.model_threshold (conf.length : ℚ) := by
  unfold thr Gen.C15.model_threshold
  rw [rmin_eq]
  push_cast
  simp

/-- a group keeps its own model iff the source's fallback test is false for its count -/
theorem bridge_big (conf : List Key) (p : Key) :
    big conf p = !Gen.C15.falls_back (cnt conf p : ℚ) (thr conf : ℚ) := by
  unfold big Gen.C15.falls_back
  by_cases h : thr conf ≤ cnt conf p
  · have : ¬ ((cnt conf p : ℚ) < (thr conf : ℚ)) := by
      have : ((thr conf : ℕ) : ℚ) ≤ (cnt conf p : ℚ) := by exact_mod_cast h
      linarith
    simp [h, this]
  · have : ((cnt conf p : ℚ) < (thr conf : ℚ)) := by
      have : cnt conf p < thr conf := by omega
      exact_mod_cast this
    simp [h, this]

theorem bridge_quantile (alpha : ℚ) : Gen.C15.gauss_quantile alpha = (3 + alpha) / 4 := rfl

/-- the recursion (coarser fit with one key column less + own fit of the large groups, in this order), the `>=` query, the
    group counts over calibration ∪ nonreporting groups, the matching loop, and the final chains -/
theorem bridge_shape :
    Gen.C15.unresidualize_chain = ["last_election", "merge(modeled_bounds, how='inner', on=aggregate)", "assign(predicted_lower, predicted_upper)", "drop(columns=f'last_election_results_{estimand}')"] ∧
    Gen.C15.total_chain = ["aggregate_votes", "merge(aggregate_prediction_intervals, how='outer', on=aggregate)", "fillna({f'results_{estimand}': 0, 'predicted_lower': 0, 'predicted_upper': 0})", "assign(lower, upper)", "sort_values(aggregate)", "[aggregate + ['lower', 'upper']]", "reset_index(drop=True)"] ∧
    Gen.C15.gauss_returned = ["PredictionIntervals(aggregate_data.lower.round(decimals=0), aggregate_data.upper.round(decimals=0))"] ∧
    Gen.C15.no_nonreporting = ["nonreporting_units.shape[0] == 0 -> return (aggregate_votes[f'results_{estimand}'], aggregate_votes[f'results_{estimand}'])"] ∧
    Gen.C15.matching_loop = ["for i in range(1, len(aggregate) + 1)", "last_i_aggregate = aggregate[len(aggregate) - i:]", "remaining_models_idx = pd.isnull(gaussian_model[last_i_aggregate]).all(axis=1)", "remaining_models = gaussian_model[remaining_models_idx].reset_index(drop=True)", "remaining_models.drop(columns=last_i_aggregate, inplace=True)", "previous_aggregate = aggregate[:len(aggregate) - i + 1]", "next_aggregate = previous_aggregate[:-1]", "remaining_bounds_idx = bounds.merge(modeled_bounds, how='left', on=aggregate, indicator=True).query('_merge != 'both'').index", "remaining_bounds = bounds.iloc[remaining_bounds_idx].reset_index(drop=True)", "if len(next_aggregate) == 0: remaining_bounds_w_models = remaining_bounds.merge(remaining_models, how='cross') else: remaining_bounds_w_models = remaining_bounds.merge(remaining_models, how='inner', on=next_aggregate)", "modeled_bounds = pd.concat([modeled_bounds, remaining_bounds_w_models])"] ∧
    Gen.C15.first_match = ["bounds.merge(gaussian_model, how='inner', on=aggregate)"] ∧
    Gen.C15.fit_call = ["conformalization_data", "reporting_units", "nonreporting_units", "estimand", "aggregate=aggregate", "alpha=alpha", "reweight=False", "top_level=True"] ∧
    Gen.C15.recursive_fits = ["conformalization_data; reporting_units; nonreporting_units; estimand; aggregate=aggregate[:-1]; alpha=alpha; reweight=reweight; top_level=False", "conformalization_data_for_large_groups; reporting_units_for_large_groups; nonreporting_units_for_large_groups; estimand; aggregate=aggregate; alpha=alpha; reweight=reweight; top_level=False"] ∧
    Gen.C15.large_group_query = ["'n >= @MODEL_THRESHOLD'"] ∧
    Gen.C15.combine = ["pd.concat([gaussian_model_small_groups, gaussian_model_large_groups]).reset_index(drop=True)", "x = self._fit(conformalization_data, estimand, aggregate, alpha)"] ∧
    Gen.C15.empty_calibration = ["n_conformalization_data == 0 -> return self._empty_gaussian_model(conformalization_data, aggregate)"] ∧
    Gen.C15.group_counts = ["if not aggregate:     return {'n': conformalization_data.shape[0]}", "conformalization_counts = conformalization_data.groupby(aggregate).size().reset_index(name='n')", "return nonreporting_units.groupby(aggregate).size().reset_index(drop=False).drop(columns=0).merge(conformalization_counts, how='outer', on=aggregate).fillna({'n': 0})"] :=
  ⟨rfl, rfl, rfl, rfl, rfl, rfl, rfl, rfl, rfl, rfl, rfl, rfl⟩

end ElexModel.Gauss

/-! ### the recursive fit with the source's own decisions

`fitRowsSrc` is the recursion skeleton of `GaussianModel.fit` with its two decisions — "does any group fall short of the threshold"
(`np.min(counts["n"]) < MODEL_THRESHOLD`) and "which groups are large enough" (`n >= @MODEL_THRESHOLD`) — and the threshold itself
taken from the regenerated source terms. It is proved equal to the model `fitRows`, so the main theorem holds for it. -/

namespace ElexModel.Gauss
open ElexModel

/-- `np.min(counts["n"])` over the groups of a level -/
def minCount (conf : List Key) : List Key → ℕ
  | [] => 0
  | [p] => cnt conf p
  | p :: t => min (cnt conf p) (minCount conf t)

/-- the fallback test of the source on a level -/
def fallsBackSrc (conf : List Key) (lv : List Key) : Bool :=
  Gen.C15.falls_back (minCount conf lv : ℚ) (Gen.C15.model_threshold (conf.length : ℚ))

/-- the `n >= @MODEL_THRESHOLD` query of the source on one group -/
def largeSrc (conf : List Key) (p : Key) : Bool :=
  !Gen.C15.falls_back (cnt conf p : ℚ) (Gen.C15.model_threshold (conf.length : ℚ))

def fitRowsSrc (conf groups : List Key) : ℕ → List Key
  | 0 => [[]]
  | l+1 =>
    if (level groups (l+1)) ≠ [] ∧ fallsBackSrc conf (level groups (l+1)) then
      fitRowsSrc conf groups l ++ (level groups (l+1)).filter (largeSrc conf)
    else level groups (l+1)

theorem largeSrc_eq (conf : List Key) : largeSrc conf = big conf := by
  funext p
  unfold largeSrc
  rw [← bridge_threshold, ← bridge_big]

theorem minCount_lt_iff (conf : List Key) (lv : List Key) (hne : lv ≠ []) (t : ℕ) :
    minCount conf lv < t ↔ ∃ p ∈ lv, cnt conf p < t := by
  induction lv with
  | nil => exact absurd rfl hne
  | cons p tl ih =>
    cases tl with
    | nil => simp [minCount]
    | cons q tl' =>
      have := ih (by simp)
      simp only [minCount, min_lt_iff, this, List.mem_cons]
      constructor
      · rintro (h | ⟨x, hx, hlt⟩)
        · exact ⟨p, Or.inl rfl, h⟩
        · exact ⟨x, Or.inr hx, hlt⟩
      · rintro ⟨x, hx | hx, hlt⟩
        · exact Or.inl (hx ▸ hlt)
        · exact Or.inr ⟨x, hx, hlt⟩

theorem fallsBackSrc_iff (conf : List Key) (lv : List Key) (hne : lv ≠ []) :
    fallsBackSrc conf lv = true ↔ ¬ (lv.all (big conf) = true) := by
  unfold fallsBackSrc Gen.C15.falls_back
  rw [← bridge_threshold]
  have h1 : (decide ((minCount conf lv : ℚ) < ((thr conf : ℕ) : ℚ)) = true) ↔ minCount conf lv < thr conf := by
    rw [decide_eq_true_iff]; exact_mod_cast Iff.rfl
  rw [h1, minCount_lt_iff conf lv hne]
  simp only [List.all_eq_true, big, decide_eq_true_eq, not_forall, not_le]
  constructor
  · rintro ⟨p, hp, h⟩; exact ⟨p, hp, h⟩
  · rintro ⟨p, hp, h⟩; exact ⟨p, hp, h⟩

theorem fitRowsSrc_eq (conf groups : List Key) (l : ℕ) : fitRowsSrc conf groups l = fitRows conf groups l := by
  induction l with
  | zero => rfl
  | succ l ih =>
    unfold fitRowsSrc fitRows
    rw [ih, largeSrc_eq]
    by_cases hne : level groups (l+1) = []
    · simp [hne]
    · by_cases hall : (level groups (l+1)).all (big conf) = true
      · have : ¬ (fallsBackSrc conf (level groups (l+1)) = true) := by
          rw [fallsBackSrc_iff conf _ hne]; exact not_not.mpr hall
        simp [hne, hall, this]
      · have : fallsBackSrc conf (level groups (l+1)) = true := (fallsBackSrc_iff conf _ hne).mpr hall
        simp [hne, hall, this]

/-- **C15 on the source**: with the threshold, the fallback test and the large-group query as they are written in `/repo/src` today,
    the matching loop assigns to every group exactly the source the rule names -/
theorem source_assign_eq_source (conf groups : List Key) (L : ℕ) (g : Key) (hg : g ∈ groups) (hlen : g.length = L) :
    assign (fitRowsSrc conf groups L) L g = some (source conf L g) := by
  rw [fitRowsSrc_eq]; exact assign_eq_source conf groups L g hg hlen

end ElexModel.Gauss

/-! ### the calibration statistics: `weighted_median`, `compute_inflate` -/

namespace ElexModel.MathUtils
open ElexModel

/-- `compute_inflate` as written in the source is Σx² / (Σx)² -/
theorem bridge_inflate (xs : List ℚ) :
    Gen.C15.compute_inflate (sumR (xs.map (fun x => x * x))) (sumR xs) = inflate xs := rfl

/-- the steps of `weighted_median` that `wmedian` models (sort by value, running weights, the smallest value if it alone exceeds
    one half, else the element after the last running weight `≤ ½`, or the midpoint when that running weight is exactly `½`), and the
    arguments the gaussian fit calls the statistics with (baseline-normalised weights, per group) -/
theorem bridge_statistics_shape :
    Gen.C15.weighted_median_steps = ["indices_sorted = np.argsort(x)", "x_sorted = x[indices_sorted]", "weights_sorted = weights[indices_sorted]", "weights_cumulative = np.cumsum(weights_sorted)", "if weights_cumulative[0] > 0.5:     LOG.warning('Warning: smallest x-value is greater than or equal to half the weight')     return x_sorted[0]", "median_index = np.where(weights_cumulative <= 0.5)[0][-1]", "if weights_cumulative[median_index] == 0.5:     lower = x_sorted[median_index]     upper = x_sorted[median_index + 1]     return (lower + upper) / 2", "return x_sorted[median_index + 1]"] ∧
    Gen.C15.calibration_statistics = ["math_utils.compute_inflate(x[f'last_election_results_{estimand}'])", "math_utils.weighted_median(x.lower_bounds.values, (x[f'last_election_results_{estimand}'] / np.sum(x[f'last_election_results_{estimand}'])).to_numpy())", "math_utils.weighted_median(x.upper_bounds.values, (x[f'last_election_results_{estimand}'] / np.sum(x[f'last_election_results_{estimand}'])).to_numpy())", "math_utils.boot_sigma(x.lower_bounds.values, conf=(3 + alpha) / 4, winsorize=self.winsorize, seed=self.seed)", "math_utils.boot_sigma(x.upper_bounds.values, conf=(3 + alpha) / 4, winsorize=self.winsorize, seed=self.seed)"] :=
  ⟨rfl, rfl⟩

/-! kernel-checked examples of the model (each also runs against the implementation in the correspondence) -/
example : wmedian [(3, 1/4), (1, 1/4), (2, 1/2)] = some 2 := by decide +kernel
example : wmedian [(3, 1/4), (1, 1/2), (2, 1/4)] = some (3/2) := by decide +kernel     -- running weight exactly ½: midpoint
example : wmedian [(1, 3/4), (2, 1/4)] = some 1 := by decide +kernel                   -- the smallest value alone exceeds ½
example : wmedian [(1, 1/2), (2, 0), (3, 1/2)] = some (5/2) := by decide +kernel       -- the *last* running weight ≤ ½ counts
example : inflate [1, 1, 2] = 6 / 16 := by decide +kernel

end ElexModel.MathUtils

/-! ### `weighted_median` returns a weighted median -/

namespace ElexModel.MathUtils
open ElexModel ElexModel.Conformal

/-- weight of the values strictly below / strictly above `m` -/
def wStrictBelow (m : ℚ) : List (ℚ × ℚ) → ℚ
  | [] => 0
  | (x, w) :: t => (if x < m then w else 0) + wStrictBelow m t
def wStrictAbove (m : ℚ) : List (ℚ × ℚ) → ℚ
  | [] => 0
  | (x, w) :: t => (if m < x then w else 0) + wStrictAbove m t

theorem wStrictBelow_le_wTot (m : ℚ) (l : List (ℚ × ℚ)) (hw : ∀ p ∈ l, 0 ≤ p.2) : wStrictBelow m l ≤ wTot l := by
  induction l with
  | nil => simp [wStrictBelow, wTot]
  | cons p t ih =>
    obtain ⟨x, w⟩ := p
    have := ih (fun q hq => hw q (List.mem_cons_of_mem _ hq))
    have hw0 : 0 ≤ w := hw (x, w) (by simp)
    simp only [wStrictBelow, wTot]
    split <;> linarith

theorem wStrictAbove_le_wTot (m : ℚ) (l : List (ℚ × ℚ)) (hw : ∀ p ∈ l, 0 ≤ p.2) : wStrictAbove m l ≤ wTot l := by
  induction l with
  | nil => simp [wStrictAbove, wTot]
  | cons p t ih =>
    obtain ⟨x, w⟩ := p
    have := ih (fun q hq => hw q (List.mem_cons_of_mem _ hq))
    have hw0 : 0 ≤ w := hw (x, w) (by simp)
    simp only [wStrictAbove, wTot]
    split <;> linarith

theorem wStrictBelow_zero_of_ge (m : ℚ) (l : List (ℚ × ℚ)) (h : ∀ p ∈ l, m ≤ p.1) : wStrictBelow m l = 0 := by
  induction l with
  | nil => rfl
  | cons p t ih =>
    obtain ⟨x, w⟩ := p
    have hx : ¬ x < m := not_lt.mpr (h (x, w) (by simp))
    simp [wStrictBelow, hx, ih (fun q hq => h q (List.mem_cons_of_mem _ hq))]

theorem wStrictAbove_zero_of_le (m : ℚ) (l : List (ℚ × ℚ)) (h : ∀ p ∈ l, p.1 ≤ m) : wStrictAbove m l = 0 := by
  induction l with
  | nil => rfl
  | cons p t ih =>
    obtain ⟨x, w⟩ := p
    have hx : ¬ m < x := not_lt.mpr (h (x, w) (by simp))
    simp [wStrictAbove, hx, ih (fun q hq => h q (List.mem_cons_of_mem _ hq))]

/-- specification of `lastHalf` on a sorted list with non-negative weights: the list splits at the selected element; everything
    up to and including it weighs `a − acc ≤ 1/2 − acc`, and with the next element the running weight exceeds one half -/
theorem lastHalf_spec (acc : ℚ) (s : List (ℚ × ℚ)) (hw : ∀ p ∈ s, 0 ≤ p.2) (x a : ℚ) (onx : Option ℚ)
    (h : lastHalf acc s = some (x, a, onx)) :
    ∃ pre w post, s = pre ++ (x, w) :: post ∧ a = acc + wTot pre + w ∧ a ≤ 1/2 ∧ onx = post.head?.map Prod.fst ∧
      (∀ y wy rest, post = (y, wy) :: rest → 1/2 < a + wy) := by
  induction s generalizing acc with
  | nil => simp [lastHalf] at h
  | cons p t ih =>
    obtain ⟨x', w'⟩ := p
    have hwt : ∀ p ∈ t, 0 ≤ p.2 := fun q hq => hw q (List.mem_cons_of_mem _ hq)
    unfold lastHalf at h
    cases hrec : lastHalf (acc + w') t with
    | some r =>
      rw [hrec] at h
      simp only [Option.some.injEq] at h
      subst h
      obtain ⟨pre, w, post, hs, ha, hle, hnx, hnext⟩ := ih (acc + w') hwt hrec
      exact ⟨(x', w') :: pre, w, post, by rw [hs]; rfl, by rw [ha]; simp [wTot]; ring, hle, hnx, hnext⟩
    | none =>
      rw [hrec] at h
      by_cases hc : acc + w' ≤ 1/2
      · simp only [hc, if_true, Option.some.injEq, Prod.mk.injEq] at h
        obtain ⟨rfl, rfl, rfl⟩ := h
        refine ⟨[], w', t, rfl, by simp [wTot], hc, rfl, ?_⟩
        intro y wy rest hpost
        subst hpost
        -- the recursive call on (y, wy) :: rest returned none, so acc + w' + wy > 1/2
        unfold lastHalf at hrec
        cases hrec2 : lastHalf (acc + w' + wy) rest with
        | some r => rw [hrec2] at hrec; simp at hrec
        | none =>
          rw [hrec2] at hrec
          by_contra hcon
          have : acc + w' + wy ≤ 1/2 := not_lt.mp hcon
          simp at hrec
          linarith
      · rw [if_neg hc] at h; exact absurd h (by simp)

theorem wStrictBelow_append (m : ℚ) (a b : List (ℚ × ℚ)) : wStrictBelow m (a ++ b) = wStrictBelow m a + wStrictBelow m b := by
  induction a with
  | nil => simp [wStrictBelow]
  | cons p t ih => obtain ⟨x, w⟩ := p; simp only [List.cons_append, wStrictBelow, ih]; ring

theorem wStrictAbove_append (m : ℚ) (a b : List (ℚ × ℚ)) : wStrictAbove m (a ++ b) = wStrictAbove m a + wStrictAbove m b := by
  induction a with
  | nil => simp [wStrictAbove]
  | cons p t ih => obtain ⟨x, w⟩ := p; simp only [List.cons_append, wStrictAbove, ih]; ring

theorem wTot_append_split (a b : List (ℚ × ℚ)) : wTot (a ++ b) = wTot a + wTot b := by
  induction a with
  | nil => simp [wTot]
  | cons p t ih => obtain ⟨x, w⟩ := p; simp only [List.cons_append, wTot, ih]; ring

/-- **`weighted_median` returns a weighted median**: for values sorted increasingly with non-negative weights that sum to one, at
    most half of the weight lies strictly below the result and at most half strictly above it — in each of its three branches (the
    smallest value alone outweighs the rest; a running weight of exactly one half: the midpoint; otherwise the next value) -/
theorem wmedianSorted_is_median (s : List (ℚ × ℚ)) (hs : s.Pairwise (fun a b => a.1 ≤ b.1)) (hw : ∀ p ∈ s, 0 ≤ p.2)
    (hsum : wTot s = 1) (m : ℚ) (h : wmedianSorted s = some m) : wStrictBelow m s ≤ 1/2 ∧ wStrictAbove m s ≤ 1/2 := by
  cases s with
  | nil => simp [wmedianSorted] at h
  | cons p t =>
    obtain ⟨x0, w0⟩ := p
    have hs' := List.pairwise_cons.mp hs
    have hwt : ∀ p ∈ t, 0 ≤ p.2 := fun q hq => hw q (List.mem_cons_of_mem _ hq)
    unfold wmedianSorted at h
    dsimp only at h
    by_cases h0 : 1/2 < w0
    · simp only [h0, if_true, Option.some.injEq] at h
      subst h
      have hge : ∀ q ∈ t, x0 ≤ q.1 := fun q hq => hs'.1 q hq
      have h1 : wStrictBelow x0 t = 0 := wStrictBelow_zero_of_ge x0 t hge
      have h2 := wStrictAbove_le_wTot x0 t hwt
      simp only [wTot] at hsum
      simp only [wStrictBelow, wStrictAbove, lt_irrefl, if_false, h1]
      constructor <;> linarith
    · rw [if_neg h0] at h
      cases hl : lastHalf 0 ((x0, w0) :: t) with
      | none => rw [hl] at h; simp at h
      | some r =>
        obtain ⟨x, a, onx⟩ := r
        rw [hl] at h
        obtain ⟨pre, w, post, hsplit, ha, hle, hnx, hnext⟩ := lastHalf_spec 0 _ hw x a onx hl
        cases post with
        | nil => subst hnx; simp at h
        | cons q rest =>
          obtain ⟨nx, wy⟩ := q
          have hnx' : onx = some nx := by rw [hnx]; rfl
          subst hnx'
          have hgt := hnext nx wy rest rfl
          -- order facts from sortedness
          rw [hsplit] at hs hw hsum
          rw [hsplit]
          have hsorted := List.pairwise_append.mp hs
          have hpre_le : ∀ q ∈ pre, q.1 ≤ x := fun q hq => hsorted.2.2 q hq (x, w) (by simp)
          have hmid := List.pairwise_cons.mp hsorted.2.1
          have hx_nx : x ≤ nx := hmid.1 (nx, wy) (by simp)
          have hpost := List.pairwise_cons.mp hmid.2
          have hrest_ge : ∀ q ∈ rest, nx ≤ q.1 := fun q hq => hpost.1 q hq
          have hwpre : ∀ q ∈ pre, 0 ≤ q.2 := fun q hq => hw q (by simp [hq])
          have hwrest : ∀ q ∈ rest, 0 ≤ q.2 := fun q hq => hw q (by simp [hq])
          have hw_x : 0 ≤ w := hw (x, w) (by simp)
          have hw_y : 0 ≤ wy := hw (nx, wy) (by simp)
          simp only [wTot_append_split, wTot] at hsum
          simp only [zero_add] at ha
          have key : ∀ m', x ≤ m' → m' ≤ nx →
              wStrictBelow m' (pre ++ (x, w) :: (nx, wy) :: rest) ≤ a ∧
              wStrictAbove m' (pre ++ (x, w) :: (nx, wy) :: rest) ≤ (if m' < nx then wy else 0) + wTot rest := by
            intro m' h1 h2
            rw [wStrictBelow_append, wStrictAbove_append]
            have e1 : wStrictAbove m' pre = 0 := wStrictAbove_zero_of_le m' pre (fun q hq => le_trans (hpre_le q hq) h1)
            have e2 : wStrictBelow m' rest = 0 := wStrictBelow_zero_of_ge m' rest (fun q hq => le_trans h2 (hrest_ge q hq))
            have e3 := wStrictBelow_le_wTot m' pre hwpre
            have e4 := wStrictAbove_le_wTot m' rest hwrest
            simp only [wStrictBelow, wStrictAbove, e1, e2]
            have hx1 : ¬ m' < x := not_lt.mpr h1
            have hn1 : ¬ nx < m' := not_lt.mpr h2
            simp only [hx1, hn1, if_false]
            constructor
            · split <;> linarith
            · linarith
          by_cases hhalf : a = 1/2
          · simp only [hhalf, if_true, Option.some.injEq] at h
            subst h
            have := key ((x + nx) / 2) (by linarith) (by linarith)
            constructor
            · linarith [this.1]
            · have h3 := this.2
              split at h3 <;> linarith
          · simp only [hhalf, if_false, Option.some.injEq] at h
            subst h
            have := key nx hx_nx le_rfl
            constructor
            · linarith [this.1]
            · have h3 := this.2
              simp only [lt_irrefl, if_false] at h3
              linarith

theorem wStrictBelow_perm (m : ℚ) {l₁ l₂ : List (ℚ × ℚ)} (h : l₁.Perm l₂) : wStrictBelow m l₁ = wStrictBelow m l₂ := by
  induction h with
  | nil => rfl
  | cons p _ ih => obtain ⟨x, w⟩ := p; simp only [wStrictBelow, ih]
  | swap p q l => obtain ⟨x, w⟩ := p; obtain ⟨y, v⟩ := q; simp only [wStrictBelow]; ring
  | trans _ _ ih₁ ih₂ => exact ih₁.trans ih₂

theorem wStrictAbove_perm (m : ℚ) {l₁ l₂ : List (ℚ × ℚ)} (h : l₁.Perm l₂) : wStrictAbove m l₁ = wStrictAbove m l₂ := by
  induction h with
  | nil => rfl
  | cons p _ ih => obtain ⟨x, w⟩ := p; simp only [wStrictAbove, ih]
  | swap p q l => obtain ⟨x, w⟩ := p; obtain ⟨y, v⟩ := q; simp only [wStrictAbove]; ring
  | trans _ _ ih₁ ih₂ => exact ih₁.trans ih₂

/-- **the centre of a calibration group is a weighted median of its bounds**: for any values with non-negative weights that sum to
    one (the gaussian fit passes baseline weights normalised by their sum), in whatever order they are given -/
theorem wmedian_is_median (xw : List (ℚ × ℚ)) (hw : ∀ p ∈ xw, 0 ≤ p.2) (hsum : wTot xw = 1) (m : ℚ)
    (h : wmedian xw = some m) : wStrictBelow m xw ≤ 1/2 ∧ wStrictAbove m xw ≤ 1/2 := by
  unfold wmedian at h
  have hp := sortS_perm xw
  have := wmedianSorted_is_median (sortS xw) (sortS_sorted xw) (fun p hp' => hw p (hp.mem_iff.mp hp'))
    (by rw [wTot_perm hp]; exact hsum) m h
  rw [wStrictBelow_perm m hp, wStrictAbove_perm m hp] at this
  exact this

end ElexModel.MathUtils
