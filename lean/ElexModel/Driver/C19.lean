import ElexModel.Driver.Util
import ElexModel.Core.S3

open Lean ElexModel.Driver

namespace ElexModel.Driver.C19
open ElexModel.S3

def verOfJson (j : Json) : Except String Ver := do
  match ← arrOfJson j with
  | [t, i] => pure ⟨← intOfJson t, ← natOfJson i⟩
  | _ => throw "version = [ts, id]"

def verToJson (v : Ver) : Json := Json.arr #[intToJson v.ts, natToJson v.id]

/-- ops: `c19.list` {k, start, end, hist} ; `c19.get` {k, start, end, sample, failing, hist} -/
def run (op : String) (j : Json) : Except String Json := do
  let k ← natOfJson (← field j "k")
  let s ← optOf intOfJson (fieldD j "start" Json.null)
  let e ← optOf intOfJson (fieldD j "end" Json.null)
  let hist ← listOf verOfJson (← field j "hist")
  match op with
  | "c19.list" => pure (listToJson verToJson (listVersions k s e hist.length hist))
  | "c19.get" =>
    let sample ← natOfJson (← field j "sample")
    let failing ← listOf natOfJson (← field j "failing")
    pure (optToJson (listToJson verToJson) (get k s e sample failing hist))
  | _ => throw s!"unknown op {op}"

end ElexModel.Driver.C19
