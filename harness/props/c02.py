"""C02 - every aggregate equals the sum of its units; levels agree with each other."""
from harness import extract as X
from harness.props import _api_common as K
from harness.props import c01

PROP = "C02"
MODULES = ["ElexModel.Props.C02"]
DRIVER_TARGETS = ["ElexModel.Driver.Units"]
TRUSTED = c01.TRUSTED + [
    "bootstrap: the stage-level diff of aggregate predictions / turnout / interval alignment is carried by the C06 check "
    "(same model, lean/ElexModel/Core/BootAgg.lean); here the identities are evaluated on full API runs",
]
ASSUMPTIONS = [
    "count estimands for the sum identities; bootstrap identities hold before any race-call adjustment (no calls in these runs)",
    "PostalFixedWidth: two-letter postal codes, so pandas' tuple order and get_dummies' joined-string order agree",
]
RULE = c01.RULE + "; aggregate tables are recomputed from the implementation's unit table by the Lean model and compared exactly"


def extract(run):
    return X.generate("C02")


def explore(run, driver, budget):
    from harness.props import c11

    # one model object polled twice with different frames (a worker that keeps the model): the sums must be those of the second poll
    c11.model_reuse_stage(run, {"quick": 6, "thorough": 200, "search": 30}[budget], props=(PROP,))
    K.explore(run, driver, budget, PROP, RULE)
    # gaussian: interval columns on the row of their group - structures in which groups with a model of their own and fallback groups
    # interleave in sort order, outstanding units with high partial counts (a floor that lands on another row shows)
    from harness.props import c15

    c15.floor_stage(run, {"quick": 60, "thorough": 3000, "search": 400}[budget], PROP)


def replay(run, driver, payload):
    K.replay(run, driver, payload, PROP)
