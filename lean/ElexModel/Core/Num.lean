/-
Numbers shared by all model files (no Mathlib).

* `rhe` : numpy `round(decimals=0)` / python `round` tie rule — round half to even, on the exact value;
* `pyRound x k` : python `round(x, k)` — decimal half-even on the exact value of the float;
* `divz a b` : `np.nan_to_num(a / b)` for finite `a` — `0` when the denominator is `0`.
-/

namespace ElexModel

/-- round half to even -/
def rhe (x : Rat) : Int :=
  let f := x.floor
  let d := x - (f : Rat)
  if d < 1/2 then f
  else if 1/2 < d then f + 1
  else if f % 2 = 0 then f else f + 1

/-- python `round(x, k)` for `k ≥ 0` decimal places -/
def pyRound (x : Rat) (k : Nat) : Rat := (rhe (x * ((10 ^ k : Nat) : Rat)) : Rat) / ((10 ^ k : Nat) : Rat)

/-- `a / b`, and `0` when `b = 0` (what `np.nan_to_num(a / b, nan=0, posinf=0, neginf=0)` gives for finite `a`) -/
def divz (a b : Rat) : Rat := if b = 0 then 0 else a / b

def rmax (a b : Rat) : Rat := if a ≤ b then b else a
def rmin (a b : Rat) : Rat := if a ≤ b then a else b

def sumR : List Rat → Rat
  | [] => 0
  | x :: xs => x + sumR xs

def sumI : List Int → Int
  | [] => 0
  | x :: xs => x + sumI xs

/-- a numpy boolean used in arithmetic / `.astype(int)` -/
def boolToRat (b : Bool) : Rat := if b then 1 else 0

end ElexModel
