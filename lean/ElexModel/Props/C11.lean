import ElexModel.Props.C01
import ElexModel.Props.C03

/-!
# C11 — an unexpected unit only adds its own votes

Part 1 (`Units`): adding to the feed a row whose id is not in the baseline leaves the joined data — hence the
reporting, nonreporting and non-modelled frames and everything the estimators are fitted on — unchanged, and adds exactly
one unexpected row.  Part 2 (`Agg`): adding one unit to the third frame of an aggregate level changes the counted votes,
the prediction and both (nonparametric) bounds of exactly the group it is attributed to by exactly its votes, creates that
group if it did not exist, and changes nothing at a level that contains the county classification.
-/

namespace ElexModel.Units
open ElexModel

theorem findFeed_append_unrelated (b : Base) (feed : List Feed) (u : Feed) (h : u.id ≠ b.id) :
    findFeed b (feed ++ [u]) = findFeed b feed := by
  unfold findFeed
  rw [List.find?_append]
  have : List.find? (fun f => f.id == b.id && f.state == b.state) [u] = none := by
    simp [List.find?_cons, h]
  rw [this]; simp

/-- **the joined data do not change**: the extra feed row matches no baseline row -/
theorem dataRows_add_unexpected (p : Policy) (n : ℕ) (base : List Base) (feed : List Feed) (u : Feed)
    (hu : ∀ b ∈ base, u.id ≠ b.id) : dataRows p n base (feed ++ [u]) = dataRows p n base feed := by
  unfold dataRows
  apply List.filterMap_congr
  intro b hb
  unfold joinRow
  rw [findFeed_append_unrelated b feed u (hu b hb)]

theorem dedupFeed_append_new (l : List Feed) (u : Feed) (seen : List ℕ) (h1 : u.id ∉ seen) (h2 : u.id ∉ l.map (·.id)) :
    dedupFeed (l ++ [u]) seen = dedupFeed l seen ++ [u] := by
  induction l generalizing seen with
  | nil => simp [dedupFeed, h1]
  | cons f t ih =>
    have hf : u.id ≠ f.id := by intro e; apply h2; simp [e]
    have ht : u.id ∉ t.map (·.id) := fun h => h2 (by simp only [List.map_cons]; exact List.mem_cons_of_mem _ h)
    simp only [List.cons_append, dedupFeed]
    split
    · exact ih seen h1 ht
    · rw [ih (f.id :: seen) (by simp [hf, h1]) ht]; rfl

/-- **exactly one `unexpected` row is added, every other frame is untouched** -/
theorem split_add_unexpected (c : Cfg) (n : ℕ) (base : List Base) (feed : List Feed) (u : Feed)
    (hu : ∀ b ∈ base, u.id ≠ b.id) (hnew : u.id ∉ feed.map (·.id)) :
    (split c n base (feed ++ [u])).rep = (split c n base feed).rep ∧
    (split c n base (feed ++ [u])).nonrep = (split c n base feed).nonrep ∧
    (split c n base (feed ++ [u])).nonmod = (split c n base feed).nonmod ∧
    (split c n base (feed ++ [u])).unexp = (split c n base feed).unexp ++ [u] := by
  unfold split
  simp only [dataRows_add_unexpected c.policy n base feed u hu]
  refine ⟨trivial, trivial, trivial, ?_⟩
  unfold unexpectedFeed
  have hnot : u.id ∉ (dataRows c.policy n base feed).map (·.id) := by
    intro h
    have := (dataRows_ids_sublist c.policy n base feed).subset h
    obtain ⟨b, hb, hbid⟩ := List.mem_map.mp this
    exact hu b hb hbid.symm
  rw [List.filter_append]
  have : List.filter (fun f => !((dataRows c.policy n base feed).map (·.id)).contains f.id) [u] = [u] := by
    have hc : ((dataRows c.policy n base feed).map (·.id)).contains u.id = false := by
      rw [List.contains_eq_mem]; exact decide_eq_false hnot
    rw [List.filter_cons, hc]; rfl
  rw [this]
  apply dedupFeed_append_new
  · simp
  · intro h
    obtain ⟨f, hf, he⟩ := List.mem_map.mp h
    exact hnew (List.mem_map.mpr ⟨f, (List.mem_filter.mp hf).1, he⟩)

end ElexModel.Units

namespace ElexModel.Agg
open ElexModel ElexModel.Table

/-- value functions of an aggregate level: what the row of key `k` carries (and `0` if there is no such row) -/
def resultsAt (cls : Bool) (rep nonrep unexp : List U) (k : ℕ) : ℚ :=
  sumAt k (col (·.results) (attributable cls rep nonrep unexp))
def predAt (cls : Bool) (rep nonrep unexp : List U) (k : ℕ) : ℚ :=
  sumAt k (col (·.results) (counted cls rep unexp)) + sumAt k (col (·.pred) nonrep)
def lowerAt (cls : Bool) (rep nonrep unexp : List U) (k : ℕ) : ℚ :=
  sumAt k (col (·.lower) nonrep) + sumAt k (col (·.results) (counted cls rep unexp))
def upperAt (cls : Bool) (rep nonrep unexp : List U) (k : ℕ) : ℚ :=
  sumAt k (col (·.upper) nonrep) + sumAt k (col (·.results) (counted cls rep unexp))

/-- the rows of the tables are these value functions -/
theorem rows_are_values (cls : Bool) (rep nonrep unexp : List U) (row : AggRow) (h : row ∈ aggPred cls rep nonrep unexp) :
    row.results = resultsAt cls rep nonrep unexp row.key ∧ row.pred = predAt cls rep nonrep unexp row.key :=
  ⟨(agg_counted_is_sum cls rep nonrep unexp row h).1, agg_pred_is_sum cls rep nonrep unexp row h⟩

theorem sumAt_cons_u (k : ℕ) (f : U → ℚ) (u : U) (l : List U) :
    sumAt k (col f (u :: l)) = (if u.key = some k then f u else 0) + sumAt k (col f l) := by
  simp [col, sumAt]

theorem counted_cons (cls : Bool) (rep unexp : List U) (u : U) (k : ℕ) (f : U → ℚ) :
    sumAt k (col f (counted cls rep (u :: unexp))) =
      sumAt k (col f (counted cls rep unexp)) + (if cls = false ∧ u.key = some k then f u else 0) := by
  unfold counted
  cases cls
  · simp only [Bool.false_eq_true, if_false, col_append, sumAt_append, sumAt_cons_u, true_and]; ring
  · simp

/-- **the unit adds exactly its votes to the counted votes, the prediction and both bounds of the group it is attributed
    to — and to nothing else**; at a level containing the county classification nothing changes at all -/
theorem unexpected_adds_votes (cls : Bool) (rep nonrep unexp : List U) (u : U) (k : ℕ) :
    let d : ℚ := if cls = false ∧ u.key = some k then u.results else 0
    resultsAt cls rep nonrep (u :: unexp) k = resultsAt cls rep nonrep unexp k + d ∧
    predAt cls rep nonrep (u :: unexp) k = predAt cls rep nonrep unexp k + d ∧
    lowerAt cls rep nonrep (u :: unexp) k = lowerAt cls rep nonrep unexp k + d ∧
    upperAt cls rep nonrep (u :: unexp) k = upperAt cls rep nonrep unexp k + d := by
  intro d
  unfold resultsAt predAt lowerAt upperAt
  simp only [attributable_eq, counted_cons]
  refine ⟨by ring, by ring, by ring, by ring⟩

/-- every other group keeps every number -/
theorem other_groups_unchanged (cls : Bool) (rep nonrep unexp : List U) (u : U) (k : ℕ) (hk : u.key ≠ some k) :
    resultsAt cls rep nonrep (u :: unexp) k = resultsAt cls rep nonrep unexp k ∧
    predAt cls rep nonrep (u :: unexp) k = predAt cls rep nonrep unexp k ∧
    lowerAt cls rep nonrep (u :: unexp) k = lowerAt cls rep nonrep unexp k ∧
    upperAt cls rep nonrep (u :: unexp) k = upperAt cls rep nonrep unexp k := by
  unfold resultsAt predAt lowerAt upperAt
  simp only [attributable_eq, counted_cons, hk, and_false, if_false, add_zero]
  exact ⟨trivial, trivial, trivial, trivial⟩

/-- **a new group is created if its county or district had no baseline units; no other row appears or disappears** -/
theorem groups_after_unexpected (cls : Bool) (rep nonrep unexp : List U) (u : U) (k : ℕ) :
    k ∈ (aggPred cls rep nonrep (u :: unexp)).map (·.key) ↔
      k ∈ (aggPred cls rep nonrep unexp).map (·.key) ∨ (cls = false ∧ u.key = some k) := by
  rw [agg_row_exists_iff, agg_row_exists_iff]
  unfold attributable
  cases cls
  · simp only [Bool.false_eq_true, if_false, List.mem_append, List.mem_cons, true_and]
    constructor
    · rintro ⟨x, hx | (rfl | hx), hk⟩
      · exact Or.inl ⟨x, Or.inl hx, hk⟩
      · exact Or.inr hk
      · exact Or.inl ⟨x, Or.inr hx, hk⟩
    · rintro (⟨x, hx | hx, hk⟩ | hk)
      · exact ⟨x, Or.inl hx, hk⟩
      · exact ⟨x, Or.inr (Or.inr hx), hk⟩
      · exact ⟨u, Or.inr (Or.inl rfl), hk⟩
  · simp

/-- the tables carry whole numbers (sums of counts and of rounded unit bounds), on which the final rounding is the
    identity: the rounded nonparametric bounds move by exactly the unit's votes as well -/
theorem np_bounds_shift (x : ℤ) (v : ℤ) : rhe (((x : ℚ)) + (v : ℚ)) = rhe (x : ℚ) + v := by
  have : ((x : ℚ) + (v : ℚ)) = ((x + v : ℤ) : ℚ) := by push_cast; ring
  rw [this, rhe_int, rhe_int]

end ElexModel.Agg
