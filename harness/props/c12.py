"""C12 - estimates are a deterministic function of the arguments.

Histories: random sequences of estimate / national-summary calls with repeated argument sets on one client, on fresh clients, and
in fresh processes under different PYTHONHASHSEED values; tables are digested bit-for-bit (float.hex) and every pair of calls with
equal arguments must agree, as must the national summary after equal estimate runs (asked once or several times).
The Lean side: generator / client-state discipline, set-iteration independence of the aggregate list, and bridge lemmas to the list
of randomness sources re-read from source (all seeded, none at module level).
"""
import copy
import json
import os
import random
import shutil
import subprocess
import tempfile

import numpy as np
import pandas as pd

from harness import common as C
from harness import election as E
from harness import extract as X
from harness import pairs as P

PROP = "C12"
MODULES = ["ElexModel.Props.C12"]
DRIVER_TARGETS = ["ElexModel.Driver.Det"]
TRUSTED = [
    "bit-identical results are claimed on one machine / BLAS build; thread-count effects are not modelled (OMP threads pinned to 1)",
    "hash seeds and process freshness are runtime behaviour: exhibited by subprocess runs, modelled as a permutation of set iteration",
    "the static scan of randomness sources covers the modules reachable from get_estimates (list in harness/extract.py gen_C12)",
]
ASSUMPTIONS = ["equal arguments include equal seed settings", "extrapolation / S3-backed inputs are off"]
RULE = (
    "histories of 3-7 calls over 2-3 distinct argument sets (3 estimators, cross-validated lambda for bootstrap, summary with None / "
    "dict asked 1-3 times) on one client + fresh clients + 3 hash seeds in fresh processes; non-trivial = an argument set occurs at "
    "least twice with other calls in between; distinct = (election seed, history)"
)
CHILD = str(C.VERIF / "harness" / "impl" / "det_child.py")


def extract(run):
    return X.generate("C12")


def make_election(seed):
    rng = random.Random(seed)
    # three states: the bootstrap estimator then has several contests with a contest effect (their draws are sampled jointly)
    e = E.gen_election(rng, size="small", roles=["reporting"] * 6 + ["partial"] * 3 + ["zero-percent", "blocklisted", "third-party-heavy", "third-party-heavy"],
                       min_reporting=14, n_states=3)
    # early in the night: a unit that is not in the prepared data, in a county that is not there either, without a vote yet - an
    # aggregate group whose two-party turnout is exactly zero (its margin is 0 / 0, which the code maps to 0: equal runs, equal tables)
    r = E.unexpected_row(rng, e, e.pre.to_dict(orient="records"), kind="unknown-county", votes=(0, 0))
    if r["geographic_unit_fips"] not in set(e.cur["geographic_unit_fips"]):
        r["results_turnout"] = 0
        e.cur = pd.concat([e.cur, pd.DataFrame([r])], ignore_index=True)
    return e


def make_big_election(seed):
    """a district election with two states, districts of more than ten units and states with dozens of reporting units: district
    effects in the bootstrap model and per-group gaussian calibration (>= 10 calibration units per state) both take place"""
    rng = random.Random(seed + 17)
    return E.gen_election(rng, size="medium", district=True, roles=["reporting"] * 8 + ["partial"] * 2, min_reporting=90, n_states=2,
                          unexpected=False, n_districts=2, per_state_min=56)


def _limits(seed):
    """unit-selection parameters that only the "lim" argument set passes: turnout-factor limits that exclude a few (not many) reporting
    units of the election, a unit blocklist naming one more, another cut-off of the outlier models"""
    e = make_election(seed)
    m = e.cur.merge(e.pre[["geographic_unit_fips", "baseline_turnout"]], on="geographic_unit_fips")
    m = m[(m["percent_expected_vote"] >= e.threshold) & (m["baseline_turnout"] > 0)]
    tf = sorted((m["results_turnout"] / m["baseline_turnout"]).tolist())
    lo = (tf[1] + tf[2]) / 2 if len(tf) > 8 else 0.5
    hi = (tf[-2] + tf[-3]) / 2 if len(tf) > 8 else 2.0
    ids = m["geographic_unit_fips"].tolist()
    return {"turnout_factor_lower": float(lo), "turnout_factor_upper": float(hi), "unit_blocklist": ids[len(ids) // 2: len(ids) // 2 + 1],
            "outlier_z_threshold": 1.0}


def argsets(seed):
    rng = random.Random(seed + 1)
    return {
        "lim": dict(pi_method="nonparametric", estimands=["turnout"], alphas=[0.5], features=[], aggregates=["postal_code", "unit"],
                    params=_limits(seed)),
        "boD": dict(_election="big", pi_method="bootstrap", estimands=["margin"], alphas=[0.9], features=["baseline_normalized_margin"],
                    aggregates=["postal_code", "district", "unit"], params={"B": 6, "lambda_": 1.0}),
        "gaB": dict(_election="big", pi_method="gaussian", estimands=["turnout"], alphas=[0.7], features=[],
                    aggregates=["postal_code", "district"]),
        "np": dict(pi_method="nonparametric", estimands=["turnout", "dem"], alphas=[0.5, 0.7], features=["x1"],
                   aggregates=["postal_code", "county_fips", "unit"]),
        "ga": dict(pi_method="gaussian", estimands=["turnout"], alphas=[0.7, 0.9], features=[],
                   aggregates=["unit", "postal_code", "county_classification"]),
        "bo": dict(pi_method="bootstrap", estimands=["margin"], alphas=[0.5, 0.9], features=["baseline_normalized_margin"],
                   aggregates=["postal_code", "unit"], params={"B": 8}),  # lambda chosen by cross validation (rng.shuffle)
        "bo2": dict(pi_method="bootstrap", estimands=["margin"], alphas=[0.75], features=["baseline_normalized_margin"],
                    aggregates=["county_fips", "postal_code"], params={"B": 5, "lambda_": 2.0}),
    }


ALPHA_SETS = [[0.9, 0.99], [0.9], [0.7, 0.99], [0.5]]


def run_history(history, seed):
    """history: list of ["est", key] | ["nat", "none"|"dict", times]; returns list of digests (str)"""
    e = make_election(seed)
    big = []
    sets = argsets(seed)
    cl = E.client_mod().ModelClient()
    out = []
    last = None
    shared = {}

    def el_args(key):
        a = sets[key]
        if a.get("_election") == "big":
            if not big:
                big.append(make_big_election(seed))
            return big[0], {k: v for k, v in a.items() if not k.startswith("_")}
        return e, a

    for h in history:
        if h[0] == "est":
            el, a = el_args(h[1])
            r = E.run_client(el, client=cl, **a)
            out.append(P.digest(r["tables"]) if "tables" in r else "raises:" + r["raises"])
            last = h[1]
        elif h[0] == "other":
            # another election's run on the same client under the same election id (its own configuration, office, baseline):
            # whatever it leaves behind on the client must not reach the calls that follow
            rng2 = random.Random(seed + 7919)
            e2 = E.gen_election(rng2, size="small", district=True, roles=["reporting"] * 6 + ["partial"] * 2, min_reporting=10)
            r = E.run_client(e2, client=cl, pi_method="nonparametric", estimands=["turnout"], alphas=[0.5], features=[],
                             aggregates=["postal_code", "unit"])
            r2 = E.run_client(e2, pi_method="nonparametric", estimands=["turnout"], alphas=[0.5], features=[],
                              aggregates=["postal_code", "unit"])
            dg = lambda x: P.digest(x["tables"]) if "tables" in x else "raises:" + x["raises"]  # noqa: E731
            out.append("other:" + dg(r) + "|fresh:" + dg(r2))
            last = None     # the client's last estimate run is now this one: a summary asked next is a question about it
        elif h[0] == "fresh":
            el, a = el_args(h[1])
            r = E.run_client(el, **a)
            out.append(P.digest(r["tables"]) if "tables" in r else "raises:" + r["raises"])
        elif h[0] == "shared":
            # a caller that keeps ONE baseline frame, ONE configuration object and ONE feed frame and passes them to every call
            el, a = el_args(h[1])
            if not shared:
                shared.update(pre=e.pre.copy(), cfg=e.config(), cur=e.cur.copy())
            el2 = copy.copy(el)
            el2.cur = shared["cur"]
            r = E.run_client(el2, reuse_feed=True, extra={"preprocessed_data": shared["pre"], "raw_config": shared["cfg"]}, **a)
            out.append(P.digest(r["tables"]) if "tables" in r else "raises:" + r["raises"])
        elif h[0] == "cached":
            # the baseline is read from the local copy (preprocessed_data not passed): first a pristine copy, then the copy that a run
            # of argument set h[2] with save_output=['data'] leaves there.  Equal arguments both times.
            el, a = el_args(h[1])
            _, saver = el_args(h[2])
            cwd = os.getcwd()
            work = tempfile.mkdtemp(prefix="c12_cache_")
            dg = lambda x: P.digest(x["tables"]) if "tables" in x else "raises:" + x["raises"]  # noqa: E731
            try:
                os.chdir(work)
                path = os.path.join(work, "data", E.ELECTION_ID, el.office, f"data_{el.unit_type}.csv")
                os.makedirs(os.path.dirname(path))
                el.pre.to_csv(path, index=False)
                d1 = dg(E.run_client(el, extra={"preprocessed_data": None}, **a))
                E.run_client(el, extra={"preprocessed_data": None, "save_output": ["data"]}, **saver)
                d2 = dg(E.run_client(el, extra={"preprocessed_data": None}, **a))
            finally:
                os.chdir(cwd)
                shutil.rmtree(work, ignore_errors=True)
            out.append("cached:" + d1 + "|" + d2)
        else:
            d = None if h[1] == "none" else {s: 3 + i for i, s in enumerate(sorted(set(e.states) | set(e.cur["postal_code"])))}
            alphas = ALPHA_SETS[h[3]] if len(h) > 3 else [0.9, 0.99]
            res = []

            def ask(client):
                try:
                    with np.errstate(all="ignore"):
                        df = client.get_national_summary_votes_estimates(d, 10, alphas)
                    return P.digest({"nat": df})
                except Exception as ex:
                    return "raises:" + type(ex).__name__

            for _ in range(h[2]):
                res.append(ask(cl))
            if len(h) > 3 and last is not None:
                # reference: a client that did nothing but the last estimate run and this one question
                el, a = el_args(last)
                r = E.run_client(el, keep_client=True, **a)
                res.append(ask(r["client"]) if "client" in r and "tables" in r else res[0])
            out.append("|".join(res))
    return out


def gen_history(rng, other=None, big=False):
    keys = rng.sample(["np", "ga", "bo", "bo2"], rng.choice([2, 3]))
    if not any(k in keys for k in ("bo", "bo2")):
        keys[0] = rng.choice(["bo", "bo2"])       # a margin run and a vote-count run in every history: they derive different columns
    if not any(k in keys for k in ("np", "ga")):
        keys[-1] = rng.choice(["np", "ga"])
    if big:
        keys = ["boD", "gaB"]
    h = []
    for _ in range(rng.randint(3, 6)):
        k = rng.choice(keys)
        h.append(["est", k])
        if k in ("bo", "bo2", "boD") and rng.random() < 0.7:
            h.append(["nat", rng.choice(["none", "dict"]), rng.choice([1, 2, 3]), 0])
            if rng.random() < 0.6:
                # asked again for other interval levels (compared with a client that was asked only that)
                h.append(["nat", h[-1][1], 1, rng.choice([1, 2, 3])])
    # another election on the same client in between (half of the histories)
    if (rng.random() < 0.5) if other is None else other:
        h.insert(rng.randint(0, max(0, len(h) - 1)), ["other"])
    # a run that passes unit-selection parameters nobody else passes (limits, a blocklist, an outlier cut-off), then a repeat
    if not big:
        h.append(["est", "lim"])
    # make sure something repeats, and add fresh-client references
    h.append(["est", keys[0]])
    if keys[0] in ("bo", "bo2", "boD"):
        h.append(["nat", "none", 2, 0])
        h.append(["nat", "none", 1, 1])
    for k in keys:
        h.append(["fresh", k])
    if not big:
        # a caller that shares its baseline / configuration / feed objects between calls, and the locally cached baseline
        for k in keys:
            h.insert(rng.randint(1, len(h)), ["shared", k])
        h.append(["shared", keys[-1]])
        # ... and in both orders: what a margin run leaves in the shared frames must not reach a count run, and vice versa
        mk = next(k for k in keys if k in ("bo", "bo2"))
        ck = next(k for k in keys if k in ("np", "ga"))
        h += [["shared", mk], ["shared", ck], ["shared", mk]]
        a, b = rng.sample(keys, 2)
        h.append(["cached", a, b])
        h.append(["cached", b, b])
    return h


def check_history(run, case, history, digests, where):
    seen = {}
    last_est = None
    nat_seen = {}
    for h, d in zip(history, digests):
        if h[0] == "other":
            a, b = d.split("|")
            if a.split(":", 1)[1] != b.split(":", 1)[1]:
                run.violation("a run for another election on a client that was used before differs from the same run on a fresh client ("
                              + where + ")", input=case, impl=[a[:40], b[:40]], predicate="estimate_history_independent",
                              signature="C12:estimate")
                return False
            last_est = "other"
            continue
        if h[0] == "cached":
            a, b = d[len("cached:"):].split("|")
            if a != b:
                run.violation("two runs with equal arguments (baseline read from the local copy) differ before / after a run that saved "
                              "the baseline with save_output=['data'] (" + where + ")", input=case,
                              impl={"arguments": h[1], "saved_by": h[2], "digests": [a[:12], b[:12]]},
                              predicate="estimate_history_independent", signature="C12:cached")
                return False
            continue
        if h[0] in ("est", "fresh", "shared"):
            k = h[1]
            if k in seen and seen[k] != d:
                run.violation("two estimate runs with equal arguments returned different tables (" + where + ")", input=case,
                              impl={"arguments": k, "digests": [seen[k][:12], d[:12]]}, predicate="estimate_history_independent",
                              signature="C12:estimate")
                return False
            seen.setdefault(k, d)
            if h[0] == "est":
                last_est = k
        else:
            parts = d.split("|")
            if len(set(parts)) != 1:
                run.violation("the national summary changes when it is asked again, or differs from what a client that was asked only this "
                              "returns (" + where + ")", input=case,
                              impl=[p[:12] for p in parts], predicate="natsum_idempotent", signature="C12:natsum-repeat")
                return False
            key = (last_est, h[1], h[3] if len(h) > 3 else 0)
            if key in nat_seen and nat_seen[key] != parts[0]:
                run.violation("the national summary after equal estimate runs differs (" + where + ")", input=case,
                              impl=[nat_seen[key][:12], parts[0][:12]], predicate="natsum_depends_on_last_estimate_only",
                              signature="C12:natsum")
                return False
            nat_seen.setdefault(key, parts[0])
    return True


def child(history, seed, hashseed):
    env = dict(os.environ)
    env["PYTHONHASHSEED"] = str(hashseed)
    cfg = {"verif": str(C.VERIF), "src": str(C.SRC), "history": history, "seed": seed}
    p = subprocess.run(["/venv/bin/python", CHILD], input=json.dumps(cfg), capture_output=True, text=True, timeout=900, env=env)
    lines = [l for l in p.stdout.splitlines() if l.startswith("{")]
    if p.returncode != 0 or not lines:
        return {"child_error": (p.stderr or p.stdout)[-600:]}
    return json.loads(lines[-1])


def agg_lists(run, driver):
    cm = E.client_mod()
    cl = cm.ModelClient()
    from elexmodel.utils.constants import DEFAULT_AGGREGATES

    ops, meta = [], []
    for office in sorted(DEFAULT_AGGREGATES):
        for agg in ["postal_code", "district", "county_classification", "county_fips"]:
            got = cl.get_aggregate_list(office, agg)
            raw = DEFAULT_AGGREGATES[office][:-1] + [agg]
            want = sorted(set(raw), key=["postal_code", "district", "county_classification", "county_fips"].index)
            run.evaluations += 1
            if got != want:
                run.violation("get_aggregate_list is not the de-duplicated list in the fixed order", input={"office": office, "aggregate": agg},
                              impl=got, expected=want, predicate="sort_perm_invariant", signature="C12:agglist")
            ops.append({"op": "det.agglist", "raw": sorted(set(raw))})
            ops.append({"op": "det.agglist", "raw": sorted(set(raw), reverse=True)})
            meta.append((office, agg, got))
    if driver is None:
        return
    outs = driver.run(ops)
    for i, (office, agg, got) in enumerate(meta):
        if outs[2 * i] != got or outs[2 * i + 1] != got:
            run.diff("get_aggregate_list vs model sortBy (both iteration orders)", input={"office": office, "aggregate": agg},
                     impl=got, model=[outs[2 * i], outs[2 * i + 1]])


def natsum_repeat_stage(run, n):
    """the national summary asked several times on one model object with near-tied contests (stage level, as in C08)"""
    from harness import bootstage as S
    from harness.props import c08

    bm = S.boot_module()
    for _ in range(n):
        c = c08.gen_stage(run.rng)
        if c["weights"].startswith("wrong-size"):
            continue
        cs = c["contests"]
        nn, B = len(cs), c["B"]
        settings = {"features": ["baseline_normalized_margin"]}
        if c["mode"] == "nocorr":
            settings["national_summary_correlation"] = False
        model = bm.BootstrapElectionModel(settings)
        model.B = B
        model.divided_error_B_1 = np.array([[float(x) for x in k["d1"]] for k in cs]).reshape(nn, B)
        model.divided_error_B_2 = np.array([[float(x) for x in k["d2"]] for k in cs]).reshape(nn, B)
        model.aggregate_pred_margin = np.array([float(k["pred"]) for k in cs]).reshape(nn, 1)
        model.called_contests = np.array([{"lhs": 1, "rhs": 0, "none": -1}[k["call"]] for k in cs]).reshape(nn, 1)
        model.stop_model_call = np.array([bool(k["stop"]) for k in cs]).reshape(nn, 1)
        outs = []
        try:
            with np.errstate(all="ignore"):
                for _k in range(3):
                    outs.append([float(x) for x in model.get_national_summary_estimates(None, c["base"], c["alpha"])["margin"]])
        except Exception as ex:
            outs.append("raises:" + type(ex).__name__)
        run.case({"natsum_repeat": True, "case": c08._light(c)}, True)
        run.count("national summary asked three times (stage)")
        if any(o != outs[0] for o in outs[1:]):
            run.violation("the national summary changes when it is asked again on the same model object", input=c08._light(c),
                          impl=outs, predicate="natsum_idempotent", signature="C12:natsum-repeat")
            return


class uninitialised:
    """`np.empty` / `np.empty_like` promise nothing about the content of the buffer they return (in a live process: whatever earlier
    runs left on the heap).  Inside this context they return buffers filled with `fill`, which is within their contract; a table that
    changes with `fill` is a table that depends on uninitialised memory, i.e. on the history of the process."""

    def __init__(self, fill):
        self.fill = fill

    def __enter__(self):
        self.saved = (np.empty, np.empty_like)
        e0, el0, fill = np.empty, np.empty_like, self.fill

        def empty(*a, **kw):
            out = e0(*a, **kw)
            if out.dtype.kind == "f":
                out.fill(fill)
            return out

        def empty_like(*a, **kw):
            out = el0(*a, **kw)
            if isinstance(out, np.ndarray) and out.dtype.kind == "f":
                out.fill(fill)
            return out

        np.empty, np.empty_like = empty, empty_like

    def __exit__(self, *e):
        np.empty, np.empty_like = self.saved


def uninitialised_stage(run, seeds):
    """equal arguments, two contents of the uninitialised buffers: the tables must not notice"""
    for seed in seeds:
        e = make_election(seed)
        for key, a in argsets(seed).items():
            if a.get("_election") == "big":
                continue
            dg = []
            for fill in (0.0, -7.25):
                with uninitialised(fill):
                    r = E.run_client(e, **a)
                dg.append(P.digest(r["tables"]) if "tables" in r else "raises:" + r["raises"])
            case = {"election_seed": seed, "arguments": key, "uninitialised_buffers_filled_with": [0.0, -7.25]}
            run.case(case, True)
            run.count("uninitialised-buffer pairs")
            if dg[0] != dg[1]:
                run.violation("two estimate runs with equal arguments return different tables when the buffers handed out by np.empty / "
                              "np.empty_like hold different left-overs (in a live process: what earlier runs left on the heap)", input=case,
                              impl={"digests": [d[:12] for d in dg]}, predicate="estimate_history_independent",
                              signature="C12:uninitialised")
                return


def explore(run, driver, budget):
    run.info["rule"] = RULE
    n = {"quick": 2, "thorough": 40, "search": 8}[budget]
    rng = run.rng
    agg_lists(run, driver)
    uninitialised_stage(run, [rng.randint(0, 10**6) for _ in range({"quick": 1, "thorough": 12, "search": 3}[budget])])
    natsum_repeat_stage(run, {"quick": 150, "thorough": 5000, "search": 1000}[budget])
    if driver is not None:
        run.info["randomness_sources"] = driver.run([{"op": "det.sites"}])[0]
    for k in range(n):
        seed = rng.randint(0, 10**6)
        history = gen_history(rng, other=(k % 2 == 0), big=(k % 2 == 1))
        case = {"election_seed": seed, "history": history}
        run.case(case, True)
        run.count("histories")
        digests = run_history(history, seed)
        if not check_history(run, case, history, digests, "same process"):
            continue
        # fresh processes under different hash seeds
        refs = []
        hss = [0, 1] if budget == "quick" else [0, 1, 12345]
        from concurrent.futures import ThreadPoolExecutor

        with ThreadPoolExecutor(max_workers=len(hss)) as ex:     # the children are processes of their own
            kids = list(ex.map(lambda h_: child(history, seed, h_), hss))
        for hs, r in zip(hss, kids):
            if "child_error" in r:
                run.broken.append("child process failed: " + r["child_error"][-300:])
                continue
            refs.append(r["digests"])
            run.count("fresh process, hash seed " + str(hs))
            if not check_history(run, case, history, r["digests"], f"fresh process, PYTHONHASHSEED={hs}"):
                break
            if r["digests"] != digests:
                k = next(i for i, (a, b) in enumerate(zip(digests, r["digests"])) if a != b)
                run.violation("a fresh process (other hash seed) returns different tables for the same history", input=case,
                              impl={"call": history[k], "hashseed": hs}, predicate="estimate_hash_independent / estimate_world_independent",
                              signature="C12:process")
                break
        run.traces += 1


def replay(run, driver, payload):
    # the generators are driven by the seed and pass recorded in the replay file (set by main): the same pass is re-run
    explore(run, driver, run.budget)
