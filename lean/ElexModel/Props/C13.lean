import ElexModel.Core.Loops
import ElexModel.Gen.C13
import Mathlib.Data.List.Basic

/-!
# C13 — what is reported for one request does not depend on what else was requested

`cell_independent`: in the loop nest of `get_estimates`, every aggregate-interval computation of the cell
(estimand `e`, level `g`, alpha `a`) reads the unit bounds that were written for the *same* estimand `e` — whatever the
lists of estimands, levels and alphas, whatever was left in the cache by earlier calls.
-/

namespace ElexModel.Loops

theorem reads_append (l₁ l₂ : List Op) (c : Cache) : reads (l₁ ++ l₂) c = reads l₁ c ++ reads l₂ (finalCache l₁ c) := by
  induction l₁ generalizing c with
  | nil => rfl
  | cons op t ih =>
    simp only [List.cons_append, reads, finalCache]
    cases h : step c op with
    | mk c' r =>
      have hc : (step c op).1 = c' := by rw [h]
      cases r with
      | none => simp only [hc]; exact ih c'
      | some r => simp only [hc, List.cons_append]; rw [ih c']

theorem finalCache_append (l₁ l₂ : List Op) (c : Cache) : finalCache (l₁ ++ l₂) c = finalCache l₂ (finalCache l₁ c) := by
  induction l₁ generalizing c with
  | nil => rfl
  | cons op t ih => simp only [List.cons_append, finalCache]; exact ih _

/-- after the unit-interval loop of estimand `e`, every requested level is owned by `e` -/
theorem writes_own (alphas : List ℕ) (e : ℕ) (c : Cache) (a : ℕ) (ha : a ∈ alphas) :
    finalCache (alphas.map (fun a => Op.write a e)) c a = some e := by
  induction alphas generalizing c with
  | nil => cases ha
  | cons b t ih =>
    simp only [List.map_cons, finalCache, step]
    by_cases hat : a ∈ t
    · exact ih _ hat
    · have hab : a = b := by
        rcases List.mem_cons.mp ha with h | h
        · exact h
        · exact absurd h hat
      subst hab
      -- later writes do not touch `a`
      have keep : ∀ (l : List ℕ) (c' : Cache), a ∉ l → finalCache (l.map (fun x => Op.write x e)) c' a = c' a := by
        intro l
        induction l with
        | nil => intro c' _; rfl
        | cons x l ihl =>
          intro c' hx
          simp only [List.map_cons, finalCache, step]
          rw [ihl _ (fun h => hx (List.mem_cons_of_mem _ h))]
          have : a ≠ x := fun h => hx (h ▸ List.mem_cons_self ..)
          simp [this]
      rw [keep t _ hat]; simp

theorem writes_no_reads (alphas : List ℕ) (e : ℕ) (c : Cache) : reads (alphas.map (fun a => Op.write a e)) c = [] := by
  induction alphas generalizing c with
  | nil => rfl
  | cons b t ih => simp only [List.map_cons, reads, step]; exact ih _

/-- reads do not change the cache -/
theorem reads_keep_cache (l : List Op) (h : ∀ op ∈ l, ∃ a e g, op = Op.read a e g) (c : Cache) : finalCache l c = c := by
  induction l generalizing c with
  | nil => rfl
  | cons op t ih =>
    obtain ⟨a, e, g, rfl⟩ := h _ (List.mem_cons_self ..)
    simp only [finalCache, step]
    exact ih (fun o ho => h o (List.mem_cons_of_mem _ ho)) c

/-- a block of pure reads returns, for each read, the current owner -/
theorem reads_of_reads (l : List Op) (h : ∀ op ∈ l, ∃ a e g, op = Op.read a e g) (c : Cache) :
    ∀ r ∈ reads l c, Op.read r.1 r.2.1 r.2.2.1 ∈ l ∧ r.2.2.2 = c r.1 := by
  induction l generalizing c with
  | nil => intro r hr; cases hr
  | cons op t ih =>
    obtain ⟨a, e, g, rfl⟩ := h _ (List.mem_cons_self ..)
    intro r hr
    simp only [reads, step, List.mem_cons] at hr
    rcases hr with rfl | hr
    · exact ⟨List.mem_cons_self .., rfl⟩
    · obtain ⟨h1, h2⟩ := ih (fun o ho => h o (List.mem_cons_of_mem _ ho)) c r hr
      exact ⟨List.mem_cons_of_mem _ h1, h2⟩

def readBlock (levels alphas : List ℕ) (e : ℕ) : List Op :=
  levels.flatMap (fun g => alphas.map (fun a => Op.read a e g))

theorem readBlock_reads (levels alphas : List ℕ) (e : ℕ) :
    ∀ op ∈ readBlock levels alphas e, ∃ a e' g, op = Op.read a e' g ∧ a ∈ alphas ∧ e' = e := by
  intro op hop
  simp only [readBlock, List.mem_flatMap, List.mem_map] at hop
  obtain ⟨g, _, a, ha, rfl⟩ := hop
  exact ⟨a, e, g, rfl, ha, rfl⟩

/-- **cell independence**: every read of the cell (estimand `e`, level `g`, alpha `a`) sees the bounds written for `e`,
    for every list of estimands, levels and alphas and every initial cache content (history of earlier calls) -/
theorem cell_independent (ests levels alphas : List ℕ) (c : Cache) :
    ∀ r ∈ reads (trace ests levels alphas) c, r.2.2.2 = some r.2.1 := by
  unfold trace
  induction ests generalizing c with
  | nil => intro r hr; cases hr
  | cons e t ih =>
    intro r hr
    simp only [List.flatMap_cons] at hr
    rw [reads_append, reads_append] at hr
    rw [writes_no_reads] at hr
    simp only [List.nil_append, List.mem_append] at hr
    have hblock : ∀ op ∈ readBlock levels alphas e, ∃ a e' g, op = Op.read a e' g := by
      intro op hop; obtain ⟨a, e', g, h, _, _⟩ := readBlock_reads levels alphas e op hop; exact ⟨a, e', g, h⟩
    rcases hr with hr | hr
    · -- a read of this estimand's block: the cache was just written for every requested alpha
      obtain ⟨hmem, hown⟩ := reads_of_reads (readBlock levels alphas e) hblock _ r hr
      obtain ⟨a, e', g, heq, ha, he⟩ := readBlock_reads levels alphas e _ hmem
      injection heq with h1 h2 h3
      rw [hown, h1, h2, he]
      exact writes_own alphas e c a ha
    · exact ih _ r hr

/-- every requested cell is actually computed (once per level and alpha) -/
theorem cells_computed (ests levels alphas : List ℕ) (e g a : ℕ) (he : e ∈ ests) (hg : g ∈ levels) (ha : a ∈ alphas) :
    Op.read a e g ∈ trace ests levels alphas := by
  unfold trace
  simp only [List.mem_flatMap, List.mem_append, List.mem_map]
  exact ⟨e, he, Or.inr ⟨g, hg, a, ha, rfl⟩⟩

/-! ### non-vacuity, and the shape of the defect the theorem excludes (unit pass and aggregate pass split) -/
example : reads (trace [0, 1] [7] [3, 4]) (fun _ => none) = [(3, 0, 7, some 0), (4, 0, 7, some 0), (3, 1, 7, some 1), (4, 1, 7, some 1)] := by
  decide
example : reads ([Op.write 3 0, Op.write 3 1, Op.read 3 0 7, Op.read 3 1 7]) (fun _ => none) = [(3, 0, 7, some 1), (3, 1, 7, some 1)] := by
  decide

end ElexModel.Loops

/-! ### bridge: the loop nest as it is in `/repo/src` on this run -/

namespace ElexModel.Loops

/-- **the loop nest of `ModelClient.get_estimates`, as translated from the source on this run, performs exactly the cache
    writes and reads of the model's `trace`** (unit intervals of level `alpha` stored under `alpha`; aggregate intervals
    receive the unit intervals stored under their own level) -/
theorem bridge_client_trace (ests levels alphas : List ℕ) : Gen.C13.client_trace ests levels alphas = trace ests levels alphas := by
  have h : ∀ (l : List ℕ) (f : ℕ → Op), (l.flatMap fun a => [f a]) = l.map f := by
    intro l f
    induction l with
    | nil => rfl
    | cons a t ih => simp [List.flatMap_cons, ih]
  unfold Gen.C13.client_trace trace
  simp only [h]

theorem bridge_results_handler_adds : Gen.C13.results_handler_adds =
    ["self.results_handler.add_unit_predictions(estimand, unit_predictions)",
     "self.results_handler.add_unit_intervals(estimand, alpha_to_unit_prediction_intervals)",
     "self.results_handler.add_unit_turnout_predictions(unit_turnout_predictions)",
     "self.results_handler.add_agg_predictions(estimand, aggregate, estimates_df, alpha_to_agg_prediction_intervals)"] := rfl

/-- the gaussian model's caches are keyed by the interval level only — written by the unit-interval call, read by the
    aggregate-interval call (this is the `Cache` of the model) -/
theorem bridge_gaussian_cache : Gen.C13.gaussian_cache_uses =
    ["get_aggregate_prediction_intervals: load self.alpha_to_nonreporting_lower_bounds[alpha]",
     "get_aggregate_prediction_intervals: load self.alpha_to_nonreporting_upper_bounds[alpha]",
     "get_unit_prediction_intervals: store self.alpha_to_nonreporting_lower_bounds[alpha]",
     "get_unit_prediction_intervals: store self.alpha_to_nonreporting_upper_bounds[alpha]"] := rfl

/-- **C13 on the source**: in the loop nest as it is written in `/repo/src` today, every aggregate-interval call reads the unit
    bounds that were stored for its own estimand — for every request and every earlier content of the cache -/
theorem source_cell_independent (ests levels alphas : List ℕ) (c : Cache) :
    ∀ r ∈ reads (Gen.C13.client_trace ests levels alphas) c, r.2.2.2 = some r.2.1 := by
  rw [bridge_client_trace]; exact cell_independent ests levels alphas c

end ElexModel.Loops
