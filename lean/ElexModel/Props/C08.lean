import Mathlib.Tactic.Linarith
import ElexModel.Core.NatSum
import ElexModel.Gen.C08
import ElexModel.Lemmas.Num
import Mathlib.Tactic.FieldSimp

/-!
# C08 — the national summary is bounded, ordered, and depends only on the contests

Default mode (hard threshold, perfect correlation), non-negative weights.  Quantifiers: every list of contests, every
draws, every call / stop assignment, every level, every base value; and every history of aggregate computations.
-/

namespace ElexModel.NatSum
open ElexModel ElexModel.Boot

theorem pyRound_mono {x y : ℚ} (k : ℕ) (h : x ≤ y) : pyRound x k ≤ pyRound y k := by
  unfold pyRound
  have hpos : (0:ℚ) < ((10 ^ k : ℕ) : ℚ) := by positivity
  apply div_le_div_of_nonneg_right _ hpos.le
  have := rhe_mono (mul_le_mul_of_nonneg_right h hpos.le)
  exact_mod_cast this

theorem b01_range (b : Bool) : 0 ≤ b01 b ∧ b01 b ≤ 1 := by cases b <;> simp [b01]

/-- losses are 0 or 1 and only contests predicted for the left party can be lost -/
theorem loss_range (lq : ℚ) (c : Contest) : 0 ≤ loss lq c ∧ loss lq c ≤ b01 (predState c) := by
  unfold loss
  simp only [rmax_eq]
  cases hp : predState c <;> cases hs : c.stop <;> cases hl : lowerState lq c <;>
    by_cases hc : c.call = Call.none <;> simp [b01, hc]

/-- gains are 0 or 1 and only contests not predicted for the left party can be gained -/
theorem gain_range (lq : ℚ) (c : Contest) : 0 ≤ gain lq c ∧ gain lq c ≤ 1 - b01 (predState c) := by
  unfold gain
  simp only [rmax_eq]
  cases hp : predState c <;> cases hs : c.stop <;> cases hu : upperState lq c <;>
    by_cases hc : c.call = Call.none <;> simp [b01, hc]

theorem sumR_nonneg (l : List ℚ) (h : ∀ x ∈ l, 0 ≤ x) : 0 ≤ sumR l := by
  induction l with
  | nil => simp [sumR]
  | cons a t ih =>
    have := ih (fun x hx => h x (List.mem_cons_of_mem _ hx))
    have := h a (List.mem_cons_self ..)
    simp only [sumR]; linarith

theorem sumR_le_sumR (cs : List Contest) (f g : Contest → ℚ) (h : ∀ c ∈ cs, f c ≤ g c) :
    sumR (cs.map f) ≤ sumR (cs.map g) := by
  induction cs with
  | nil => simp [sumR]
  | cons a t ih =>
    have := ih (fun c hc => h c (List.mem_cons_of_mem _ hc))
    have := h a (List.mem_cons_self ..)
    simp only [List.map_cons, sumR]; linarith

/-- **ordered**: `lower ≤ prediction ≤ upper` for every level -/
theorem natsum_ordered (cs : List Contest) (hw : ∀ c ∈ cs, 0 ≤ c.w) (base alpha : ℚ) (B : ℕ) :
    (natsum cs base alpha B).2.1 ≤ (natsum cs base alpha B).1 ∧
    (natsum cs base alpha B).1 ≤ (natsum cs base alpha B).2.2 := by
  unfold natsum
  simp only
  have hl : 0 ≤ sumR (cs.map (fun c => c.w * loss (lowerQ alpha B) c)) := by
    apply sumR_nonneg
    intro x hx
    obtain ⟨c, hc, rfl⟩ := List.mem_map.mp hx
    exact mul_nonneg (hw c hc) (loss_range _ c).1
  have hg : 0 ≤ sumR (cs.map (fun c => c.w * gain (lowerQ alpha B) c)) := by
    apply sumR_nonneg
    intro x hx
    obtain ⟨c, hc, rfl⟩ := List.mem_map.mp hx
    exact mul_nonneg (hw c hc) (gain_range _ c).1
  exact ⟨pyRound_mono 2 (by linarith), pyRound_mono 2 (by linarith)⟩

/-- **bounded**: the summary stays within `[base, base + total weight]` (before the final rounding to two decimals,
    which is monotone) -/
theorem natsum_bounded (cs : List Contest) (hw : ∀ c ∈ cs, 0 ≤ c.w) (base alpha : ℚ) (B : ℕ) :
    pyRound base 2 ≤ (natsum cs base alpha B).2.1 ∧
    (natsum cs base alpha B).2.2 ≤ pyRound (base + sumR (cs.map (·.w))) 2 := by
  unfold natsum predVal
  simp only
  constructor
  · apply pyRound_mono
    have := sumR_le_sumR cs (fun c => c.w * loss (lowerQ alpha B) c) (fun c => c.w * b01 (predState c))
      (fun c hc => mul_le_mul_of_nonneg_left (loss_range _ c).2 (hw c hc))
    linarith
  · apply pyRound_mono
    have h1 := sumR_le_sumR cs (fun c => c.w * gain (lowerQ alpha B) c) (fun c => c.w * (1 - b01 (predState c)))
      (fun c hc => mul_le_mul_of_nonneg_left (gain_range _ c).2 (hw c hc))
    have h2 : sumR (cs.map (fun c => c.w * (1 - b01 (predState c)))) =
        sumR (cs.map (·.w)) - sumR (cs.map (fun c => c.w * b01 (predState c))) := by
      clear h1 hw
      induction cs with
      | nil => simp [sumR]
      | cons a t ih => simp only [List.map_cons, sumR, ih]; ring
    linarith

/-- **prediction** = base + the weights of exactly those contests whose reported margin prediction is positive -/
theorem natsum_pred_formula (cs : List Contest) (base alpha : ℚ) (B : ℕ) :
    (natsum cs base alpha B).1 = pyRound (sumR ((cs.filter (fun c => decide (0 < c.pred))).map (·.w)) + base) 2 := by
  unfold natsum predVal
  simp only
  congr 2
  induction cs with
  | nil => simp [sumR]
  | cons a t ih =>
    by_cases h : 0 < a.pred
    · have hp : predState a = true := by simp [predState, h]
      have hf : (a :: t).filter (fun c => decide (0 < c.pred)) = a :: t.filter (fun c => decide (0 < c.pred)) := by
        simp [List.filter_cons, h]
      rw [hf]
      have hb : b01 (predState a) = 1 := by simp [hp, b01]
      simp only [List.map_cons, sumR, hb, mul_one]
      rw [ih]
    · have hp : predState a = false := by simp [predState, h]
      have hf : (a :: t).filter (fun c => decide (0 < c.pred)) = t.filter (fun c => decide (0 < c.pred)) := by
        simp [List.filter_cons, h]
      rw [hf]
      have hb : b01 (predState a) = 0 := by simp [hp, b01]
      simp only [List.map_cons, sumR, hb, mul_zero, zero_add]
      rw [ih]

/-- **a called, un-stopped contest contributes no uncertainty** to either bound -/
theorem called_no_uncertainty (lq : ℚ) (c : Contest) (hc : c.call ≠ Call.none) (hs : c.stop = false) :
    loss lq c = 0 ∧ gain lq c = 0 := by
  unfold loss gain; simp [hc, hs]

/-- changing the draws of a called, un-stopped contest changes nothing -/
theorem called_draws_irrelevant (lq : ℚ) (c : Contest) (d1' d2' : List ℚ) (hc : c.call ≠ Call.none) (hs : c.stop = false) :
    loss lq { c with d1 := d1', d2 := d2' } = loss lq c ∧ gain lq { c with d1 := d1', d2 := d2' } = gain lq c := by
  have a := called_no_uncertainty lq c hc hs
  have b := called_no_uncertainty lq { c with d1 := d1', d2 := d2' } hc hs
  rw [a.1, a.2, b.1, b.2]; exact ⟨rfl, rfl⟩

/-- **a weight dictionary of the wrong size is rejected** -/
theorem wrong_size_rejected (weights : List ℚ) (cs : List Contest) (base alpha : ℚ) (B : ℕ)
    (h : weights.length ≠ cs.length) : natsumChecked weights cs base alpha B = none := by
  unfold natsumChecked; simp [h]

theorem right_size_accepted (weights : List ℚ) (cs : List Contest) (base alpha : ℚ) (B : ℕ)
    (h : weights.length = cs.length) : (natsumChecked weights cs base alpha B).isSome = true := by
  unfold natsumChecked; simp [h]

/-! ### history independence -/

theorem runOps_from (s : Option Snapshot) (ops : List AggOp) (v : Snapshot)
    (hsame : ∀ op ∈ ops, op.top = true → op.snap = v) (h : s = some v ∨ ∃ op ∈ ops, op.top = true) :
    (s = some v ∨ s ≠ some v) → ops.foldl step s = some v ∨ (s ≠ some v ∧ ¬ ∃ op ∈ ops, op.top = true) := by
  intro _
  induction ops generalizing s with
  | nil =>
    rcases h with h | ⟨op, hop, _⟩
    · left; simpa using h
    · cases hop
  | cons op t ih =>
    simp only [List.foldl_cons]
    by_cases ht : op.top = true
    · have hv : op.snap = v := hsame op (List.mem_cons_self ..) ht
      have : step s op = some v := by simp [step, ht, hv]
      rw [this]
      have := ih (some v) (fun o ho => hsame o (List.mem_cons_of_mem _ ho)) (Or.inl rfl) (Or.inl rfl)
      rcases this with h1 | ⟨h2, _⟩
      · exact Or.inl h1
      · exact absurd rfl h2
    · have hs : step s op = s := by simp [step, ht]
      rw [hs]
      have h' : s = some v ∨ ∃ o ∈ t, o.top = true := by
        rcases h with h | ⟨o, ho, hot⟩
        · exact Or.inl h
        · rcases List.mem_cons.mp ho with rfl | ho
          · exact absurd hot ht
          · exact Or.inr ⟨o, ho, hot⟩
      rcases ih s (fun o ho => hsame o (List.mem_cons_of_mem _ ho)) h' (em _) with h1 | ⟨h2, h3⟩
      · exact Or.inl h1
      · right
        refine ⟨h2, ?_⟩
        rintro ⟨o, ho, hot⟩
        rcases List.mem_cons.mp ho with rfl | ho
        · exact ht hot
        · exact h3 ⟨o, ho, hot⟩

/-- **the summary depends only on the top-level contests**: after *any* sequence of aggregate computations that
    contains the contest level — whatever finer aggregates (counties, classifications, units) were also computed, in
    whatever order — the state the summary reads is exactly what the contest level alone leaves -/
theorem natsum_history_independent (ops : List AggOp) (v : Snapshot)
    (hsame : ∀ op ∈ ops, op.top = true → op.snap = v) (hex : ∃ op ∈ ops, op.top = true) :
    runOps ops = some v := by
  unfold runOps
  rcases runOps_from none ops v hsame (Or.inr hex) (em _) with h | ⟨_, h⟩
  · exact h
  · exact absurd hex h

/-- and it does not fail: the state exists -/
theorem natsum_no_fail (ops : List AggOp) (v : Snapshot)
    (hsame : ∀ op ∈ ops, op.top = true → op.snap = v) (hex : ∃ op ∈ ops, op.top = true) :
    (runOps ops).isSome = true := by
  rw [natsum_history_independent ops v hsame hex]; rfl

/-- finer aggregates never touch the state -/
theorem finer_aggregate_noop (s : Option Snapshot) (op : AggOp) (h : op.top = false) : step s op = s := by
  simp [step, h]

/-! ### non-vacuity: a near-tied contest with few draws, a called contest, a stop-listed one -/
def exCs : List Contest := [
  ⟨3, 1/100, [1/50, 0, -1/50], [0, 0, 0], .none, false⟩,
  ⟨10, -1/5, [0, 0, 0], [1/100, 0, 0], .rhs, false⟩,
  ⟨5, 1/200, [0, 0, 0], [0, 0, 0], .lhs, true⟩,
  ⟨7, 0, [0, 0, 0], [0, 0, 0], .none, false⟩]

example : natsum exCs 20 (1/2) 3 = (28, 23, 28) := by decide +kernel
example : ∀ c ∈ exCs, 0 ≤ c.w := by decide

end ElexModel.NatSum

/-! ### bridge: `get_national_summary_estimates` (default mode) as it is in `/repo/src` on this run -/

namespace ElexModel.NatSum
open ElexModel ElexModel.Boot

theorem boolToRat_eq (b : Bool) : boolToRat b = b01 b := rfl

/-- per contest the source's `potential_losses` / `potential_gains` (clamp, race-call rule, stop rule, in this order) are
    the model's `loss` / `gain` -/
theorem bridge_loss_gain (lq : ℚ) (c : Contest) :
    loss lq c = Gen.C08.potential_loss c.pred (fracWhere (dist c) (fun x => decide (0 < x)))
        (fracWhere (dist c) (fun x => decide (x < 0))) lq (decide (c.call = Call.none)) c.stop ∧
    gain lq c = Gen.C08.potential_gain c.pred (fracWhere (dist c) (fun x => decide (0 < x)))
        (fracWhere (dist c) (fun x => decide (x < 0))) lq (decide (c.call = Call.none)) c.stop := by
  unfold loss gain Gen.C08.potential_loss Gen.C08.potential_gain
  unfold lowerState upperState predState
  simp only [boolToRat_eq, gt_iff_lt]
  generalize decide (lq < fracWhere (dist c) fun x => decide (0 < x)) = bp
  generalize decide (lq < fracWhere (dist c) fun x => decide (x < 0)) = bn
  generalize decide (0 < c.pred) = ps
  generalize hcall : decide (c.call = Call.none) = bc
  have hc : (c.call = Call.none) ↔ bc = true := by rw [← hcall]; simp
  simp only [hc]
  cases bp <;> cases bn <;> cases ps <;> cases bc <;> cases c.stop <;> simp [b01, rmax_eq]

theorem bridge_pred_state (c : Contest) : Gen.C08.pred_state c.pred = b01 (predState c) := rfl

/-- the realisations the correlation rule counts are `pred − (d1 − d2)` -/
theorem bridge_dist (c : Contest) : dist c = (c.d1.zip c.d2).map (fun p => Gen.C08.pred_margin_draw c.pred p.1 p.2) := rfl

/-- the three reported numbers -/
theorem bridge_natsum (cs : List Contest) (base alpha : ℚ) (B : ℕ) :
    natsum cs base alpha B =
      (Gen.C08.agg_pred (predVal cs) base,
       Gen.C08.agg_lower (predVal cs) (sumR (cs.map (fun c => c.w * loss (lowerQ alpha B) c))) base,
       Gen.C08.agg_upper (predVal cs) (sumR (cs.map (fun c => c.w * gain (lowerQ alpha B) c))) base) := rfl

/-- weights are matched to contests by sorted key, rejected unless one per contest, and the summary reads nothing from the
    model object but the draws, the prediction, the calls / stops and the settings -/
theorem bridge_shape :
    Gen.C08.weights_matching = ["sorted(nat_sum_data_dict.items())", "np.asarray([x[1] for x in nat_sum_data_dict_sorted]).reshape(-1, 1)"] ∧
    Gen.C08.size_check = ["len(nat_sum_data_dict) != self.divided_error_B_1.shape[0]"] ∧
    Gen.C08.returned = ["{'margin': [agg_pred, agg_lower, agg_upper]}"] ∧
    Gen.C08.state_read = ["self.B", "self.T", "self.aggregate_pred_margin", "self.called_contests", "self.divided_error_B_1",
      "self.divided_error_B_2", "self.hard_threshold", "self.national_summary_correlation", "self.stop_model_call"] :=
  ⟨rfl, rfl, rfl, rfl⟩

end ElexModel.NatSum

namespace ElexModel.NatSum
open ElexModel

/-- **C08 on the source**: per contest, the potential loss lies between 0 and the contest's contribution to the prediction, the
    potential gain between 0 and what it does not contribute — so that `lower ≤ prediction ≤ upper` and both stay within
    `[base, base + Σ weights]` for non-negative weights (`natsum_ordered`, `natsum_bounded`) -/
theorem source_loss_gain_range (pred fracPos fracNeg lq : ℚ) (uncalled stop : Bool) :
    0 ≤ Gen.C08.potential_loss pred fracPos fracNeg lq uncalled stop ∧
    Gen.C08.potential_loss pred fracPos fracNeg lq uncalled stop ≤ Gen.C08.pred_state pred ∧
    0 ≤ Gen.C08.potential_gain pred fracPos fracNeg lq uncalled stop ∧
    Gen.C08.potential_gain pred fracPos fracNeg lq uncalled stop ≤ 1 - Gen.C08.pred_state pred := by
  unfold Gen.C08.potential_loss Gen.C08.potential_gain Gen.C08.pred_state
  generalize decide (pred > 0) = ps
  generalize decide (fracNeg > lq) = bn
  generalize decide (fracPos > lq) = bp
  cases ps <;> cases bn <;> cases bp <;> cases uncalled <;> cases stop <;> simp [boolToRat, rmax_eq]

/-- **C08 on the source**: a called contest that is not stop-listed contributes no uncertainty, whatever its draws -/
theorem source_called_no_uncertainty (pred fracPos fracNeg lq : ℚ) :
    Gen.C08.potential_loss pred fracPos fracNeg lq false false = 0 ∧
    Gen.C08.potential_gain pred fracPos fracNeg lq false false = 0 := by
  unfold Gen.C08.potential_loss Gen.C08.potential_gain
  simp

/-- **C08 on the source, independent-contests mode** (`national_summary_correlation = False`): a called contest that is not stop-listed
    contributes no uncertainty, whatever the states of the two quantile realisations -/
theorem source_called_no_uncertainty_independent (pred : ℚ) (lowS upS : Bool) :
    Gen.C08.potential_loss_independent pred lowS upS false false = 0 ∧
    Gen.C08.potential_gain_independent pred lowS upS false false = 0 := by
  unfold Gen.C08.potential_loss_independent Gen.C08.potential_gain_independent
  simp

/-- in both modes a contest's loss and gain are 0 or 1: each bound is at most the weights of the other contests away from the prediction -/
theorem source_loss_gain_range_independent (pred : ℚ) (lowS upS uncalled stop : Bool) :
    (Gen.C08.potential_loss_independent pred lowS upS uncalled stop = 0 ∨ Gen.C08.potential_loss_independent pred lowS upS uncalled stop = 1) ∧
    (Gen.C08.potential_gain_independent pred lowS upS uncalled stop = 0 ∨ Gen.C08.potential_gain_independent pred lowS upS uncalled stop = 1) := by
  unfold Gen.C08.potential_loss_independent Gen.C08.potential_gain_independent
  by_cases hp : pred > 0 <;> cases lowS <;> cases upS <;> cases uncalled <;> cases stop <;> simp [boolToRat, hp]

end ElexModel.NatSum
