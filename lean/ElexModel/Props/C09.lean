import ElexModel.Gen.C09
import ElexModel.Core.Units
import ElexModel.Lemmas.Num

/-!
# C09 — which units feed the model follows the documented eligibility rules exactly

`category` / `split` are the model of `CombinedDataHandler.get_units`.  Quantifiers: every joined row, every
threshold and limit (including values exactly at a limit), every blocklist, every set of flagged ids.
-/

namespace ElexModel.Units
open ElexModel

/-- **a unit is used to fit the model iff** it is not blocklisted (unit or state), its baseline turnout is not
    zero, its expected vote is at or above the threshold, its turnout factor lies strictly between the limits
    and it is not flagged by an outlier model -/
theorem fit_iff (c : Cfg) (r : Row) :
    (category c r = .expected ∧ isReporting c r = true) ↔
      (blocklisted c r = false ∧ r.bw ≠ 0 ∧ c.thr ≤ r.pev ∧ c.tfLo < r.tf ∧ r.tf < c.tfHi ∧
        r.id ∉ c.flaggedTF ∧ r.id ∉ c.flaggedMargin) := by
  unfold category isReporting strange
  constructor
  · rintro ⟨h, hr⟩
    have hr' : c.thr ≤ r.pev := by simpa using hr
    split_ifs at h <;> simp_all
  · rintro ⟨hb, hz, ht, hlo, hhi, hf1, hf2⟩
    have h1 : ¬ r.tf ≤ c.tfLo := not_le.mpr hlo
    have h2 : ¬ c.tfHi ≤ r.tf := not_le.mpr hhi
    simp [hb, hz, ht, h1, h2, hf1, hf2]

/-- **a baseline unit below the threshold that is not blocklisted or zero-baseline is predicted** -/
theorem predicted_iff (c : Cfg) (r : Row) :
    (category c r = .expected ∧ isReporting c r = false) ↔
      (blocklisted c r = false ∧ r.bw ≠ 0 ∧ r.pev < c.thr) := by
  unfold category isReporting
  constructor
  · rintro ⟨h, hr⟩
    have hr' : r.pev < c.thr := by simpa using hr
    split_ifs at h <;> simp_all
  · rintro ⟨hb, hz, ht⟩
    have : ¬ c.thr ≤ r.pev := not_le.mpr ht
    simp [hb, hz, this]

/-! ### every other unit is passed through with the first applicable reason -/

theorem reason_blocklisted (c : Cfg) (r : Row) (h : blocklisted c r = true) : category c r = .blocklisted := by
  simp [category, h]

theorem reason_zero_baseline (c : Cfg) (r : Row) (hb : blocklisted c r = false) (hz : r.bw = 0) :
    category c r = .zeroBaseline := by
  simp [category, hb, hz]

theorem reason_strange (c : Cfg) (r : Row) (hb : blocklisted c r = false) (hz : r.bw ≠ 0)
    (ht : c.thr ≤ r.pev) (hs : r.tf ≤ c.tfLo ∨ c.tfHi ≤ r.tf) : category c r = .strangeTF := by
  unfold category isReporting strange
  rcases hs with hs | hs <;> simp [hb, hz, ht, hs]

theorem reason_tf_outlier (c : Cfg) (r : Row) (hb : blocklisted c r = false) (hz : r.bw ≠ 0)
    (ht : c.thr ≤ r.pev) (hlo : c.tfLo < r.tf) (hhi : r.tf < c.tfHi) (hf : r.id ∈ c.flaggedTF) :
    category c r = .tfOutlier := by
  unfold category isReporting strange
  have h1 : ¬ r.tf ≤ c.tfLo := not_le.mpr hlo
  have h2 : ¬ c.tfHi ≤ r.tf := not_le.mpr hhi
  simp [hb, hz, ht, h1, h2, hf]

theorem reason_margin_outlier (c : Cfg) (r : Row) (hb : blocklisted c r = false) (hz : r.bw ≠ 0)
    (ht : c.thr ≤ r.pev) (hlo : c.tfLo < r.tf) (hhi : r.tf < c.tfHi) (hf : r.id ∉ c.flaggedTF)
    (hm : r.id ∈ c.flaggedMargin) : category c r = .marginOutlier := by
  unfold category isReporting strange
  have h1 : ¬ r.tf ≤ c.tfLo := not_le.mpr hlo
  have h2 : ¬ c.tfHi ≤ r.tf := not_le.mpr hhi
  simp [hb, hz, ht, h1, h2, hf, hm]

/-- a unit below the threshold is never excluded for its turnout factor or by an outlier model: those filters
    only see reporting units -/
theorem nonreporting_not_filtered (c : Cfg) (r : Row) (ht : r.pev < c.thr) :
    category c r ≠ .strangeTF ∧ category c r ≠ .tfOutlier ∧ category c r ≠ .marginOutlier := by
  have hd : decide (c.thr ≤ r.pev) = false := by
    have : ¬ c.thr ≤ r.pev := not_le.mpr ht
    simp [this]
  unfold category isReporting
  rw [hd]
  refine ⟨?_, ?_, ?_⟩ <;> (split_ifs <;> simp_all)

/-- a joined row is never `unexpected`: that category is reserved for feed rows outside `data` -/
theorem category_ne_unexpected (c : Cfg) (r : Row) : category c r ≠ .unexpected := by
  unfold category; split_ifs <;> simp

/-- rows of the fit / predict frames, in terms of the rule -/
theorem mem_rep_iff (c : Cfg) (n : ℕ) (base : List Base) (feed : List Feed) (r : Row) :
    r ∈ (split c n base feed).rep ↔
      r ∈ dataRows c.policy n base feed ∧ blocklisted c r = false ∧ r.bw ≠ 0 ∧ c.thr ≤ r.pev ∧
        c.tfLo < r.tf ∧ r.tf < c.tfHi ∧ r.id ∉ c.flaggedTF ∧ r.id ∉ c.flaggedMargin := by
  unfold split
  simp only [List.mem_filter, Bool.and_eq_true, beq_iff_eq]
  rw [fit_iff]

theorem mem_nonrep_iff (c : Cfg) (n : ℕ) (base : List Base) (feed : List Feed) (r : Row) :
    r ∈ (split c n base feed).nonrep ↔
      r ∈ dataRows c.policy n base feed ∧ blocklisted c r = false ∧ r.bw ≠ 0 ∧ r.pev < c.thr := by
  unfold split
  simp only [List.mem_filter, Bool.and_eq_true, beq_iff_eq, Bool.not_eq_true']
  rw [predicted_iff]

/-! ### derived quantities follow their definitions and are 0 when a denominator is 0 -/

theorem margin_def (dem gop : ℚ) : margin dem gop = dem - gop := rfl
theorem twoParty_def (dem gop : ℚ) : twoParty dem gop = dem + gop := rfl

theorem normMargin_def (dem gop : ℚ) (h : dem + gop ≠ 0) : normMargin dem gop = (dem - gop) / (dem + gop) := by
  simp [normMargin, divz, h]

theorem normMargin_zero_den (dem gop : ℚ) (h : dem + gop = 0) : normMargin dem gop = 0 := by
  simp [normMargin, divz, h]

theorem turnoutFactor_def (w bw : ℚ) (h : bw ≠ 0) : turnoutFactor (some w) bw = w / bw := by
  simp [turnoutFactor, divz, h]

theorem turnoutFactor_zero_den (rw : Option ℚ) : turnoutFactor rw 0 = 0 := by
  cases rw <;> simp [turnoutFactor, divz]

theorem turnoutFactor_missing (bw : ℚ) : turnoutFactor none bw = 0 := rfl

/-- normalised margins of non-negative counts lie in [-1, 1] -/
theorem normMargin_bounded (dem gop : ℚ) (hd : 0 ≤ dem) (hg : 0 ≤ gop) :
    -1 ≤ normMargin dem gop ∧ normMargin dem gop ≤ 1 := by
  unfold normMargin divz
  split
  · constructor <;> norm_num
  · rename_i h
    have hpos : 0 < dem + gop := lt_of_le_of_ne (by linarith) (Ne.symm h)
    constructor
    · rw [le_div_iff₀ hpos]; linarith
    · rw [div_le_one hpos]; linarith

/-! ### boundary examples (non-vacuity): exactly at the threshold is reporting; exactly at a limit is excluded -/

def exCfg : Cfg := ⟨.drop, 90, 1/2, 2, [7], [3], [], []⟩

example : category exCfg ⟨1, 0, 100, 90, [5], some 100, 1⟩ = .expected ∧
    isReporting exCfg ⟨1, 0, 100, 90, [5], some 100, 1⟩ = true := by decide +kernel
example : category exCfg ⟨1, 0, 100, 100, [5], some 50, 1/2⟩ = .strangeTF := by decide +kernel
example : category exCfg ⟨1, 0, 100, 100, [5], some 200, 2⟩ = .strangeTF := by decide +kernel
example : category exCfg ⟨1, 0, 100, 89, [5], some 200, 2⟩ = .expected := by decide +kernel
example : category exCfg ⟨7, 0, 0, 100, [5], some 200, 0⟩ = .blocklisted := by decide +kernel
example : category exCfg ⟨1, 3, 0, 100, [5], some 200, 0⟩ = .blocklisted := by decide +kernel
example : category exCfg ⟨1, 0, 0, 100, [5], some 200, 0⟩ = .zeroBaseline := by decide +kernel

end ElexModel.Units


/-! ### bridge: `CombinedDataHandler.get_units` / `_get_non_modeled_units` as they are in `/repo/src` on this run -/

namespace ElexModel.Units

/-- the row predicates of the source are those of the model -/
theorem bridge_reporting (c : Cfg) (r : Row) :
    isReporting c r = Gen.C09.is_reporting r.pev c.thr ∧ (!isReporting c r) = Gen.C09.is_nonreporting r.pev c.thr := by
  unfold isReporting Gen.C09.is_reporting Gen.C09.is_nonreporting
  refine ⟨rfl, ?_⟩
  by_cases h : c.thr ≤ r.pev
  · simp [h]
  · simp [h]; exact lt_of_not_ge h

theorem bridge_strange (c : Cfg) (r : Row) : strange c r = Gen.C09.strange_turnout_factor r.tf c.tfLo c.tfHi := rfl

theorem bridge_blocklisted (c : Cfg) (r : Row) :
    blocklisted c r = Gen.C09.blocklisted (c.unitBlock.contains r.id) (c.stateBlock.contains r.state) := rfl

/-- the frames are concatenated in the order of the model's precedence (`drop_duplicates` keeps the first), with these category
    labels; outlier models are gated on more than the minimum number of units and are fitted on the reporting units *without* the
    blocklisted and zero-baseline ones; the three frames returned; the left merge and the unreporting policy -/
theorem bridge_get_units_shape :
    Gen.C09.non_modeled_order = ["units_blocklisted", "units_with_zero_baseline", "units_with_strange_turnout_factor", "units_with_strange_turnout_factor_modeled", "units_with_strange_margin_change_modeled"] ∧
    Gen.C09.categories = ["units_blocklisted -> non-modeled: blocklisted", "units_with_zero_baseline -> non-modeled: zero baseline", "units_with_strange_turnout_factor -> non-modeled: strange turnout factor", "units_with_strange_turnout_factor_modeled -> non-modeled: strange turnout factor modeled", "units_with_strange_margin_change_modeled -> non-modeled: strange margin change modeled", "reporting_units -> expected", "nonreporting_units -> expected", "unexpected_units -> unexpected"] ∧
    Gen.C09.non_modeled_combined = ["pd.concat(non_modeled_units_list).reset_index(drop=True).drop_duplicates(subset='geographic_unit_fips')"] ∧
    Gen.C09.zero_baseline = ["self.data[np.isclose(self.data.baseline_weights, 0)].geographic_unit_fips", "self.data[self.data['geographic_unit_fips'].isin(zero_baseline_units)].copy()"] ∧
    Gen.C09.outlier_gates = ["fit_turnout_outlier_model and reporting_units.shape[0] > self.n_minimum_for_outlier_detection_model", "'margin' in self.estimands", "fit_margin_outlier_model and reporting_units.shape[0] > self.n_minimum_for_outlier_detection_model"] ∧
    Gen.C09.outlier_input = ["reporting_units[~reporting_units.geographic_unit_fips.isin(pd.concat([units_blocklisted, units_with_zero_baseline]).geographic_unit_fips)]"] ∧
    Gen.C09.get_units_sequence = ["reporting_units = self.data[self.data.percent_expected_vote >= percent_reporting_threshold].reset_index(drop=True)", "unexpected_units = self._get_unexpected_units(aggregates)", "reporting_units = reporting_units[~reporting_units.geographic_unit_fips.isin(unexpected_units.geographic_unit_fips)].reset_index(drop=True)", "reporting_units = reporting_units[~reporting_units.geographic_unit_fips.isin(non_modeled_units.geographic_unit_fips)].reset_index(drop=True)", "nonreporting_units = self.data[self.data.percent_expected_vote < percent_reporting_threshold].reset_index(drop=True)", "nonreporting_units = nonreporting_units[~nonreporting_units.geographic_unit_fips.isin(unexpected_units.geographic_unit_fips)].reset_index(drop=True)", "nonreporting_units = nonreporting_units[~nonreporting_units.geographic_unit_fips.isin(non_modeled_units.geographic_unit_fips)].reset_index(drop=True)", "all_unexpected_units = pd.concat([unexpected_units, non_modeled_units]).reset_index(drop=True)"] ∧
    Gen.C09.get_units_returned = ["(reporting_units, nonreporting_units, all_unexpected_units)"] ∧
    Gen.C09.unexpected_units = ["self.current_data[~self.current_data['geographic_unit_fips'].isin(expected_geographic_units)].reset_index(drop=True).drop_duplicates(subset='geographic_unit_fips').copy()", "self._get_expected_geographic_unit_fips().tolist()"] ∧
    Gen.C09.merge = ["preprocessed_data.merge(current_data, how='left', on=['postal_code', 'geographic_unit_fips'])"] ∧
    Gen.C09.unreporting_policy = ["handle_unreporting == 'drop' : data = data.dropna(axis=0, how='any', subset=result_cols)", "handle_unreporting == 'zero' : indices_with_null_val = data[result_cols].isna().any(axis=1) ; data.update(data[result_cols].fillna(value=0)) ; data.loc[indices_with_null_val, 'percent_expected_vote'] = 0"] :=
  ⟨rfl, rfl, rfl, rfl, rfl, rfl, rfl, rfl, rfl, rfl, rfl⟩

/-- a feed row without an expected vote figure is taken at 0 (`Feed.pev = none`, `joinRow` uses `getD 0`): the statement of
    `CombinedDataHandler.__init__` that does it, after the merge and the unreporting policy (fix F-20) -/
theorem bridge_missing_expected_vote :
    Gen.C09.missing_expected_vote = ["'percent_expected_vote' in data.columns : data['percent_expected_vote'] = data['percent_expected_vote'].fillna(0)"] := rfl

theorem joinRow_missing_pev (p : Policy) (n : ℕ) (b : Base) (feed : List Feed) (f : Feed) (r : Row)
    (hf : findFeed b feed = some f) (hc : complete f = true) (hp : f.pev = none) (h : joinRow p n b feed = some r) :
    r.pev = 0 := by
  unfold joinRow at h
  rw [hf] at h
  simp only [hc, if_true, Option.some.injEq] at h
  subst h
  simp [hp]

/-- the derived quantities of the `Estimandizer` as written in the source -/
theorem bridge_estimandizer (dem gop : ℚ) :
    margin dem gop = Gen.C09.est_margin dem gop ∧ twoParty dem gop = Gen.C09.est_weights dem gop ∧
    normMargin dem gop = Gen.C09.est_normalized_margin dem gop := ⟨rfl, rfl, rfl⟩

theorem bridge_turnout_factor (w bw : ℚ) : turnoutFactor (some w) bw = Gen.C09.turnout_factor w bw := rfl

theorem bridge_baseline_plus_one (b : ℚ) : Gen.C09.last_election_results b = b + 1 := rfl

/-- the baseline weights of a run do not depend on what the baseline frame already carries: they are reset to turnout, and a derived
    estimand (`margin` sets the two-party weights) is recomputed whenever its generating function exists, column present or not (fix F-19) -/
theorem bridge_derived_baseline_recomputed :
    Gen.C09.baseline_weights_reset = ["data_df = self.add_weights(data_df, BASELINE_PREFIX)"] ∧
    Gen.C09.derived_baseline_guard = ["baseline_col not in data_df.columns or callable(globals().get(estimand))"] := ⟨rfl, rfl⟩

theorem bridge_default_weights :
    Gen.C09.default_weights = ["data_df[f'{col_prefix}weights'] = data_df[f'{col_prefix}turnout']"] := rfl

end ElexModel.Units

/-! ### the category decision with the source's own row predicates -/

namespace ElexModel.Units

/-- the precedence of `_get_non_modeled_units` (frames concatenated in this order, first occurrence kept) over the row predicates as
    they are written in `/repo/src` today -/
def categorySrc (c : Cfg) (r : Row) : Cat :=
  if Gen.C09.blocklisted (c.unitBlock.contains r.id) (c.stateBlock.contains r.state) then .blocklisted
  else if r.bw = 0 then .zeroBaseline
  else if Gen.C09.is_reporting r.pev c.thr && Gen.C09.strange_turnout_factor r.tf c.tfLo c.tfHi then .strangeTF
  else if Gen.C09.is_reporting r.pev c.thr && c.flaggedTF.contains r.id then .tfOutlier
  else if Gen.C09.is_reporting r.pev c.thr && c.flaggedMargin.contains r.id then .marginOutlier
  else .expected

theorem categorySrc_eq (c : Cfg) (r : Row) : categorySrc c r = category c r := by
  unfold categorySrc category
  rw [← bridge_blocklisted, ← (bridge_reporting c r).1, ← bridge_strange]

/-- **C09 on the source**: a unit is used to fit exactly when it is not blocklisted, has a non-zero baseline, is at or above the
    threshold, has a turnout factor strictly inside the limits and is not flagged by an enabled outlier model -/
theorem source_fit_iff (c : Cfg) (r : Row) :
    (categorySrc c r = .expected ∧ Gen.C09.is_reporting r.pev c.thr = true) ↔
      (blocklisted c r = false ∧ r.bw ≠ 0 ∧ c.thr ≤ r.pev ∧ c.tfLo < r.tf ∧ r.tf < c.tfHi ∧
        r.id ∉ c.flaggedTF ∧ r.id ∉ c.flaggedMargin) := by
  rw [categorySrc_eq, ← (bridge_reporting c r).1]; exact fit_iff c r

/-- … and it is predicted exactly when it is not blocklisted, has a non-zero baseline and is below the threshold -/
theorem source_predicted_iff (c : Cfg) (r : Row) :
    (categorySrc c r = .expected ∧ Gen.C09.is_nonreporting r.pev c.thr = true) ↔
      (blocklisted c r = false ∧ r.bw ≠ 0 ∧ r.pev < c.thr) := by
  rw [categorySrc_eq, ← (bridge_reporting c r).2]
  have := predicted_iff c r
  simp only [Bool.not_eq_true'] at *
  exact this

end ElexModel.Units
