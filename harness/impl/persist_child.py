"""child process for C18: environment is read by elexmodel at import time, so every configuration runs in its own process.
stdin: one JSON configuration; stdout: one JSON line {"puts": [...keys...], "files": [...], "outcome": ...}"""
import json
import os
import sys
import tempfile

cfg = json.loads(sys.stdin.read())
if cfg["app_env"] is None:
    os.environ.pop("APP_ENV", None)      # the variable is not set at all
else:
    os.environ["APP_ENV"] = cfg["app_env"]
os.environ["DATA_ENV"] = cfg["data_env"]
os.environ["MODEL_S3_BUCKET"] = cfg["bucket"]
os.environ["MODEL_S3_PATH_ROOT"] = cfg["root"]
work = tempfile.mkdtemp(prefix="c18_")
os.chdir(work)

import boto3  # noqa: E402

PUTS = []
GETS = []
PRE_CSV = {}


class FakeS3:
    def put_object(self, **kw):
        k = sum(1 for p in PUTS if "marker" not in p)
        ack = cfg.get("nack_put") is None or k != cfg["nack_put"]
        PUTS.append({"bucket": kw.get("Bucket"), "key": kw.get("Key"), "content_type": kw.get("ContentType"), "ack": ack})
        return {"ok": True} if ack else None     # the service does not acknowledge this put

    def get_object(self, **kw):
        # the baseline may be read from remote storage (the production way of calling the client): served from memory
        key = str(kw.get("Key"))
        if PRE_CSV.get("csv") is not None and key.endswith(".csv") and "/data/" in key:
            import io
            GETS.append(key)
            return {"Body": io.BytesIO(PRE_CSV["csv"].encode()), "LastModified": "verif"}
        raise RuntimeError("no reads expected: " + key)


boto3.client = lambda *a, **k: FakeS3()

sys.path.insert(0, cfg["verif"])
sys.path.insert(0, cfg["src"])
import warnings  # noqa: E402

warnings.filterwarnings("ignore", append=True)
import logging  # noqa: E402

import elexmodel  # noqa: E402

assert elexmodel.__file__.startswith(cfg["src"]), elexmodel.__file__
import elexmodel.utils.file_utils  # noqa: E402,F401  (reads the environment now, before the harness modules set their own defaults)
logging.disable(logging.CRITICAL)
import random  # noqa: E402

import numpy as np  # noqa: E402

from harness import election as E  # noqa: E402
from harness.props.c14 import exact_election  # noqa: E402

rng = random.Random(cfg["seed"])
e = exact_election(rng, cfg["n_reporting"], n_partial=3)
if cfg.get("counties"):
    pass
if cfg.get("pre_from_s3"):
    PRE_CSV["csv"] = e.pre.to_csv(index=False)
extra = {"save_output": cfg["save_output"]} if cfg["save_output"] is not None else {}
outcome = "completed"
clients = []
try:
    cl = E.client_mod().ModelClient()
    for call in cfg["calls"]:
        kw = dict(raw_config=e.config(), pi_method=cfg["pi"], aggregates=call["aggregates"],
                  model_parameters={"fit_margin_outlier_model": False, "fit_turnout_outlier_model": False, **cfg.get("params", {})},
                  features=cfg.get("features", []), fixed_effects={})
        if not cfg.get("pre_from_s3"):
            kw["preprocessed_data"] = e.pre.copy()
        if call["save_output"] is not None:
            kw["save_output"] = call["save_output"]
        PUTS.append({"marker": "call"})
        with np.errstate(all="ignore"):
            feed = e.cur.copy()
            if cfg.get("feed") == "empty-frame":
                feed = feed.iloc[0:0]                      # the call made before the first results arrive
            elif cfg.get("feed") == "header-only":
                feed = [list(feed.columns)]
            cl.get_estimates(feed, E.ELECTION_ID, e.office, cfg["estimands"], cfg["alphas"], e.threshold, e.unit_type, **kw)
except Exception as ex:
    outcome = type(ex).__name__
files = []
for root, dirs, fs in os.walk(work):
    for f in fs:
        files.append(os.path.relpath(os.path.join(root, f), work))
import shutil
shutil.rmtree(work, ignore_errors=True)
print(json.dumps({"puts": PUTS, "gets": GETS, "files": sorted(files), "outcome": outcome, "office": e.office, "unit_type": e.unit_type,
                  "election_id": E.ELECTION_ID}))
