"""shared explore/replay for the API-level table properties (C01, C02, C03, C09)"""
from harness import apicheck as A
from harness import common as C

BUDGET = {"quick": 45, "thorough": 1500, "search": 200}


def explore(run, driver, budget, prop, rule, pi_cycle=("nonparametric", "gaussian", "bootstrap"), corpus=()):
    run.info["rule"] = rule
    n = BUDGET[budget]
    cases = []
    if budget != "search":
        cases += [c(run.rng) for c in corpus]
    for i in range(n):
        pi = pi_cycle[i % len(pi_cycle)]
        size = "small" if (budget == "quick" or run.rng.random() < 0.8) else "medium"
        cases.append(A.gen_case(run.rng, pi_method=pi, size=size))
    for k in range(0, len(cases), 100):
        A.run_batch(run, cases[k:k + 100], driver, (prop,))


def replay(run, driver, payload, prop):
    rc = payload.get("replay_case")
    if rc is None:
        raise SystemExit("replay file has no case")
    case = A.case_from_json(rc)
    A.run_and_check(run, case, driver, (prop,))
