import ElexModel.Core.Num
/-
Model of the contest-effect decomposition of the bootstrap estimator (`BootstrapElectionModel._estimate_epsilon`, `_estimate_delta`):
the leave-one-out residual of every training unit is split into a contest-level effect `epsilon` (the mean residual of the contest,
and 0 for a contest with fewer than two units) and a unit-level rest `delta`.

A unit is a pair (contest index, residual).  The source computes `epsilon` by least squares against the 0/1 contest indicator matrix;
for an indicator matrix in which every unit belongs to exactly one contest that is the per-contest mean (and 0 for a contest without
units, the minimum-norm solution) - this identification is validated by the correspondence check, not proved.
-/
namespace ElexModel.BootErr
open ElexModel

def contestSum (c : Nat) : List (Nat × Rat) → Rat
  | [] => 0
  | (k, r) :: t => (if k = c then r else 0) + contestSum c t

def contestCount (c : Nat) : List (Nat × Rat) → Nat
  | [] => 0
  | (k, _) :: t => (if k = c then 1 else 0) + contestCount c t

/-- `_estimate_epsilon`: the mean residual of the contest; 0 when the contest has fewer than two units -/
def epsilon (rs : List (Nat × Rat)) (c : Nat) : Rat :=
  if contestCount c rs < 2 then 0 else contestSum c rs / (contestCount c rs : Rat)

/-- `_estimate_delta`: what is left of each residual after taking out its contest's effect -/
def deltaPairs (rs : List (Nat × Rat)) : List (Nat × Rat) := rs.map (fun p => (p.1, p.2 - epsilon rs p.1))

def delta (rs : List (Nat × Rat)) : List Rat := (deltaPairs rs).map Prod.snd

/-! ### `np.interp` as the stratum distributions use it (`_estimate_strata_dist`: `ppf_creator`, `cdf_creator`)

`interp x left right pts` = `np.interp(x, xp, fp, left, right)` for points `(xp, fp)` with increasing `xp`: `left` before the first knot,
`right` after the last, the knot's value at a knot, the chord in between.  (numpy rejects an empty point list; here it gives `right`,
and every theorem is about the values, not about that case.) -/

def interpAux (x right : Rat) : List (Rat × Rat) → Rat
  | [] => right
  | (x0, f0) :: rest =>
    if x ≤ x0 then f0 else
    match rest with
    | [] => right
    | (x1, f1) :: _ => if x < x1 then f0 + (f1 - f0) * (x - x0) / (x1 - x0) else interpAux x right rest

def interp (x left right : Rat) (pts : List (Rat × Rat)) : Rat :=
  match pts with
  | [] => right
  | (x0, _) :: _ => if x < x0 then left else interpAux x right pts

end ElexModel.BootErr
