import ElexModel.Core.Persist
import ElexModel.Gen.C18
import Mathlib.Data.List.Basic

/-!
# C18 — nothing is persisted unless asked; results are saved before the too-few-units error

`effects` is the ordered list of remote puts and local files of one `get_estimates` call.  Quantifiers: every
combination of save options, environment, estimator, request lists and both outcomes of the gate.
-/

namespace ElexModel.Persist

/-- membership in the effects, once and for all -/
theorem mem_effects (c : Cfg) (e : Eff) :
    e ∈ effects c ↔
      e ∈ localFiles c ∨
      (c.isLocal = false ∧ c.saveResults = true ∧ e ∈ liveKeys c) ∨
      (c.gatePass = true ∧ c.gaussian = true ∧ c.saveConf = true ∧
        ∃ est ∈ c.estimands, ∃ l ∈ c.levels, ∃ a ∈ c.alphas, e ∈ gaussKeys c est l.1 a) ∨
      (c.gatePass = true ∧ c.isLocal = false ∧ c.saveResults = true ∧ e ∈ predictionKeys c) := by
  unfold effects
  cases h1 : c.isLocal <;> cases h2 : c.saveResults <;> cases h3 : c.gatePass <;> cases h4 : c.gaussian <;>
    cases h5 : c.saveConf <;> simp [List.mem_flatMap]

theorem kind_localFiles (c : Cfg) (e : Eff) (h : e ∈ localFiles c) : kindOf e = none := by
  unfold localFiles at h
  split_ifs at h <;> simp at h <;> (try rcases h with rfl | rfl) <;> (try subst h) <;> rfl

theorem kind_liveKeys (c : Cfg) (e : Eff) (h : e ∈ liveKeys c) : kindOf e = some .live := by
  simp only [liveKeys, List.mem_cons, List.mem_nil_iff, or_false] at h
  rcases h with rfl | rfl <;> rfl

theorem kind_gaussKeys (c : Cfg) (est l a : String) (e : Eff) (h : e ∈ gaussKeys c est l a) : kindOf e = some .gauss := by
  simp only [gaussKeys, List.mem_cons, List.mem_nil_iff, or_false] at h
  rcases h with rfl | rfl <;> rfl

theorem kind_predictionKeys (c : Cfg) (e : Eff) (h : e ∈ predictionKeys c) : kindOf e = some .pred := by
  unfold predictionKeys at h
  rcases List.mem_append.mp h with h | h
  · obtain ⟨l, _, rfl⟩ := List.mem_map.mp h; rfl
  · split_ifs at h
    · simp at h; subst h; rfl
    · cases h

/-- **with no options nothing is written anywhere** (remote or local), whatever the environment, estimator or outcome -/
theorem nothing_by_default (c : Cfg) (h1 : c.saveResults = false) (h2 : c.saveData = false) (h3 : c.saveConfig = false)
    (h4 : c.saveConf = false) : effects c = [] := by
  unfold effects localFiles
  simp [h1, h2, h3, h4]

/-- **live results and prediction tables are written only when `results` is requested outside the local environment** -/
theorem results_only_nonlocal (c : Cfg) (e : Eff) (he : e ∈ effects c) (hk : kindOf e = some .live ∨ kindOf e = some .pred) :
    c.isLocal = false ∧ c.saveResults = true := by
  rcases (mem_effects c e).mp he with h | ⟨h1, h2, _⟩ | ⟨_, _, _, est, _, l, _, a, _, h⟩ | ⟨_, h1, h2, _⟩
  · rw [kind_localFiles c e h] at hk; rcases hk with hk | hk <;> cases hk
  · exact ⟨h1, h2⟩
  · rw [kind_gaussKeys c est l.1 a e h] at hk; rcases hk with hk | hk <;> cases hk
  · exact ⟨h1, h2⟩

/-- … and then they are: the two live-result objects always, one prediction object per returned table if the run completes -/
theorem results_written (c : Cfg) (hl : c.isLocal = false) (hs : c.saveResults = true) :
    (∀ e ∈ liveKeys c, e ∈ effects c) ∧ (c.gatePass = true → ∀ e ∈ predictionKeys c, e ∈ effects c) := by
  constructor
  · intro e he; exact (mem_effects c e).mpr (Or.inr (Or.inl ⟨hl, hs, he⟩))
  · intro hg e he; exact (mem_effects c e).mpr (Or.inr (Or.inr (Or.inr ⟨hg, hl, hs, he⟩)))

/-- **conformalization data goes to remote storage only when requested** and only for the gaussian estimator -/
theorem conformalization_only_if_asked (c : Cfg) (e : Eff) (he : e ∈ effects c) (hk : kindOf e = some .gauss) :
    c.saveConf = true ∧ c.gaussian = true := by
  rcases (mem_effects c e).mp he with h | ⟨_, _, h⟩ | ⟨_, h1, h2, _⟩ | ⟨_, _, _, h⟩
  · rw [kind_localFiles c e h] at hk; cases hk
  · rw [kind_liveKeys c e h] at hk; cases hk
  · exact ⟨h2, h1⟩
  · rw [kind_predictionKeys c e h] at hk; cases hk

/-- … in any environment (also the local one) -/
theorem conformalization_any_env (c : Cfg) (hg : c.gatePass = true) (h1 : c.gaussian = true) (h2 : c.saveConf = true)
    (est : String) (hest : est ∈ c.estimands) (l : String × String) (hl : l ∈ c.levels) (a : String) (ha : a ∈ c.alphas) :
    ∀ e ∈ gaussKeys c est l.1 a, e ∈ effects c := by
  intro e he
  exact (mem_effects c e).mpr (Or.inr (Or.inr (Or.inl ⟨hg, h1, h2, est, hest, l, hl, a, ha, he⟩)))

/-- `data` and `config` only create local files -/
theorem data_config_local_only (c : Cfg) : puts (localFiles c) = [] := by
  unfold localFiles puts; split_ifs <;> simp [isPut]

/-- in the local environment, without the conformalization option, nothing is written remotely -/
theorem local_no_puts (c : Cfg) (hl : c.isLocal = true) (hc : c.saveConf = false) : puts (effects c) = [] := by
  unfold puts
  rw [List.filter_eq_nil_iff]
  intro e he
  rcases (mem_effects c e).mp he with h | ⟨h1, _⟩ | ⟨_, _, h2, _⟩ | ⟨_, h1, _⟩
  · have := kind_localFiles c e h; cases e <;> simp_all [isPut, kindOf]
  · rw [hl] at h1; cases h1
  · rw [hc] at h2; cases h2
  · rw [hl] at h1; cases h1

/-- **the live results are written before the too-few-units check**: when the gate fails the effects are exactly the
    local files and (if `results` is requested outside the local environment) the two live-result objects -/
theorem saved_before_gate (c : Cfg) (hg : c.gatePass = false) :
    effects c = localFiles c ++ (if !c.isLocal && c.saveResults then liveKeys c else []) := by
  unfold effects; simp [hg]

/-- and they come first among the remote objects when the gate passes -/
theorem live_results_first (c : Cfg) (hl : c.isLocal = false) (hs : c.saveResults = true) :
    ∃ rest, effects c = localFiles c ++ liveKeys c ++ rest := by
  unfold effects
  simp only [hl, hs, Bool.not_false, Bool.and_true, if_true]
  exact ⟨_, rfl⟩

/-- exactly one prediction object per returned table -/
theorem one_prediction_per_table (c : Cfg) :
    (predictionKeys c).length = c.levels.length + (if c.unitTable then 1 else 0) := by
  unfold predictionKeys; split_ifs <;> simp

/-- two gaussian objects per (estimand, level, alpha) -/
theorem gauss_two_per_cell (c : Cfg) (e l a : String) : (gaussKeys c e l a).length = 2 := rfl

/-! ### every remote key is a path under the configured root and the election id, built from whitespace-free literals -/

/-- **every remote key starts with the configured root and the election id** -/
theorem keys_under_root (c : Cfg) (e : Eff) (he : e ∈ effects c) (hp : isPut e = true) : (keyOf e).take 2 = [c.root, c.eid] := by
  rcases (mem_effects c e).mp he with h | ⟨_, _, h⟩ | ⟨_, _, _, est, _, l, _, a, _, h⟩ | ⟨_, _, _, h⟩
  · have := kind_localFiles c e h; cases e <;> simp_all [isPut, kindOf]
  · simp only [liveKeys, List.mem_cons, List.mem_nil_iff, or_false] at h
    rcases h with rfl | rfl <;> rfl
  · simp only [gaussKeys, List.mem_cons, List.mem_nil_iff, or_false] at h
    rcases h with rfl | rfl <;> rfl
  · unfold predictionKeys at h
    rcases List.mem_append.mp h with h | h
    · obtain ⟨l, _, rfl⟩ := List.mem_map.mp h; rfl
    · split_ifs at h
      · simp at h; subst h; rfl
      · cases h

def literalOk (s : String) : Bool := !(s.toList.any Char.isWhitespace)

/-- the literal path components the code uses (everything else in a key is a caller-supplied parameter) -/
def literals : List String :=
  ["results", "current.csv", "current_counties.csv", "gaussian", "conformalization_data.csv", "bounds.csv", "predictions",
   "unit_data", "-"]

theorem literals_whitespace_free : ∀ s ∈ literals, literalOk s = true := by decide

/-! ### bridge to the key templates, flags and guards as written in `/repo/src` on this run -/

theorem bridge_keys (c : Cfg) (e l a t : String) :
    liveKeys c = [.put .live (Gen.C18.live_key c.root c.eid c.office c.utype),
                  .put .live (Gen.C18.live_counties_key c.root c.eid c.office c.utype)] ∧
    gaussKeys c e l a = [.put .gauss (Gen.C18.gauss_conf_key c.root c.eid c.office c.utype e l a),
                         .put .gauss (Gen.C18.gauss_bounds_key c.root c.eid c.office c.utype e l a)] ∧
    Gen.C18.prediction_key c.root c.eid c.office c.utype t = [c.root, c.eid, "predictions", c.office, c.utype, t, "current.csv"] := by
  refine ⟨rfl, ?_, rfl⟩
  unfold gaussKeys Gen.C18.gauss_conf_key Gen.C18.gauss_bounds_key
  have h1 : "conformalization_data" ++ ".csv" = "conformalization_data.csv" := by decide
  have h2 : "bounds" ++ ".csv" = "bounds.csv" := by decide
  rw [h1, h2]

theorem bridge_guards (isLocal saveResults : Bool) :
    Gen.C18.live_guard isLocal saveResults = (!isLocal && saveResults) ∧
    Gen.C18.final_guard isLocal saveResults = (!isLocal && saveResults) ∧
    Gen.C18.live_before_gate = true ∧ Gen.C18.final_after_gate = true ∧
    Gen.C18.save_output_default = ["results"] := ⟨rfl, rfl, rfl, rfl, rfl⟩

theorem bridge_gauss_guard (top agg sc : Bool) : Gen.C18.gauss_write_guard top agg sc = (top && agg && sc) := rfl

theorem bridge_flags (so : List String) :
    Gen.C18.flag_results so = so.contains "results" ∧ Gen.C18.flag_data so = so.contains "data" ∧
    Gen.C18.flag_config so = so.contains "config" ∧ Gen.C18.flag_conformalization so = so.contains "conformalization" :=
  ⟨rfl, rfl, rfl, rfl⟩

/-! ### non-vacuity -/
def exCfg : Cfg := ⟨true, true, false, true, false, true, true, "root-dev", "E", "G", "county", ["turnout"], ["0.7"],
  [("postal_code", "state_data")], true⟩

example : (effects exCfg).length = 1 + 2 + 2 + 2 := by decide
example : effects { exCfg with gatePass := false } =
    [.file ["data", "E", "G", "data_county.csv"], .put .live ["root-dev", "E", "results", "G", "county", "current.csv"],
     .put .live ["root-dev", "E", "results", "G", "county", "current_counties.csv"]] := by decide


/-! ### a storage service that does not acknowledge a put (`runWithFault`)

A run that *ends normally* — with its tables or with the dedicated too-few-units error — has stored every object the call owes;
an unacknowledged put ends the call with the storage error at that point. -/

theorem walk_none (i : Nat) (l : List Eff) : walk none i l = (l, puts l, false) := by
  induction l generalizing i with
  | nil => simp [walk, puts]
  | cons e rest ih =>
    unfold walk
    by_cases h : isPut e = true
    · simp [h, ih, puts]
    · simp [h, ih, puts]

/-- the walk is cut short exactly when the unacknowledged position exists -/
theorem walk_cut_iff (k i : Nat) (l : List Eff) : (walk (some k) i l).2.2 = true ↔ i ≤ k ∧ k < i + (puts l).length := by
  induction l generalizing i with
  | nil => simp [walk, puts]
  | cons e rest ih =>
    unfold walk
    by_cases h : isPut e = true
    · by_cases hk : k = i
      · subst hk
        simp [h, puts]
      · have hk' : ¬ (some k = some i) := by simpa using hk
        simp only [h, if_true, hk', if_false]
        rw [ih (i + 1)]
        simp [puts, h]
        omega
    · simp only [h]
      simp only [Bool.false_eq_true, if_false]
      rw [ih i]
      simp [puts, h]

/-- when the walk is not cut short everything took hold -/
theorem walk_complete (nack : Option Nat) (i : Nat) (l : List Eff) (h : (walk nack i l).2.2 = false) :
    (walk nack i l).1 = l ∧ (walk nack i l).2.1 = puts l := by
  induction l generalizing i with
  | nil => simp [walk, puts]
  | cons e rest ih =>
    unfold walk at h ⊢
    by_cases hp : isPut e = true
    · by_cases hk : nack = some i
      · simp [hp, hk] at h
      · simp only [hp, if_true, hk, if_false] at h ⊢
        have := ih (i + 1) h
        simp [this.1, this.2, puts, hp]
    · simp only [hp] at h ⊢
      simp only [Bool.false_eq_true, if_false] at h ⊢
      have := ih i h
      simp [this.1, this.2, puts, hp]

/-- **a run that ends normally has stored everything it owes**: if the call returns its tables or raises the dedicated
    too-few-units error, every effect of the fault-free call took hold, whatever the storage did -/
theorem ends_normally_all_stored (c : Cfg) (nack : Option Nat) (h : (runWithFault c nack).outcome ≠ .storageError) :
    (runWithFault c nack).stored = effects c ∧ (runWithFault c nack).attempted = puts (effects c) ∧
    (runWithFault c nack).outcome = gateOutcome c := by
  unfold runWithFault at h ⊢
  by_cases hc : (walk nack 0 (effects c)).2.2 = true
  · simp [hc] at h
  · have hf : (walk nack 0 (effects c)).2.2 = false := by simpa using hc
    have := walk_complete nack 0 (effects c) hf
    simp [hf, this.1, this.2]

/-- **the too-few-units error still means the live results are stored**, also against a faulty storage -/
theorem not_enough_still_saved (c : Cfg) (nack : Option Nat) (hl : c.isLocal = false) (hs : c.saveResults = true)
    (h : (runWithFault c nack).outcome = .notEnough) : ∀ e ∈ liveKeys c, e ∈ (runWithFault c nack).stored := by
  have hne : (runWithFault c nack).outcome ≠ .storageError := by rw [h]; decide
  have := ends_normally_all_stored c nack hne
  rw [this.1]
  intro e he
  unfold effects
  simp [hl, hs, he]

/-- **an unacknowledged put ends the call with the storage error**: the call attempted exactly the puts up to that one -/
theorem fault_aborts (c : Cfg) (k : Nat) (hk : k < (puts (effects c)).length) :
    (runWithFault c (some k)).outcome = .storageError := by
  unfold runWithFault
  have : (walk (some k) 0 (effects c)).2.2 = true := (walk_cut_iff k 0 (effects c)).mpr ⟨Nat.zero_le _, by omega⟩
  simp [this]

/-- without faults the run is the fault-free one -/
theorem no_fault_run (c : Cfg) : (runWithFault c none).stored = effects c ∧ (runWithFault c none).outcome = gateOutcome c := by
  unfold runWithFault
  rw [walk_none]
  simp

/-- `S3Util.put` raises when the service returns nothing, `get_estimates` has no handler, and "local" is read from `APP_ENV` without a
    default (shape anchors, regenerated) -/
theorem bridge_storage_faults :
    Gen.C18.put_ack_shape = ["self.client.put_object(**kwargs)", "Raise"] ∧ Gen.C18.client_catches = 0 ∧
    Gen.C18.app_env_source = ["os.getenv('APP_ENV')"] := ⟨rfl, rfl, rfl⟩

example : (runWithFault exCfg (some 2)).outcome = .storageError ∧ (runWithFault exCfg (some 2)).attempted.length = 3 ∧
    (runWithFault exCfg (some 2)).stored.length = 3 ∧ (runWithFault exCfg (some 9)).outcome = .completed ∧
    (runWithFault { exCfg with gatePass := false } (some 1)).outcome = .storageError ∧
    (runWithFault { exCfg with gatePass := false } none).outcome = .notEnough := by decide

end ElexModel.Persist
