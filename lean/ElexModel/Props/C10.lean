import ElexModel.Props.C11
import ElexModel.Gen.C10

/-!
# C10 — outstanding and excluded units cannot influence anyone else's estimate

Part 1 (`Units`): replacing the counts of one unit that is below the threshold (percent unchanged), blocklisted or
zero-baseline leaves the fitting frame — everything the regressions, the calibration split and the bootstrap are fed —
unchanged, and changes no other row of any frame.  Part 2 (`Agg`): in every aggregate table only the rows of the groups
containing the unit can change.  Part 3: in a historical evaluation the results of units that are not yet reporting are
masked before the model sees them.
-/

namespace ElexModel.Units
open ElexModel

/-- the category of a unit below the threshold does not depend on its counts (nor on its turnout factor) -/
theorem category_nonreporting (c : Cfg) (r r' : Row) (hid : r'.id = r.id) (hst : r'.state = r.state) (hbw : r'.bw = r.bw)
    (hp : r.pev < c.thr) (hp' : r'.pev < c.thr) : category c r' = category c r := by
  have d : decide (c.thr ≤ r.pev) = false := by simp [not_le.mpr hp]
  have d' : decide (c.thr ≤ r'.pev) = false := by simp [not_le.mpr hp']
  unfold category isReporting blocklisted
  rw [d, d', hid, hst, hbw]
  simp

/-- a blocklisted unit stays blocklisted whatever it reports -/
theorem category_blocklisted (c : Cfg) (r r' : Row) (hid : r'.id = r.id) (hst : r'.state = r.state)
    (h : blocklisted c r = true) : category c r' = .blocklisted ∧ category c r = .blocklisted := by
  have h' : blocklisted c r' = true := by unfold blocklisted at *; rw [hid, hst]; exact h
  exact ⟨reason_blocklisted c r' h', reason_blocklisted c r h⟩

/-- a zero-baseline unit stays non-modelled whatever it reports -/
theorem category_zero_baseline (c : Cfg) (r r' : Row) (hid : r'.id = r.id) (hst : r'.state = r.state) (hbw : r'.bw = r.bw)
    (hz : r.bw = 0) : category c r' = category c r := by
  unfold category blocklisted
  rw [hid, hst, hbw, hz]
  simp

/-- the perturbation: the feed row of unit `x` is replaced by `g` of it -/
def perturb (x : ℕ) (g : Feed → Feed) (feed : List Feed) : List Feed := feed.map (fun f => if f.id = x then g f else f)

theorem findFeed_perturb (x : ℕ) (g : Feed → Feed) (hgid : ∀ f, (g f).id = f.id) (hgst : ∀ f, (g f).state = f.state)
    (b : Base) (feed : List Feed) :
    findFeed b (perturb x g feed) = (findFeed b feed).map (fun f => if f.id = x then g f else f) := by
  unfold findFeed perturb
  rw [List.find?_map]
  have : ((fun f : Feed => f.id == b.id && f.state == b.state) ∘ fun f => if f.id = x then g f else f) =
      (fun f : Feed => f.id == b.id && f.state == b.state) := by
    funext f
    simp only [Function.comp]
    split <;> simp [hgid, hgst]
  rw [this]

/-- rows of other units are joined exactly as before -/
theorem joinRow_other (p : Policy) (n x : ℕ) (g : Feed → Feed) (hgid : ∀ f, (g f).id = f.id) (hgst : ∀ f, (g f).state = f.state)
    (b : Base) (hb : b.id ≠ x) (feed : List Feed) : joinRow p n b (perturb x g feed) = joinRow p n b feed := by
  unfold joinRow
  rw [findFeed_perturb x g hgid hgst]
  cases h : findFeed b feed with
  | none => rfl
  | some f =>
    have hf : f.id = b.id := by
      unfold findFeed at h
      have := List.find?_some h
      simp only [Bool.and_eq_true, beq_iff_eq] at this
      exact this.1
    have : ¬ f.id = x := by rw [hf]; exact hb
    simp [this]

theorem filterMap_filter_congr {α β : Type} (l : List α) (f g : α → Option β) (q : β → Bool)
    (h : ∀ a ∈ l, (f a).filter q = (g a).filter q) : (l.filterMap f).filter q = (l.filterMap g).filter q := by
  induction l with
  | nil => rfl
  | cons a t ih =>
    have ha := h a (List.mem_cons_self ..)
    have iht := ih (fun b hb => h b (List.mem_cons_of_mem _ hb))
    simp only [List.filterMap_cons]
    cases hf : f a with
    | none =>
      cases hg : g a with
      | none => simpa using iht
      | some y =>
        rw [hf, hg] at ha
        have hy : q y = false := by
          by_contra hq
          simp [Option.filter, hq] at ha
        simp [List.filter_cons, hy, iht]
    | some x =>
      cases hg : g a with
      | none =>
        rw [hf, hg] at ha
        have hx : q x = false := by
          by_contra hq
          simp [Option.filter, hq] at ha
        simp [List.filter_cons, hx, iht]
      | some y =>
        rw [hf, hg] at ha
        by_cases hx : q x = true
        · by_cases hy : q y = true
          · have : x = y := by simpa [Option.filter, hx, hy] using ha
            subst this
            simp [List.filter_cons, hx, iht]
          · simp [Option.filter, hx, hy] at ha
        · by_cases hy : q y = true
          · simp [Option.filter, hx, hy] at ha
          · simp [List.filter_cons, hx, hy, iht]

/-- **the fitting frame does not change**: if unit `x` is not a fitting row before or after the change (it is below the
    threshold, blocklisted or zero-baseline), the list of reporting units — rows and order — is identical, hence so is
    every argument handed to the regressions, the calibration split and the bootstrap -/
theorem rep_invariant (c : Cfg) (n x : ℕ) (g : Feed → Feed) (hgid : ∀ f, (g f).id = f.id) (hgst : ∀ f, (g f).state = f.state)
    (base : List Base) (feed : List Feed)
    (hx : ∀ b ∈ base, b.id = x → ∀ r, joinRow c.policy n b feed = some r → (category c r == .expected && isReporting c r) = false)
    (hx' : ∀ b ∈ base, b.id = x → ∀ r, joinRow c.policy n b (perturb x g feed) = some r →
      (category c r == .expected && isReporting c r) = false) :
    (split c n base (perturb x g feed)).rep = (split c n base feed).rep := by
  unfold split dataRows
  simp only
  apply filterMap_filter_congr
  intro b hb
  by_cases hbx : b.id = x
  · have h1 : (joinRow c.policy n b feed).filter (fun r => category c r == .expected && isReporting c r) = none := by
      cases hj : joinRow c.policy n b feed with
      | none => rfl
      | some r => simp [Option.filter, hx b hb hbx r hj]
    have h2 : (joinRow c.policy n b (perturb x g feed)).filter (fun r => category c r == .expected && isReporting c r) = none := by
      cases hj : joinRow c.policy n b (perturb x g feed) with
      | none => rfl
      | some r => simp [Option.filter, hx' b hb hbx r hj]
    rw [h1, h2]
  · rw [joinRow_other c.policy n x g hgid hgst b hbx feed]

/-- **no other unit's row changes in any frame**: the joined data differ at most in the row of unit `x` -/
theorem other_rows_invariant (p : Policy) (n x : ℕ) (g : Feed → Feed) (hgid : ∀ f, (g f).id = f.id) (hgst : ∀ f, (g f).state = f.state)
    (base : List Base) (feed : List Feed) :
    (dataRows p n base (perturb x g feed)).filter (fun r => r.id != x) = (dataRows p n base feed).filter (fun r => r.id != x) := by
  unfold dataRows
  apply filterMap_filter_congr
  intro b _
  by_cases hbx : b.id = x
  · have : ∀ fd, (joinRow p n b fd).filter (fun r => r.id != x) = none := by
      intro fd
      cases hj : joinRow p n b fd with
      | none => rfl
      | some r =>
        have := joinRow_id hj
        simp [Option.filter, this, hbx]
    rw [this, this]
  · rw [joinRow_other p n x g hgid hgst b hbx feed]

end ElexModel.Units

namespace ElexModel.Agg
open ElexModel ElexModel.Table

theorem sumAt_replace (k : ℕ) (f : U → ℚ) (l₁ l₂ : List U) (u u' : U) (hkey : u'.key = u.key) (hk : u.key ≠ some k) :
    sumAt k (col f (l₁ ++ u' :: l₂)) = sumAt k (col f (l₁ ++ u :: l₂)) := by
  have hk' : u'.key ≠ some k := by rw [hkey]; exact hk
  simp only [col_append, sumAt_append, sumAt_cons_u, hk, hk', if_false]

/-- **groups not containing the unit keep every number**: replacing an outstanding unit's row (its partial count and its own
    prediction and bounds) changes the value functions only at the unit's own group key -/
theorem other_groups_invariant (cls : Bool) (rep l₁ l₂ unexp : List U) (u u' : U) (hkey : u'.key = u.key) (k : ℕ)
    (hk : u.key ≠ some k) :
    resultsAt cls rep (l₁ ++ u' :: l₂) unexp k = resultsAt cls rep (l₁ ++ u :: l₂) unexp k ∧
    predAt cls rep (l₁ ++ u' :: l₂) unexp k = predAt cls rep (l₁ ++ u :: l₂) unexp k ∧
    lowerAt cls rep (l₁ ++ u' :: l₂) unexp k = lowerAt cls rep (l₁ ++ u :: l₂) unexp k ∧
    upperAt cls rep (l₁ ++ u' :: l₂) unexp k = upperAt cls rep (l₁ ++ u :: l₂) unexp k := by
  unfold resultsAt predAt lowerAt upperAt
  simp only [attributable_eq, sumAt_replace k _ l₁ l₂ u u' hkey hk]
  exact ⟨trivial, trivial, trivial, trivial⟩

/-- in the unit's own group only its own terms move: the difference of the group's value is the difference of the unit's
    own contribution -/
theorem own_group_only_own_terms (cls : Bool) (rep l₁ l₂ unexp : List U) (u u' : U) (hkey : u'.key = u.key) (k : ℕ)
    (hk : u.key = some k) :
    predAt cls rep (l₁ ++ u' :: l₂) unexp k - predAt cls rep (l₁ ++ u :: l₂) unexp k = u'.pred - u.pred ∧
    resultsAt cls rep (l₁ ++ u' :: l₂) unexp k - resultsAt cls rep (l₁ ++ u :: l₂) unexp k = u'.results - u.results := by
  have hk' : u'.key = some k := by rw [hkey]; exact hk
  unfold resultsAt predAt
  simp only [attributable_eq, col_append, sumAt_append, sumAt_cons_u, hk, hk', if_true]
  constructor <;> ring

/-- the same for a unit of the third frame (blocklisted, zero-baseline, unexpected): only its own group, only by its own votes -/
theorem excluded_unit_local (cls : Bool) (rep nonrep l₁ l₂ : List U) (u u' : U) (hkey : u'.key = u.key) (k : ℕ) (hk : u.key ≠ some k) :
    resultsAt cls rep nonrep (l₁ ++ u' :: l₂) k = resultsAt cls rep nonrep (l₁ ++ u :: l₂) k ∧
    predAt cls rep nonrep (l₁ ++ u' :: l₂) k = predAt cls rep nonrep (l₁ ++ u :: l₂) k := by
  have hk' : u'.key ≠ some k := by rw [hkey]; exact hk
  unfold resultsAt predAt attributable counted
  cases cls <;> simp only [Bool.false_eq_true, if_false, if_true, col_append, sumAt_append, sumAt_cons_u, hk, hk']
  · exact ⟨trivial, trivial⟩
  · exact ⟨trivial, trivial⟩

/-! ### historical evaluation -/

/-- **the historical results of a unit that is not yet reporting are hidden**: whatever they are, the model sees 0
    (the definition is regenerated from `_format_historical_current_data` on every run) -/
theorem historical_hidden (pev thr v v' : ℚ) (h : pev < thr) : Gen.C10.hist_mask pev thr v = Gen.C10.hist_mask pev thr v' := by
  unfold Gen.C10.hist_mask
  have : ¬ (pev ≥ thr) := not_le.mpr h
  simp [this]

theorem historical_visible (pev thr v : ℚ) (h : thr ≤ pev) : Gen.C10.hist_mask pev thr v = v := by
  unfold Gen.C10.hist_mask; simp [h]

end ElexModel.Agg
