import ElexModel.Core.Num
/-
numpy's default ("linear") quantile of a finite sample, on exact rationals.
`np.quantile(a, q)`: sort, virtual index `h = q (n-1)`, `i = ⌊h⌋`, result `a[i] + (h - i)(a[i+1] - a[i])`
with the upper index clipped to `n-1`.
-/
namespace ElexModel

/-- clipped access into a sample: positions beyond the last repeat the last element -/
def clipGet (s : List Rat) (i : Nat) : Rat := s.getD (min i (s.length - 1)) 0

/-- linear interpolation of a position-indexed sample at the virtual index `h ≥ 0` -/
def lerpAt (x : Nat → Rat) (h : Rat) : Rat :=
  let i := h.floor.toNat
  x i + (h - (i : Rat)) * (x (i + 1) - x i)

/-- insertion into a sorted list (structural, so that the kernel can evaluate examples) -/
def insertR (a : Rat) : List Rat → List Rat
  | [] => [a]
  | b :: t => if a ≤ b then a :: b :: t else b :: insertR a t

/-- ascending sort -/
def sortR (xs : List Rat) : List Rat := xs.foldr insertR []

/-- `np.quantile(xs, q)` for `0 ≤ q ≤ 1` and a non-empty sample -/
def npQuantile (xs : List Rat) (q : Rat) : Rat :=
  let s := sortR xs
  lerpAt (clipGet s) (q * ((s.length : Rat) - 1))

end ElexModel
