import ElexModel.Core.Conformal
/-
Model of `elexmodel.utils.math_utils.weighted_median` and `compute_inflate` (calibration statistics of the gaussian model, C15).
-/
namespace ElexModel.MathUtils
open ElexModel ElexModel.Conformal

/-- the *last* element whose running weight is `≤ 1/2` (`np.where(cum <= 0.5)[0][-1]`): its value, its running weight and the
    value of the element after it -/
def lastHalf : Rat → List (Rat × Rat) → Option (Rat × Rat × Option Rat)
  | _, [] => none
  | acc, (x, w) :: t =>
    match lastHalf (acc + w) t with
    | some r => some r
    | none => if acc + w ≤ 1/2 then some (x, acc + w, t.head?.map Prod.fst) else none

/-- `weighted_median(x, weights)` on pairs sorted by value (weights are expected to sum to 1): the smallest value if it alone
    outweighs one half; otherwise the element after the last running weight `≤ 1/2`, or the midpoint with it when that running
    weight is exactly `1/2`; no value if there is no element after it (IndexError in numpy) -/
def wmedianSorted (s : List (Rat × Rat)) : Option Rat :=
  match s with
  | [] => none
  | (x0, w0) :: _ =>
    if 1/2 < w0 then some x0
    else match lastHalf 0 s with
      | some (x, a, some nx) => if a = 1/2 then some ((x + nx) / 2) else some nx
      | _ => none

def wmedian (xw : List (Rat × Rat)) : Option Rat := wmedianSorted (sortS xw)

/-- `compute_inflate`: Σ x² / (Σ x)² -/
def inflate (xs : List Rat) : Rat := sumR (xs.map (fun x => x * x)) / (sumR xs * sumR xs)

end ElexModel.MathUtils
