import Mathlib.Tactic.NormNum
import Mathlib.Tactic.Linarith
import Mathlib.Tactic.Positivity
import ElexModel.Core.Boot
import ElexModel.Core.BootAgg
import ElexModel.Core.BootErr
import ElexModel.Lemmas.Quantile
import ElexModel.Gen.C06

/-!
# C06 — bootstrap intervals are ordered, nested by level, margins stay in [-1, 1]

Quantifiers: every number of draws `B ≥ 2`, every level in `(0,1)`, every list of draws, every
prediction, every group (any units). The quantile ranks are stated robustly: for *any*
`la ∈ (0, ½)`, `ua ∈ (½, 1)` (a float `1 - la` need not be the exact `1 - la`).
-/

namespace ElexModel.Boot
open ElexModel

/-- **ranks are valid ranks**: `0 ≤ lower rank ≤ upper rank ≤ B` -/
theorem ranks_valid (B : ℕ) (hB : 2 ≤ B) (la ua : ℚ) (h0 : 0 < la) (h1 : la < 1/2)
    (h2 : 1/2 < ua) (h3 : ua < 1) :
    0 ≤ lowerRank la B ∧ lowerRank la B ≤ upperRank ua B ∧ upperRank ua B ≤ (B : ℤ) := by
  unfold lowerRank upperRank
  rw [ratFloor_eq, ratCeil_eq]
  have hBq : (2:ℚ) ≤ B := by exact_mod_cast hB
  refine ⟨?_, ?_, ?_⟩
  · apply Int.floor_nonneg.mpr; positivity
  · have hL : (⌊la * ((B:ℚ) + 1)⌋ : ℚ) < ((B:ℚ) + 1) / 2 := by
      have := Int.floor_le (la * ((B:ℚ) + 1))
      nlinarith
    have hU : ((B:ℚ) - 1) / 2 < (⌈ua * ((B:ℚ) - 1)⌉ : ℚ) := by
      have := Int.le_ceil (ua * ((B:ℚ) - 1))
      nlinarith
    have hL' : 2 * ⌊la * ((B:ℚ) + 1)⌋ < (B:ℤ) + 1 := by
      have : (2 * (⌊la * ((B:ℚ) + 1)⌋ : ℚ)) < (B:ℚ) + 1 := by linarith
      exact_mod_cast this
    have hU' : (B:ℤ) - 1 < 2 * ⌈ua * ((B:ℚ) - 1)⌉ := by
      have : (B:ℚ) - 1 < 2 * (⌈ua * ((B:ℚ) - 1)⌉ : ℚ) := by linarith
      exact_mod_cast this
    omega
  · apply Int.ceil_le.mpr
    push_cast
    nlinarith

theorem lowerAlpha_range {alpha : ℚ} (h0 : 0 < alpha) (h1 : alpha < 1) :
    0 < lowerAlpha alpha ∧ lowerAlpha alpha < 1/2 := by
  unfold lowerAlpha; constructor <;> linarith

theorem upperAlpha_range {alpha : ℚ} (h0 : 0 < alpha) (h1 : alpha < 1) :
    1/2 < upperAlpha alpha ∧ upperAlpha alpha < 1 := by
  unfold upperAlpha lowerAlpha; constructor <;> linarith

/-- **the quantile levels are valid**: `0 ≤ lower_q ≤ upper_q ≤ 1` for every level and every `B ≥ 2` -/
theorem quantile_levels_valid (B : ℕ) (hB : 2 ≤ B) (alpha : ℚ) (h0 : 0 < alpha) (h1 : alpha < 1) :
    0 ≤ lowerQ alpha B ∧ lowerQ alpha B ≤ upperQ alpha B ∧ upperQ alpha B ≤ 1 := by
  obtain ⟨a, b, c⟩ := ranks_valid B hB _ _ (lowerAlpha_range h0 h1).1 (lowerAlpha_range h0 h1).2
    (upperAlpha_range h0 h1).1 (upperAlpha_range h0 h1).2
  have hBpos : (0:ℚ) < B := by
    have : (2:ℚ) ≤ B := by exact_mod_cast hB
    linarith
  unfold lowerQ upperQ
  refine ⟨?_, ?_, ?_⟩
  · apply div_nonneg _ hBpos.le; exact_mod_cast a
  · apply div_le_div_of_nonneg_right _ hBpos.le; exact_mod_cast b
  · rw [div_le_one hBpos]; exact_mod_cast c

/-- a higher level uses a lower lower-rank and a higher upper-rank -/
theorem ranks_mono (B : ℕ) (hB : 1 ≤ B) (a b : ℚ) (hab : a ≤ b) :
    lowerQ b B ≤ lowerQ a B ∧ upperQ a B ≤ upperQ b B := by
  have hBq : (1:ℚ) ≤ B := by exact_mod_cast hB
  have hBpos : (0:ℚ) < B := by linarith
  unfold lowerQ upperQ lowerRank upperRank lowerAlpha upperAlpha lowerAlpha
  rw [ratFloor_eq, ratFloor_eq, ratCeil_eq, ratCeil_eq]
  constructor
  · apply div_le_div_of_nonneg_right _ hBpos.le
    have : ⌊(1 - b) / 2 * ((B:ℚ) + 1)⌋ ≤ ⌊(1 - a) / 2 * ((B:ℚ) + 1)⌋ := by
      apply Int.floor_le_floor; nlinarith
    exact_mod_cast this
  · apply div_le_div_of_nonneg_right _ hBpos.le
    have : ⌈(1 - (1 - a) / 2) * ((B:ℚ) - 1)⌉ ≤ ⌈(1 - (1 - b) / 2) * ((B:ℚ) - 1)⌉ := by
      apply Int.ceil_le_ceil; nlinarith
    exact_mod_cast this

/-- **unit intervals are ordered** (before rounding) -/
theorem unitRaw_ordered (pred : ℚ) (draws : List ℚ) (hne : draws ≠ []) (alpha : ℚ) (B : ℕ)
    (hB : 2 ≤ B) (h0 : 0 < alpha) (h1 : alpha < 1) :
    (unitRaw pred draws alpha B).1 ≤ (unitRaw pred draws alpha B).2 := by
  obtain ⟨a, b, _⟩ := quantile_levels_valid B hB alpha h0 h1
  have := npQuantile_mono draws hne _ _ a b
  unfold unitRaw; simp only; linarith

/-- **unit intervals are ordered**: `lower ≤ upper` after rounding -/
theorem unit_ordered (pred : ℚ) (draws : List ℚ) (hne : draws ≠ []) (alpha : ℚ) (B : ℕ)
    (hB : 2 ≤ B) (h0 : 0 < alpha) (h1 : alpha < 1) :
    (unitInterval pred draws alpha B).1 ≤ (unitInterval pred draws alpha B).2 := by
  unfold unitInterval; simp only
  exact rhe_mono (unitRaw_ordered pred draws hne alpha B hB h0 h1)

/-- **unit intervals are nested by level** for the same draws -/
theorem unit_nested (pred : ℚ) (draws : List ℚ) (hne : draws ≠ []) (a b : ℚ) (B : ℕ)
    (hB : 2 ≤ B) (h0 : 0 < a) (hab : a ≤ b) (h1 : b < 1) :
    (unitInterval pred draws b B).1 ≤ (unitInterval pred draws a B).1 ∧
    (unitInterval pred draws a B).2 ≤ (unitInterval pred draws b B).2 := by
  obtain ⟨m1, m2⟩ := ranks_mono B (by omega) a b hab
  obtain ⟨lb0, _, _⟩ := quantile_levels_valid B hB b (lt_of_lt_of_le h0 hab) h1
  obtain ⟨_, la_le_ua, _⟩ := quantile_levels_valid B hB a h0 (lt_of_le_of_lt hab h1)
  obtain ⟨la0, _, _⟩ := quantile_levels_valid B hB a h0 (lt_of_le_of_lt hab h1)
  have q1 := npQuantile_mono draws hne _ _ lb0 m1
  have q2 := npQuantile_mono draws hne _ _ (le_trans la0 la_le_ua) m2
  unfold unitInterval unitRaw; simp only
  exact ⟨rhe_mono (by linarith), rhe_mono (by linarith)⟩

/-- the overlap guarantee: after the `± 0.001` step the interval strictly contains the prediction -/
theorem straddle_strict (pred : ℚ) (r : ℚ × ℚ) :
    (straddle pred r).1 < pred ∧ pred < (straddle pred r).2 := by
  unfold straddle
  simp only [rmin_eq, rmax_eq]
  constructor
  · exact lt_of_le_of_lt (min_le_right _ _) (by linarith)
  · exact lt_of_lt_of_le (by linarith) (le_max_right _ _)

/-- **aggregate intervals strictly contain the prediction** for every group that is not called and
    not stop-listed (and for every group of a level where race calls do not apply) -/
theorem agg_straddle (top : Bool) (c : Call) (stop : Bool) (pred : ℚ) (draws : List ℚ) (alpha : ℚ) (B : ℕ)
    (h : top = false ∨ (c = .none ∧ stop = false)) :
    (aggInterval top c stop pred draws alpha B).1 < pred ∧
    pred < (aggInterval top c stop pred draws alpha B).2 := by
  unfold aggInterval
  simp only
  rcases h with h | ⟨hc, hs⟩
  · subst h; simp only [Bool.false_eq_true, if_false]; exact straddle_strict _ _
  · subst hc; subst hs
    have := straddle_strict pred (pred - npQuantile draws (upperQ alpha B), pred - npQuantile draws (lowerQ alpha B))
    cases top
    · simpa using this
    · simp only [if_true, overrideStop, overrideCalled]
      simpa using this

/-- **aggregate intervals are nested by level** for uncalled, unstopped groups (same draws, same prediction) -/
theorem agg_nested (top : Bool) (pred : ℚ) (draws : List ℚ) (hne : draws ≠ []) (a b : ℚ) (B : ℕ)
    (hB : 2 ≤ B) (h0 : 0 < a) (hab : a ≤ b) (h1 : b < 1) :
    (aggInterval top .none false pred draws b B).1 ≤ (aggInterval top .none false pred draws a B).1 ∧
    (aggInterval top .none false pred draws a B).2 ≤ (aggInterval top .none false pred draws b B).2 := by
  obtain ⟨m1, m2⟩ := ranks_mono B (by omega) a b hab
  obtain ⟨lb0, _, _⟩ := quantile_levels_valid B hB b (lt_of_lt_of_le h0 hab) h1
  obtain ⟨la0, la_le_ua, _⟩ := quantile_levels_valid B hB a h0 (lt_of_le_of_lt hab h1)
  have q1 := npQuantile_mono draws hne _ _ lb0 m1
  have q2 := npQuantile_mono draws hne _ _ (le_trans la0 la_le_ua) m2
  have key : (straddle pred (pred - npQuantile draws (upperQ b B), pred - npQuantile draws (lowerQ b B))).1 ≤
        (straddle pred (pred - npQuantile draws (upperQ a B), pred - npQuantile draws (lowerQ a B))).1 ∧
      (straddle pred (pred - npQuantile draws (upperQ a B), pred - npQuantile draws (lowerQ a B))).2 ≤
        (straddle pred (pred - npQuantile draws (upperQ b B), pred - npQuantile draws (lowerQ b B))).2 := by
    unfold straddle; simp only [rmin_eq, rmax_eq]
    exact ⟨min_le_min_right _ (by linarith), max_le_max_right _ (by linarith)⟩
  unfold aggInterval
  cases top
  · simpa using key
  · simp only [if_true, overrideStop, overrideCalled]
    simpa using key

/-! ### bridge: the definitions regenerated from `/repo/src` are the ones the theorems are about -/

/-- `BootstrapElectionModel._get_quantiles` as translated from the source on this run -/
theorem bridge_get_quantiles (alpha : ℚ) (B : ℕ) :
    Gen.C06.get_quantiles alpha (B : ℚ) = (lowerQ alpha B, upperQ alpha B) := by
  rfl

/-- the two `± 0.001` lines of `get_aggregate_prediction_intervals` as translated from the source -/
theorem bridge_straddle (pred lo hi : ℚ) :
    (Gen.C06.straddle_lower lo pred, Gen.C06.straddle_upper hi pred) = straddle pred (lo, hi) := by
  rfl

/-! ### margins stay in [-1, 1] -/

/-- a sum of per-unit margins bounded by the per-unit two-party turnout is bounded by the total turnout -/
theorem sum_abs_le (yz z : List ℚ) (hlen : yz.length = z.length)
    (h : ∀ i (h1 : i < yz.length) (h2 : i < z.length), |yz[i]| ≤ z[i]) :
    |sumR yz| ≤ sumR z := by
  induction yz generalizing z with
  | nil => cases z with
    | nil => simp [sumR]
    | cons a t => simp at hlen
  | cons y ys ih =>
    cases z with
    | nil => simp at hlen
    | cons a t =>
      simp only [sumR]
      have h0 := h 0 (by simp) (by simp)
      simp only [List.getElem_cons_zero] at h0
      have ht := ih t (by simpa using hlen) (by
        intro i h1 h2
        have := h (i+1) (by simpa using h1) (by simpa using h2)
        simpa using this)
      calc |y + sumR ys| ≤ |y| + |sumR ys| := abs_add_le _ _
        _ ≤ a + sumR t := add_le_add h0 ht

/-- **the predicted normalised margin of a group is in [-1, 1] and its predicted turnout is ≥ 0**, whenever
    every unit's (counted or predicted) margin is bounded by its (counted or predicted) two-party turnout —
    including the `0/0 ↦ 0` branch -/
theorem margin_bounded (yz z : List ℚ) (hlen : yz.length = z.length)
    (h : ∀ i (h1 : i < yz.length) (h2 : i < z.length), |yz[i]| ≤ z[i]) :
    -1 ≤ predMargin yz z ∧ predMargin yz z ≤ 1 ∧ 0 ≤ sumR z := by
  have hs := sum_abs_le yz z hlen h
  have hz : 0 ≤ sumR z := le_trans (abs_nonneg _) hs
  unfold predMargin divz
  split
  · exact ⟨by norm_num, by norm_num, hz⟩
  · rename_i hne
    have hpos : 0 < sumR z := lt_of_le_of_ne hz (Ne.symm hne)
    have := abs_le.mp hs
    refine ⟨?_, ?_, hz⟩
    · rw [le_div_iff₀ hpos]; linarith
    · rw [div_le_one hpos]; linarith

/-- the clip stage: a margin draw clipped to `[-1,1]` times a non-negative turnout draw is bounded by it -/
theorem clip_product_bounded (w y z : ℚ) (hw : 0 ≤ w) (hy : -1 ≤ y ∧ y ≤ 1) (hz : 0 ≤ z) :
    |w * y * z| ≤ w * z := by
  rw [abs_le]; constructor <;> nlinarith [mul_nonneg hw hz]

/-- a counted unit: `|dem − gop| ≤ dem + gop` for non-negative counts -/
theorem counted_margin_bounded (dem gop : ℚ) (hd : 0 ≤ dem) (hg : 0 ≤ gop) : |dem - gop| ≤ dem + gop := by
  rw [abs_le]; constructor <;> linarith

/-! ### documented limitation: nesting is *not* claimed for called contests

After a race-call override the wider level need not contain the narrower one: the override
replaces a negative lower bound by +0.005, independently per level. -/
example :
    let draws : List ℚ := [0, 0, 0, 0, 0, 0, 1/125, 1/125, 1/50, 1/50]
    let narrow := aggInterval true .lhs false (1/100) draws (1/2) 10
    let wide := aggInterval true .lhs false (1/100) draws (9/10) 10
    narrow.1 = 1/500 ∧ wide.1 = 1/200 := by decide +kernel

/-! ### non-vacuity -/
example : (unitInterval 100 [3, -2, 7, 1] (7/10) 4) = (96, 102) := by decide +kernel
example : 0 ≤ lowerQ (9/10) 10 ∧ lowerQ (9/10) 10 ≤ upperQ (9/10) 10 ∧ upperQ (9/10) 10 ≤ 1 :=
  quantile_levels_valid 10 (by omega) (9/10) (by norm_num) (by norm_num)

end ElexModel.Boot

/-! ### bridge: the aggregate formulas of the bootstrap model as dataflow of the source (indicator-matrix products as leaves) -/

namespace ElexModel.BootAgg
open ElexModel ElexModel.Boot

/-- one draw of `divided_error_B_1 − divided_error_B_2` -/
theorem bridge_error_diff (U : Units) (g b : ℕ) :
    errorDiff U g b = Gen.C06.error_diff (zUnexp U g) (yzUnexp U g) (zTrain U g) (yzTrain U g)
      (sumOn g U.nonrep (·.g) (fun u => nth u.e1 b)) (sumOn g U.nonrep (·.g) (fun u => nth u.e2 b))
      (sumOn g U.nonrep (·.g) (fun u => nth u.e3 b)) (sumOn g U.nonrep (·.g) (fun u => nth u.e4 b)) := rfl

/-- the centre of the interval: the reported (race-call adjusted) prediction at the top level, the recomputed quotient below -/
theorem bridge_interval_centre (U : Units) (top : Bool) (c : Call) (g : ℕ) :
    intervalCentre U top c g = Gen.C06.interval_centre top (adjustPred c (predMarginRaw U g))
      (zUnexp U g) (yzUnexp U g) (zTrain U g) (yzTrain U g) (zTest U g) (yzTest U g) := by
  unfold intervalCentre Gen.C06.interval_centre predMarginRecomputed predTurnout
  cases top <;> rfl

/-- predicted turnout and the two normalised columns of `get_aggregate_predictions` -/
theorem bridge_pred_columns (U : Units) (g : ℕ) :
    predTurnout U g = Gen.C06.pred_turnout (zUnexp U g) (zTrain U g) (zTest U g) ∧
    predMarginRaw U g = Gen.C06.pred_margin (predMarginSum U g) (zUnexp U g) (zTrain U g) (zTest U g) := ⟨rfl, rfl⟩

theorem bridge_boot_shape :
    Gen.C06.draws_stored = ["self._is_top_level_aggregate(aggregate): self.divided_error_B_1 = divided_error_B_1; self.divided_error_B_2 = divided_error_B_2"] ∧
    Gen.C06.pred_turnout_column = ["aggregate_z_total"] ∧
    Gen.C06.raw_sums = ["super().get_aggregate_predictions(reporting_units, nonreporting_units, unexpected_units, aggregate, estimand)"] :=
  ⟨rfl, rfl, rfl⟩

end ElexModel.BootAgg

/-! ### C06 stated directly about the regenerated source terms -/

namespace ElexModel.Boot
open ElexModel

/-- **C06 on the source**: the two levels `_get_quantiles` returns are valid and ordered for every `B ≥ 2`, `0 < α < 1` -/
theorem source_quantile_levels_valid (B : ℕ) (hB : 2 ≤ B) (alpha : ℚ) (h0 : 0 < alpha) (h1 : alpha < 1) :
    0 ≤ (Gen.C06.get_quantiles alpha (B : ℚ)).1 ∧
    (Gen.C06.get_quantiles alpha (B : ℚ)).1 ≤ (Gen.C06.get_quantiles alpha (B : ℚ)).2 ∧
    (Gen.C06.get_quantiles alpha (B : ℚ)).2 ≤ 1 := by
  rw [bridge_get_quantiles]
  exact quantile_levels_valid B hB alpha h0 h1

/-- **C06 on the source**: after the two `± 0.001` lines the prediction lies strictly inside the bounds -/
theorem source_straddle_strict (pred lo hi : ℚ) :
    Gen.C06.straddle_lower lo pred < pred ∧ pred < Gen.C06.straddle_upper hi pred := by
  unfold Gen.C06.straddle_lower Gen.C06.straddle_upper
  rw [rmin_eq, rmax_eq]
  constructor
  · exact lt_of_le_of_lt (min_le_right _ _) (by norm_num)
  · exact lt_of_lt_of_le (by norm_num) (le_max_right _ _)

/-! ### the clip bounds of a nonreporting unit (`_generate_nonreporting_bounds`, regenerated from source)

`clip_product_bounded` and `margin_bounded` above assume that every clipped normalised margin lies in `[-1, 1]` and every clipped turnout
factor is non-negative.  The bounds the clip uses are functions of the unit's expected-vote percentage and its partial observation; the
two theorems below discharge that assumption for the formulas as they stand in the source: the margin bounds stay between the naive
bounds and bracket the observation (this needs the expected-vote fraction clipped at 1, which the source does with `.clip(max=100)`),
the turnout-factor bounds are non-negative and ordered. -/

/-- the expected-vote fraction used by the clip bounds: clipped at 100 percent -/
theorem frac_le_one (pev : ℚ) : rmin pev 100 / 100 ≤ 1 := by
  unfold rmin
  split
  · rw [div_le_one (by norm_num)]; assumption
  · norm_num

theorem source_y_bounds (pev obs lb ub : ℚ) (h1 : lb ≤ obs) (h2 : obs ≤ ub) :
    lb ≤ Gen.C06.y_lower_bound pev obs lb ub ∧ Gen.C06.y_lower_bound pev obs lb ub ≤ obs ∧
    obs ≤ Gen.C06.y_upper_bound pev obs lb ub ∧ Gen.C06.y_upper_bound pev obs lb ub ≤ ub := by
  have hf := frac_le_one pev
  unfold Gen.C06.y_lower_bound Gen.C06.y_upper_bound
  by_cases hn : (decide (rmin pev 100 / 100 < 1 / 2) || decide (rmin pev 100 / 100 = 1)) = true
  · simp only [hn, if_true]
    exact ⟨le_rfl, h1, h2, le_rfl⟩
  · simp only [hn]
    have hhalf : (1:ℚ)/2 ≤ rmin pev 100 / 100 := by
      simp only [Bool.or_eq_true, decide_eq_true_eq, not_or, not_lt] at hn
      exact hn.1
    set f := rmin pev 100 / 100 with hfdef
    have hf0 : 0 ≤ f := by linarith
    have hg : 0 ≤ 1 - f := by linarith
    refine ⟨?_, ?_, ?_, ?_⟩ <;> simp only [Bool.false_eq_true, if_false] <;> nlinarith [mul_nonneg hf0 (sub_nonneg.mpr h1), mul_nonneg hf0 (sub_nonneg.mpr h2), mul_nonneg hg (sub_nonneg.mpr h1), mul_nonneg hg (sub_nonneg.mpr h2)]

/-- the turnout-factor clip bounds: non-negative and ordered for a non-negative observation, a non-negative provider error bound and
    naive bounds `0 ≤ lb ≤ ub` -/
theorem source_z_bounds (pev obs eb lb ub : ℚ) (ho : 0 ≤ obs) (he : 0 ≤ eb) (hl : 0 ≤ lb) (hlu : lb ≤ ub) :
    0 ≤ Gen.C06.z_lower_bound pev obs eb lb ub ∧
    Gen.C06.z_lower_bound pev obs eb lb ub ≤ Gen.C06.z_upper_bound pev obs eb lb ub := by
  unfold Gen.C06.z_lower_bound Gen.C06.z_upper_bound
  by_cases hn : (decide (rmin pev 100 / 100 < 1 / 2) || decide (rmin pev 100 / 100 = 1)) = true
  · simp only [hn, if_true]
    exact ⟨hl, hlu⟩
  · simp only [hn, Bool.false_eq_true, if_false]
    have hhalf : (1:ℚ)/2 ≤ rmin pev 100 / 100 := by
      simp only [Bool.or_eq_true, decide_eq_true_eq, not_or, not_lt] at hn
      exact hn.1
    set f := rmin pev 100 / 100 with hfdef
    have hden : 0 < f + eb := by linarith
    have hlow : 0 ≤ obs / (f + eb) := div_nonneg ho hden.le
    have hm : 0 < rmax (f - eb) (1 / 100) := by
      unfold rmax; split <;> [norm_num; (rename_i h; linarith [not_le.mp h])]
    have hmle : rmax (f - eb) (1 / 100) ≤ f + eb := by
      unfold rmax; split <;> linarith
    refine ⟨hlow, ?_⟩
    by_cases hz : obs / rmax (f - eb) (1 / 100) = 0
    · simp only [hz, decide_true, if_true]
      have : obs = 0 := by
        rcases div_eq_zero_iff.mp hz with h | h
        · exact h
        · exact absurd h hm.ne'
      rw [this, zero_div]
      linarith
    · simp only [hz, decide_false, Bool.false_eq_true, if_false]
      exact div_le_div_of_nonneg_left ho hm hmle


example : Gen.C06.y_lower_bound 106 (-98/100) (-1) 1 = -1 ∧ Gen.C06.y_upper_bound 106 (-98/100) (-1) 1 = 1 ∧
    Gen.C06.y_lower_bound 80 (1/2) (-1) 1 = 1/5 ∧ Gen.C06.y_upper_bound 80 (1/2) (-1) 1 = 3/5 ∧
    Gen.C06.z_lower_bound 80 (9/10) (1/10) (1/2) (3/2) = 1 ∧ Gen.C06.z_upper_bound 80 (9/10) (1/10) (1/2) (3/2) = 9/7 := by
  decide +kernel


/-! ### the clip stage of `compute_bootstrap_errors`, as written in the source (regenerated: `Gen.C06.clip_*`)

The six arrays the model keeps after the bootstrap — `errors_B_1 … errors_B_4`, `weighted_yz_test_pred`, `weighted_z_test_pred` — are,
per unit and draw, the functions `Gen.C06.clip_*` of the raw draws, the unit's clip bounds and its weight.  `yPre` is *whatever* the
statements before the last clip of the margin draws computed (OLS prediction, contest effect, extrapolation from the version history,
presidential correction): the theorems hold for every value of it.  Together with `source_y_bounds` / `source_z_bounds` this removes
the "clip invariant" from the assumptions about the bootstrap oracle: it is a theorem about the source text. -/

/-- numpy's two-sided clip with ordered bounds lands between them -/
theorem clip_mem (x lo hi : ℚ) (h : lo ≤ hi) : lo ≤ rmin (rmax x lo) hi ∧ rmin (rmax x lo) hi ≤ hi := by
  unfold rmin rmax
  split_ifs <;> constructor <;> linarith

/-- mean of a list of draws -/
def meanR (l : List ℚ) : ℚ := sumR l / (l.length : ℚ)

theorem sumR_bounds (l : List ℚ) (a b : ℚ) (h : ∀ x ∈ l, a ≤ x ∧ x ≤ b) :
    a * (l.length : ℚ) ≤ sumR l ∧ sumR l ≤ b * (l.length : ℚ) := by
  induction l with
  | nil => simp [sumR]
  | cons x xs ih =>
    have hx := h x (by simp)
    have ht := ih (fun y hy => h y (by simp [hy]))
    simp only [sumR, List.length_cons, Nat.cast_add, Nat.cast_one]
    constructor <;> nlinarith [hx.1, hx.2, ht.1, ht.2]

/-- the mean of draws that all lie in `[a, b]` lies in `[a, b]` -/
theorem mean_mem (l : List ℚ) (hne : l ≠ []) (a b : ℚ) (h : ∀ x ∈ l, a ≤ x ∧ x ≤ b) :
    a ≤ meanR l ∧ meanR l ≤ b := by
  have hpos : (0 : ℚ) < (l.length : ℚ) := by
    have : 0 < l.length := List.length_pos_iff.mpr hne
    exact_mod_cast this
  have hs := sumR_bounds l a b h
  unfold meanR
  constructor
  · rw [le_div_iff₀ hpos]; exact hs.1
  · rw [div_le_iff₀ hpos]; exact hs.2

/-- **every stored draw respects the unit's feasible range**: for clip bounds `-1 ≤ yl ≤ yu ≤ 1`, `0 ≤ zl ≤ zu` and a non-negative
    weight, the turnout draws `errors_B_3`, `errors_B_4` are non-negative and the margin draws `errors_B_1`, `errors_B_2` are within
    `± turnout draw` — for every raw draw, every mean and every sampled residual -/
theorem source_clip_draws (yPre zRaw yBar zBar ry rz yl yu zl zu w : ℚ)
    (hy : yl ≤ yu) (hyl : -1 ≤ yl) (hyu : yu ≤ 1) (hzl : 0 ≤ zl) (hz : zl ≤ zu) (hw : 0 ≤ w) :
    0 ≤ Gen.C06.clip_errors_B_3 zRaw yl yu zl zu w ∧
    |Gen.C06.clip_errors_B_1 yPre zRaw yl yu zl zu w| ≤ Gen.C06.clip_errors_B_3 zRaw yl yu zl zu w ∧
    0 ≤ Gen.C06.clip_errors_B_4 zBar rz yl yu zl zu w ∧
    |Gen.C06.clip_errors_B_2 yBar zBar ry rz yl yu zl zu w| ≤ Gen.C06.clip_errors_B_4 zBar rz yl yu zl zu w := by
  unfold Gen.C06.clip_errors_B_1 Gen.C06.clip_errors_B_2 Gen.C06.clip_errors_B_3 Gen.C06.clip_errors_B_4
  have y1 := clip_mem yPre yl yu hy
  have z1 := clip_mem zRaw zl zu hz
  have y2 := clip_mem (yBar + ry) yl yu hy
  have z2 := clip_mem (zBar + rz) zl zu hz
  set a := rmin (rmax yPre yl) yu
  set b := rmin (rmax zRaw zl) zu
  set c := rmin (rmax (yBar + ry) yl) yu
  set d := rmin (rmax (zBar + rz) zl) zu
  have hb : 0 ≤ b := le_trans hzl z1.1
  have hd : 0 ≤ d := le_trans hzl z2.1
  have hbw : 0 ≤ b * w := mul_nonneg hb hw
  have hdw : 0 ≤ d * w := mul_nonneg hd hw
  refine ⟨hbw, ?_, hdw, ?_⟩
  · rw [abs_le]; constructor <;> nlinarith [y1.1, y1.2]
  · rw [abs_le]; constructor <;> nlinarith [y2.1, y2.2]

/-- **the unit point prediction respects the feasible range too**: the prediction is built from the means over the draws of the
    clipped margin and turnout-factor draws (any positive number of draws, any raw values) -/
theorem source_clip_point (yPres zRaws : List ℚ) (hy0 : yPres ≠ []) (hz0 : zRaws ≠ []) (yl yu zl zu w : ℚ)
    (hy : yl ≤ yu) (hyl : -1 ≤ yl) (hyu : yu ≤ 1) (hzl : 0 ≤ zl) (hz : zl ≤ zu) (hw : 0 ≤ w) :
    let yBar := meanR (yPres.map (fun y => Gen.C06.clip_y_draw y yl yu))
    let zBar := meanR (zRaws.map (fun z => Gen.C06.clip_z_draw z zl zu))
    0 ≤ Gen.C06.clip_weighted_z_test_pred zBar yl yu zl zu w ∧
    |Gen.C06.clip_weighted_yz_test_pred yBar zBar yl yu zl zu w| ≤ Gen.C06.clip_weighted_z_test_pred zBar yl yu zl zu w ∧
    yl ≤ yBar ∧ yBar ≤ yu ∧ zl ≤ zBar ∧ zBar ≤ zu := by
  intro yBar zBar
  have hyb : yl ≤ yBar ∧ yBar ≤ yu := by
    apply mean_mem _ (by simpa using hy0)
    intro x hx
    obtain ⟨y, _, rfl⟩ := List.mem_map.mp hx
    exact clip_mem y yl yu hy
  have hzb : zl ≤ zBar ∧ zBar ≤ zu := by
    apply mean_mem _ (by simpa using hz0)
    intro x hx
    obtain ⟨z, _, rfl⟩ := List.mem_map.mp hx
    exact clip_mem z zl zu hz
  unfold Gen.C06.clip_weighted_z_test_pred Gen.C06.clip_weighted_yz_test_pred
  have hzb0 : 0 ≤ zBar := le_trans hzl hzb.1
  have hzw : 0 ≤ zBar * w := mul_nonneg hzb0 hw
  refine ⟨hzw, ?_, hyb.1, hyb.2, hzb.1, hzb.2⟩
  rw [abs_le]; constructor <;> nlinarith [hyb.1, hyb.2]

/-- **end to end, from the provider's figures to the stored draws**: with the clip bounds computed by `_generate_nonreporting_bounds`
    (regenerated) from the unit's expected-vote percentage `pev`, its partial normalised margin `obsY ∈ [lbY, ubY] ⊆ [-1, 1]`, its partial
    turnout factor `obsZ ≥ 0`, the provider error bound `eb ≥ 0` and naive bounds `0 ≤ lbZ ≤ ubZ`, every stored draw of the unit has a
    non-negative turnout and a margin within `± turnout` — the hypotheses of `margin_bounded` for the group sums -/
theorem source_draws_feasible (pev obsY lbY ubY obsZ eb lbZ ubZ yPre zRaw yBar zBar ry rz w : ℚ)
    (h1 : lbY ≤ obsY) (h2 : obsY ≤ ubY) (hl : -1 ≤ lbY) (hu : ubY ≤ 1)
    (ho : 0 ≤ obsZ) (he : 0 ≤ eb) (hzl : 0 ≤ lbZ) (hzu : lbZ ≤ ubZ) (hw : 0 ≤ w) :
    let yl := Gen.C06.y_lower_bound pev obsY lbY ubY
    let yu := Gen.C06.y_upper_bound pev obsY lbY ubY
    let zl := Gen.C06.z_lower_bound pev obsZ eb lbZ ubZ
    let zu := Gen.C06.z_upper_bound pev obsZ eb lbZ ubZ
    0 ≤ Gen.C06.clip_errors_B_3 zRaw yl yu zl zu w ∧
    |Gen.C06.clip_errors_B_1 yPre zRaw yl yu zl zu w| ≤ Gen.C06.clip_errors_B_3 zRaw yl yu zl zu w ∧
    0 ≤ Gen.C06.clip_errors_B_4 zBar rz yl yu zl zu w ∧
    |Gen.C06.clip_errors_B_2 yBar zBar ry rz yl yu zl zu w| ≤ Gen.C06.clip_errors_B_4 zBar rz yl yu zl zu w := by
  intro yl yu zl zu
  obtain ⟨a1, a2, a3, a4⟩ := source_y_bounds pev obsY lbY ubY h1 h2
  obtain ⟨b1, b2⟩ := source_z_bounds pev obsZ eb lbZ ubZ ho he hzl hzu
  exact source_clip_draws yPre zRaw yBar zBar ry rz yl yu zl zu w (by linarith) (by linarith) (by linarith) b1 b2 hw

/-- where the clip stage takes its bounds and weights from (shape anchor) -/
theorem bridge_clip_bounds_from :
    Gen.C06.clip_bounds_from =
      ["self._generate_nonreporting_bounds(nonreporting_units, 'results_normalized_margin')",
       "self._generate_nonreporting_bounds(nonreporting_units, 'turnout_factor')",
       "nonreporting_units['baseline_weights'].values.reshape(-1, 1)"] := rfl

/-- non-vacuity: a unit at 80 % with a lopsided partial margin, a raw draw beyond the feasible range and a negative raw turnout draw -/
example :
    Gen.C06.clip_errors_B_1 (3/2) (-1) (1/5) (3/5) 1 (9/7) 100 = 60 ∧ Gen.C06.clip_errors_B_3 (-1) (1/5) (3/5) 1 (9/7) 100 = 100 ∧
    Gen.C06.clip_errors_B_2 (1/2) 1 (-2) 5 (1/5) (3/5) 1 (9/7) 100 = 180/7 ∧ Gen.C06.clip_errors_B_4 1 5 (1/5) (3/5) 1 (9/7) 100 = 900/7 ∧
    meanR [1/5, 3/5, 3/5] = 7/15 := by
  decide +kernel

end ElexModel.Boot

/-! ### the group clause of C06 at source level: counted units and clip-stage predictions together

A group's predicted normalised margin is `Σ yz / Σ z` over its counted units (reporting, unexpected: `dem − gop` over `dem + gop`) and its
outstanding units (the point predictions the clip stage stores).  With the clip bounds of every outstanding unit feasible, the margin
is in `[-1, 1]` and the predicted two-party turnout is non-negative — `margin_bounded` with its hypothesis discharged by
`counted_margin_bounded` and `source_clip_point`, i.e. by the formulas as they stand in the source. -/

namespace ElexModel.Boot
open ElexModel

/-- an outstanding unit as the clip stage sees it -/
structure ClipUnit where
  yPres : List ℚ
  zRaws : List ℚ
  yl : ℚ
  yu : ℚ
  zl : ℚ
  zu : ℚ
  w : ℚ

def ClipUnit.Feasible (u : ClipUnit) : Prop :=
  u.yPres ≠ [] ∧ u.zRaws ≠ [] ∧ u.yl ≤ u.yu ∧ -1 ≤ u.yl ∧ u.yu ≤ 1 ∧ 0 ≤ u.zl ∧ u.zl ≤ u.zu ∧ 0 ≤ u.w

def ClipUnit.yBar (u : ClipUnit) : ℚ := meanR (u.yPres.map (fun y => Gen.C06.clip_y_draw y u.yl u.yu))
def ClipUnit.zBar (u : ClipUnit) : ℚ := meanR (u.zRaws.map (fun z => Gen.C06.clip_z_draw z u.zl u.zu))
def ClipUnit.pointYZ (u : ClipUnit) : ℚ := Gen.C06.clip_weighted_yz_test_pred u.yBar u.zBar u.yl u.yu u.zl u.zu u.w
def ClipUnit.pointZ (u : ClipUnit) : ℚ := Gen.C06.clip_weighted_z_test_pred u.zBar u.yl u.yu u.zl u.zu u.w

/-- (margin, two-party votes) of every member of the group: counted units first, then the outstanding ones -/
def groupItems (counted : List (ℚ × ℚ)) (units : List ClipUnit) : List (ℚ × ℚ) :=
  counted.map (fun p => (p.1 - p.2, p.1 + p.2)) ++ units.map (fun u => (u.pointYZ, u.pointZ))

theorem groupItems_bounded (counted : List (ℚ × ℚ)) (units : List ClipUnit)
    (hc : ∀ p ∈ counted, 0 ≤ p.1 ∧ 0 ≤ p.2) (hu : ∀ u ∈ units, u.Feasible) :
    ∀ q ∈ groupItems counted units, |q.1| ≤ q.2 := by
  intro q hq
  unfold groupItems at hq
  rcases List.mem_append.mp hq with h | h
  · obtain ⟨p, hp, rfl⟩ := List.mem_map.mp h
    exact counted_margin_bounded p.1 p.2 (hc p hp).1 (hc p hp).2
  · obtain ⟨u, hu', rfl⟩ := List.mem_map.mp h
    obtain ⟨h1, h2, h3, h4, h5, h6, h7, h8⟩ := hu u hu'
    exact (source_clip_point u.yPres u.zRaws h1 h2 u.yl u.yu u.zl u.zu u.w h3 h4 h5 h6 h7 h8).2.1

/-- **every group's predicted margin is in `[-1, 1]` and its predicted turnout is non-negative**, for the formulas of the source: any
    counted units with non-negative counts, any outstanding units with feasible clip bounds, any raw draws -/
theorem source_group_margin_bounded (counted : List (ℚ × ℚ)) (units : List ClipUnit)
    (hc : ∀ p ∈ counted, 0 ≤ p.1 ∧ 0 ≤ p.2) (hu : ∀ u ∈ units, u.Feasible) :
    -1 ≤ predMargin ((groupItems counted units).map Prod.fst) ((groupItems counted units).map Prod.snd) ∧
    predMargin ((groupItems counted units).map Prod.fst) ((groupItems counted units).map Prod.snd) ≤ 1 ∧
    0 ≤ sumR ((groupItems counted units).map Prod.snd) := by
  apply margin_bounded _ _ (by simp)
  intro i h1 h2
  have hb := groupItems_bounded counted units hc hu
  simp only [List.getElem_map]
  exact hb _ (List.getElem_mem _)

example : (⟨[3/2, -2], [-1, 5], 1/5, 3/5, 1, 9/7, 100⟩ : ClipUnit).Feasible := by
  unfold ClipUnit.Feasible; refine ⟨by simp, by simp, ?_⟩; norm_num

end ElexModel.Boot

/-! ### the contest-effect decomposition of the bootstrap (`_estimate_epsilon`, `_estimate_delta`; model `Core/BootErr`)

Every training residual is split into the effect of its contest and a unit-level rest.  For every assignment of units to contests and
every residual: the split is exact, the rests of a contest with at least two units sum to zero (so estimating the effect again on the
rests gives zero: the decomposition is idempotent), a contest with a single unit gets no effect (its residual is its rest), and the
effect of a contest is a function of the residuals of its own units only. -/

namespace ElexModel.BootErr
open ElexModel

theorem decomposition (rs : List (ℕ × ℚ)) (i : ℕ) (h : i < rs.length) :
    (rs[i]).2 = epsilon rs (rs[i]).1 + (delta rs)[i]'(by simp [delta, deltaPairs, h]) := by
  simp [delta, deltaPairs]

theorem contestCount_map (c : ℕ) (f : ℕ → ℚ) (rs : List (ℕ × ℚ)) :
    contestCount c (rs.map (fun p => (p.1, p.2 - f p.1))) = contestCount c rs := by
  induction rs with
  | nil => rfl
  | cons p t ih => obtain ⟨k, r⟩ := p; simp [contestCount, ih]

theorem contestSum_map (c : ℕ) (f : ℕ → ℚ) (rs : List (ℕ × ℚ)) :
    contestSum c (rs.map (fun p => (p.1, p.2 - f p.1))) = contestSum c rs - (contestCount c rs : ℚ) * f c := by
  induction rs with
  | nil => simp [contestSum, contestCount]
  | cons p t ih =>
    obtain ⟨k, r⟩ := p
    simp only [List.map_cons, contestSum, contestCount, ih]
    by_cases h : k = c
    · subst h; simp; ring
    · simp [h]

/-- **the unit-level rests of a contest with at least two units sum to zero** -/
theorem delta_sums_to_zero (rs : List (ℕ × ℚ)) (c : ℕ) (h : 2 ≤ contestCount c rs) :
    contestSum c (deltaPairs rs) = 0 := by
  unfold deltaPairs
  rw [contestSum_map c (epsilon rs) rs]
  unfold epsilon
  have hn : ¬ contestCount c rs < 2 := by omega
  simp only [hn, if_false]
  have hpos : (contestCount c rs : ℚ) ≠ 0 := by
    have : 0 < contestCount c rs := by omega
    exact_mod_cast this.ne'
  field_simp
  ring

/-- **a contest with fewer than two units gets no effect**: the rests are the residuals -/
theorem small_contest_no_effect (rs : List (ℕ × ℚ)) (c : ℕ) (h : contestCount c rs < 2) :
    epsilon rs c = 0 ∧ contestSum c (deltaPairs rs) = contestSum c rs := by
  have he : epsilon rs c = 0 := by unfold epsilon; simp [h]
  refine ⟨he, ?_⟩
  unfold deltaPairs
  rw [contestSum_map c (epsilon rs) rs, he]; ring

/-- **idempotence**: the contest effects of the rests vanish, for every contest -/
theorem epsilon_of_delta (rs : List (ℕ × ℚ)) (c : ℕ) : epsilon (deltaPairs rs) c = 0 := by
  unfold epsilon
  have hc : contestCount c (deltaPairs rs) = contestCount c rs := contestCount_map c (epsilon rs) rs
  by_cases h : contestCount c rs < 2
  · simp [hc, h]
  · have h2 : 2 ≤ contestCount c rs := by omega
    simp only [hc, h, if_false, delta_sums_to_zero rs c h2, zero_div]

theorem contest_filter (c : ℕ) (rs : List (ℕ × ℚ)) :
    contestSum c rs = contestSum c (rs.filter (fun p => p.1 = c)) ∧
    contestCount c rs = contestCount c (rs.filter (fun p => p.1 = c)) := by
  induction rs with
  | nil => exact ⟨rfl, rfl⟩
  | cons p t ih =>
    obtain ⟨k, r⟩ := p
    by_cases h : k = c
    · subst h; simp [contestSum, contestCount, ih.1, ih.2]
    · simp [h, contestSum, contestCount, ih.1, ih.2]

/-- **the effect of a contest depends on its own units only**: two training sets that agree on the units of contest `c` (whatever else
    they contain, in whatever positions) give the same effect for `c` -/
theorem epsilon_local (rs rs' : List (ℕ × ℚ)) (c : ℕ)
    (h : rs.filter (fun p => p.1 = c) = rs'.filter (fun p => p.1 = c)) : epsilon rs c = epsilon rs' c := by
  unfold epsilon
  rw [(contest_filter c rs).1, (contest_filter c rs).2, (contest_filter c rs').1, (contest_filter c rs').2, h]

/-- the model's threshold, reset value and subtraction are the source's (`_estimate_epsilon` / `_estimate_delta`, regenerated) -/
theorem bridge_epsilon (rs : List (ℕ × ℚ)) (c : ℕ) :
    epsilon rs c = (if Gen.C06.epsilon_reset_mask (contestCount c rs : ℚ) then Gen.C06.epsilon_reset_value
                    else contestSum c rs / (contestCount c rs : ℚ)) ∧
    ∀ p ∈ rs, Gen.C06.delta_of p.2 (epsilon rs p.1) = p.2 - epsilon rs p.1 := by
  constructor
  · unfold epsilon Gen.C06.epsilon_reset_mask Gen.C06.epsilon_reset_value
    by_cases h : contestCount c rs < 2
    · have : ((contestCount c rs : ℕ) : ℚ) < 2 := by exact_mod_cast h
      simp [h, this]
    · have : ¬ ((contestCount c rs : ℕ) : ℚ) < 2 := by
        intro hh; apply h; exact_mod_cast hh
      simp [h, this]
  · intro p _; rfl

/-! ### the stratum distributions interpolate inside the range of the fitted quantiles (`np.interp` as used by `ppf_creator`) -/

theorem interpAux_mem (x right a b : ℚ) (pts : List (ℚ × ℚ)) (h : ∀ p ∈ pts, a ≤ p.2 ∧ p.2 ≤ b) (hr : a ≤ right ∧ right ≤ b) :
    a ≤ interpAux x right pts ∧ interpAux x right pts ≤ b := by
  induction pts with
  | nil => simpa [interpAux] using hr
  | cons p rest ih =>
    obtain ⟨x0, f0⟩ := p
    have h0 := h (x0, f0) (by simp)
    unfold interpAux
    by_cases hx : x ≤ x0
    · simpa [hx] using h0
    · simp only [hx, if_false]
      cases rest with
      | nil => simpa using hr
      | cons q t =>
        obtain ⟨x1, f1⟩ := q
        have h1 := h (x1, f1) (by simp)
        by_cases hx1 : x < x1
        · simp only [hx1, if_true]
          have hx0 : x0 < x := not_le.mp hx
          have hd : 0 < x1 - x0 := by linarith
          have ht0 : 0 ≤ (x - x0) / (x1 - x0) := div_nonneg (by linarith) hd.le
          have ht1 : (x - x0) / (x1 - x0) ≤ 1 := by rw [div_le_one hd]; linarith
          have e : f0 + (f1 - f0) * (x - x0) / (x1 - x0) = f0 + (f1 - f0) * ((x - x0) / (x1 - x0)) := by ring
          rw [e]
          set t := (x - x0) / (x1 - x0)
          constructor <;> nlinarith [h0.1, h0.2, h1.1, h1.2, mul_nonneg ht0 (sub_nonneg.mpr h1.1), mul_nonneg ht0 (sub_nonneg.mpr h1.2),
            mul_nonneg (sub_nonneg.mpr ht1) (sub_nonneg.mpr h0.1), mul_nonneg (sub_nonneg.mpr ht1) (sub_nonneg.mpr h0.2)]
        · simp only [hx1, if_false]
          exact ih (fun p hp => h p (by simp [hp]))

/-- **a sampled unit-level error never leaves the range of its stratum's fitted quantiles**: `ppf(p) = np.interp(p, taus, betas, min betas,
    max betas)` lies between the smallest and the largest fitted quantile for *every* argument `p` (also outside `[0, 1]`), every knot list -/
theorem ppf_within_fitted_range (p lo hi : ℚ) (pts : List (ℚ × ℚ)) (hne : pts ≠ []) (h : ∀ q ∈ pts, lo ≤ q.2 ∧ q.2 ≤ hi) :
    lo ≤ interp p lo hi pts ∧ interp p lo hi pts ≤ hi := by
  cases pts with
  | nil => exact absurd rfl hne
  | cons q t =>
    obtain ⟨x0, f0⟩ := q
    have hq := h (x0, f0) (by simp)
    have hlh : lo ≤ hi := le_trans hq.1 hq.2
    unfold interp
    by_cases hx : p < x0
    · simp [hx, hlh]
    · simp only [hx, if_false]
      exact interpAux_mem p hi lo hi _ h ⟨hlh, le_rfl⟩

theorem interpAux_ge_head (x right x0 f0 : ℚ) (rest : List (ℚ × ℚ))
    (hs : ((x0, f0) :: rest).Pairwise (fun p q => p.1 < q.1 ∧ p.2 ≤ q.2)) (hr : ∀ p ∈ (x0, f0) :: rest, p.2 ≤ right) :
    f0 ≤ interpAux x right ((x0, f0) :: rest) := by
  have h : ∀ p ∈ (x0, f0) :: rest, f0 ≤ p.2 ∧ p.2 ≤ right := by
    intro p hp
    refine ⟨?_, hr p hp⟩
    rcases List.mem_cons.mp hp with rfl | hp'
    · exact le_rfl
    · exact ((List.pairwise_cons.mp hs).1 p hp').2
  exact (interpAux_mem x right f0 right _ h ⟨hr (x0, f0) (by simp), le_rfl⟩).1

theorem interpAux_mono (right : ℚ) (pts : List (ℚ × ℚ)) (hs : pts.Pairwise (fun p q => p.1 < q.1 ∧ p.2 ≤ q.2))
    (hr : ∀ p ∈ pts, p.2 ≤ right) (x y : ℚ) (hxy : x ≤ y) : interpAux x right pts ≤ interpAux y right pts := by
  induction pts with
  | nil => simp [interpAux]
  | cons p rest ih =>
    obtain ⟨x0, f0⟩ := p
    have hrest := (List.pairwise_cons.mp hs).2
    have hrr : ∀ p ∈ rest, p.2 ≤ right := fun p hp => hr p (by simp [hp])
    by_cases hx : x ≤ x0
    · have hA := interpAux_ge_head y right x0 f0 rest hs hr
      have : interpAux x right ((x0, f0) :: rest) = f0 := by unfold interpAux; simp [hx]
      rw [this]; exact hA
    · have hy : ¬ y ≤ x0 := by intro h; exact hx (le_trans hxy h)
      cases rest with
      | nil => unfold interpAux; simp [hx, hy]
      | cons q t =>
        obtain ⟨x1, f1⟩ := q
        have h01 := (List.pairwise_cons.mp hs).1 (x1, f1) (by simp)
        have hx0 : x0 < x := not_le.mp hx
        have hd : 0 < x1 - x0 := by linarith [h01.1]
        by_cases hx1 : x < x1
        · have hL : interpAux x right ((x0, f0) :: (x1, f1) :: t) = f0 + (f1 - f0) * (x - x0) / (x1 - x0) := by
            unfold interpAux; simp [hx, hx1]
          rw [hL]
          by_cases hy1 : y < x1
          · have hR : interpAux y right ((x0, f0) :: (x1, f1) :: t) = f0 + (f1 - f0) * (y - x0) / (x1 - x0) := by
              unfold interpAux; simp [hy, hy1]
            rw [hR]
            have : (f1 - f0) * (x - x0) / (x1 - x0) ≤ (f1 - f0) * (y - x0) / (x1 - x0) := by
              apply div_le_div_of_nonneg_right _ hd.le
              exact mul_le_mul_of_nonneg_left (by linarith) (by linarith [h01.2])
            linarith
          · have hR : interpAux y right ((x0, f0) :: (x1, f1) :: t) = interpAux y right ((x1, f1) :: t) := by
              conv_lhs => unfold interpAux
              simp [hy, hy1]
            rw [hR]
            have hA := interpAux_ge_head y right x1 f1 t hrest hrr
            have hle : f0 + (f1 - f0) * (x - x0) / (x1 - x0) ≤ f1 := by
              have ht1 : (x - x0) / (x1 - x0) ≤ 1 := by rw [div_le_one hd]; linarith
              have e : f0 + (f1 - f0) * (x - x0) / (x1 - x0) = f0 + (f1 - f0) * ((x - x0) / (x1 - x0)) := by ring
              rw [e]
              nlinarith [mul_nonneg (sub_nonneg.mpr h01.2) (sub_nonneg.mpr ht1)]
            linarith
        · have hy1 : ¬ y < x1 := by intro h; exact hx1 (lt_of_le_of_lt hxy h)
          have hL : interpAux x right ((x0, f0) :: (x1, f1) :: t) = interpAux x right ((x1, f1) :: t) := by
            conv_lhs => unfold interpAux
            simp [hx, hx1]
          have hR : interpAux y right ((x0, f0) :: (x1, f1) :: t) = interpAux y right ((x1, f1) :: t) := by
            conv_lhs => unfold interpAux
            simp [hy, hy1]
          rw [hL, hR]
          exact ih hrest hrr

/-- **if the fitted quantiles of a stratum do not cross, its ppf is monotone**: a larger uniform draw never gives a smaller unit-level error
    (knots strictly increasing, values non-decreasing, `lo` / `hi` below / above all of them) -/
theorem ppf_monotone (lo hi : ℚ) (pts : List (ℚ × ℚ)) (hne : pts ≠ [])
    (hs : pts.Pairwise (fun p q => p.1 < q.1 ∧ p.2 ≤ q.2)) (h : ∀ q ∈ pts, lo ≤ q.2 ∧ q.2 ≤ hi) (x y : ℚ) (hxy : x ≤ y) :
    interp x lo hi pts ≤ interp y lo hi pts := by
  cases pts with
  | nil => exact absurd rfl hne
  | cons q t =>
    obtain ⟨x0, f0⟩ := q
    by_cases hx : x < x0
    · have hL : interp x lo hi ((x0, f0) :: t) = lo := by simp [interp, hx]
      rw [hL]
      exact (ppf_within_fitted_range y lo hi _ (by simp) h).1
    · have hy : ¬ y < x0 := by intro hh; exact hx (lt_of_le_of_lt hxy hh)
      have hL : interp x lo hi ((x0, f0) :: t) = interpAux x hi ((x0, f0) :: t) := by simp [interp, hx]
      have hR : interp y lo hi ((x0, f0) :: t) = interpAux y hi ((x0, f0) :: t) := by simp [interp, hy]
      rw [hL, hR]
      exact interpAux_mono hi _ hs (fun p hp => (h p hp).2) x y hxy

/-- the interpolation stays within any interval that holds its values and its two outside values -/
theorem interp_mem (x left right a b : ℚ) (pts : List (ℚ × ℚ)) (h : ∀ q ∈ pts, a ≤ q.2 ∧ q.2 ≤ b)
    (hl : a ≤ left ∧ left ≤ b) (hr : a ≤ right ∧ right ≤ b) : a ≤ interp x left right pts ∧ interp x left right pts ≤ b := by
  cases pts with
  | nil => simpa [interp] using hr
  | cons q t =>
    obtain ⟨x0, f0⟩ := q
    unfold interp
    by_cases hx : x < x0
    · simpa [hx] using hl
    · simp only [hx, if_false]
      exact interpAux_mem x right a b _ h hr

/-- **the stratum cdf is a probability**: `cdf(x) = np.interp(x, betas, taus, right=1)` with levels `taus ⊆ [0, 1]` (numpy's default `left` is
    the first level) lies in `[0, 1]` for every argument -/
theorem cdf_in_unit_interval (x : ℚ) (t0 b0 : ℚ) (rest : List (ℚ × ℚ)) (h : ∀ q ∈ (b0, t0) :: rest, 0 ≤ q.2 ∧ q.2 ≤ 1) :
    0 ≤ interp x t0 1 ((b0, t0) :: rest) ∧ interp x t0 1 ((b0, t0) :: rest) ≤ 1 :=
  interp_mem x t0 1 0 1 _ h (h (b0, t0) (by simp)) ⟨by norm_num, le_rfl⟩

/-- at a knot the interpolation returns the knot's value (strictly increasing knots) -/
theorem interp_first_knot (left right x0 f0 : ℚ) (t : List (ℚ × ℚ)) : interp x0 left right ((x0, f0) :: t) = f0 := by
  simp [interp, interpAux]

/-- how the stratum distributions call `np.interp` (shape anchor, regenerated) -/
theorem bridge_interp_calls :
    Gen.C06.strata_interp = ["np.interp(p, taus, betas, lb, ub)", "np.interp(x, betas, taus, right=1)",
      "ppf_creator(betas_stratum, self.taus, np.min(betas_stratum), np.max(betas_stratum))", "cdf_creator(betas_stratum, self.taus)"] := rfl

example : interp (1/4) 0 9 [(0, 1), (1/2, 3), (1, 2)] = 2 ∧ interp (3/4) 0 9 [(0, 1), (1/2, 3), (1, 2)] = 5/2 ∧
    interp (-1) 0 9 [(0, 1), (1/2, 3), (1, 2)] = 0 ∧ interp 2 0 9 [(0, 1), (1/2, 3), (1, 2)] = 9 ∧
    interp 1 0 9 [(0, 1), (1/2, 3), (1, 2)] = 2 := by decide +kernel

example : epsilon [(0, 1), (1, 5), (0, 3), (2, 7), (2, 1), (2, -2)] 0 = 2 ∧ epsilon [(0, 1), (1, 5), (0, 3)] 1 = 0 ∧
    delta [(0, 1), (1, 5), (0, 3), (2, 7), (2, 1), (2, -2)] = [-1, 5, 1, 5, -1, -4] := by decide +kernel

end ElexModel.BootErr
