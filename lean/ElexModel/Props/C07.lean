import Mathlib.Tactic.NormNum
import Mathlib.Tactic.Linarith
import ElexModel.Core.Boot
import ElexModel.Lemmas.Num
import ElexModel.Gen.C07

/-!
# C07 — race calls and call-stops are always honoured; contradictory calls are rejected

All statements are for arbitrary rational predictions, arbitrary draws, arbitrary levels and `B`
(no hypothesis on the sign of anything).
-/

namespace ElexModel.Boot
open ElexModel

/-- a contest called for the left-hand party reports a prediction of at least +0.005 -/
theorem called_lhs_pred (p : ℚ) : 5/1000 ≤ adjustPred .lhs p := by
  simp [adjustPred, lhsThreshold]

/-- a contest called for the right-hand party reports a prediction of at most −0.005 -/
theorem called_rhs_pred (p : ℚ) : adjustPred .rhs p ≤ -5/1000 := by
  simp only [adjustPred, rhsThreshold, rmin_eq]; exact min_le_left _ _

/-- an uncalled contest keeps its prediction -/
theorem uncalled_pred (p : ℚ) : adjustPred .none p = p := rfl

/-- the adjustment only ever moves the prediction to the threshold, never past the model's own value -/
theorem adjust_lhs_eq (p : ℚ) : adjustPred .lhs p = max (5/1000) p := by
  simp [adjustPred, lhsThreshold]

theorem adjust_rhs_eq (p : ℚ) : adjustPred .rhs p = min (-5/1000) p := by
  simp [adjustPred, rhsThreshold]

/-- called left and not stop-listed ⇒ the lower bound is not negative (every level, every draw set) -/
theorem called_lhs_lower (pred : ℚ) (draws : List ℚ) (alpha : ℚ) (B : ℕ) :
    0 ≤ (aggInterval true .lhs false pred draws alpha B).1 := by
  unfold aggInterval overrideStop overrideCalled
  simp only [if_true, lhsThreshold, rhsThreshold]
  split_ifs <;> simp_all <;> linarith

/-- called right and not stop-listed ⇒ the upper bound is not positive -/
theorem called_rhs_upper (pred : ℚ) (draws : List ℚ) (alpha : ℚ) (B : ℕ) :
    (aggInterval true .rhs false pred draws alpha B).2 ≤ 0 := by
  unfold aggInterval overrideStop overrideCalled
  simp only [if_true, lhsThreshold, rhsThreshold]
  split_ifs <;> simp_all <;> linarith

/-- stop-listed and not called ⇒ the interval contains zero: the model alone can never call it -/
theorem stopped_uncalled_contains_zero (pred : ℚ) (draws : List ℚ) (alpha : ℚ) (B : ℕ) :
    (aggInterval true .none true pred draws alpha B).1 ≤ 0 ∧
    0 ≤ (aggInterval true .none true pred draws alpha B).2 := by
  unfold aggInterval overrideStop overrideCalled
  simp only [if_true, lhsThreshold, rhsThreshold]
  constructor <;> split_ifs <;> simp_all <;> linarith

/-- a stop-listed contest has an interval containing zero whatever its call state … except where the
    property itself exempts it (called *and* stop-listed): stated for the record, the bound on the called side -/
theorem stopped_called_lhs_upper (pred : ℚ) (draws : List ℚ) (alpha : ℚ) (B : ℕ) :
    0 ≤ (aggInterval true .lhs true pred draws alpha B).2 := by
  unfold aggInterval overrideStop overrideCalled
  simp only [if_true, lhsThreshold, rhsThreshold]
  split_ifs <;> simp_all <;> linarith

/-- neither called nor stop-listed ⇒ bounds are exactly the un-overridden ones -/
theorem uncalled_unstopped_unchanged (pred : ℚ) (draws : List ℚ) (alpha : ℚ) (B : ℕ) :
    aggInterval true .none false pred draws alpha B = aggInterval false .none false pred draws alpha B := by
  unfold aggInterval overrideStop overrideCalled
  simp

/-- below the top level nothing is overridden, whatever the lists say -/
theorem nontop_unchanged (c : Call) (stop : Bool) (pred : ℚ) (draws : List ℚ) (alpha : ℚ) (B : ℕ) :
    aggInterval false c stop pred draws alpha B = aggInterval false .none false pred draws alpha B := by
  unfold aggInterval; simp

/-! ### validation of the lists -/

/-- **contradictory or unknown calls are rejected**: an error exactly when a contest is named for both
    parties or a named contest is not being modelled -/
theorem format_error_iff (lhs rhs contests : List ℕ) :
    (∃ e, formatCalled lhs rhs contests = .error e) ↔
      (∃ c ∈ lhs, c ∈ rhs) ∨ (∃ c ∈ lhs, c ∉ contests) ∨ (∃ c ∈ rhs, c ∉ contests) := by
  unfold formatCalled
  constructor
  · intro ⟨e, h⟩
    split_ifs at h with h1 h2 h3
    · left; simpa using h1
    · right; left; simpa using h2
    · right; right; simpa using h3
  · intro h
    split_ifs with h1 h2 h3
    · exact ⟨_, rfl⟩
    · exact ⟨_, rfl⟩
    · exact ⟨_, rfl⟩
    · exfalso
      rcases h with h | h | h
      · exact h1 (by simpa using h)
      · exact h2 (by simpa using h)
      · exact h3 (by simpa using h)

theorem format_rejects_both (lhs rhs contests : List ℕ) (c : ℕ) (h1 : c ∈ lhs) (h2 : c ∈ rhs) :
    formatCalled lhs rhs contests = .error .both := by
  unfold formatCalled
  rw [if_pos]
  simp only [List.any_eq_true, List.contains_eq_mem, decide_eq_true_eq]
  exact ⟨c, h1, h2⟩

/-- when accepted, position `i` carries the call of contest `i` and nothing else -/
theorem format_positions (lhs rhs contests : List ℕ) (v : List Call)
    (h : formatCalled lhs rhs contests = .ok v) :
    v.length = contests.length ∧
    ∀ i (hi : i < contests.length) (hv : i < v.length),
      (v[i] = .lhs ↔ contests[i] ∈ lhs) ∧ (v[i] = .rhs ↔ contests[i] ∈ rhs) := by
  unfold formatCalled at h
  split_ifs at h with h1 h2 h3
  injection h with h
  subst h
  refine ⟨by simp, ?_⟩
  intro i hi hv
  simp only [List.getElem_map]
  have hdisj : ∀ c ∈ lhs, c ∉ rhs := by
    intro c hc hr; apply h1; simp only [List.any_eq_true, List.contains_eq_mem, decide_eq_true_eq]
    exact ⟨c, hc, hr⟩
  by_cases hl : contests[i] ∈ lhs
  · have : contests[i] ∉ rhs := hdisj _ hl
    simp [hl, this]
  · by_cases hr : contests[i] ∈ rhs
    · simp [hl, hr]
    · simp [hl, hr]

theorem stop_error_iff (stop contests : List ℕ) :
    (∃ e, formatStop stop contests = .error e) ↔ ∃ c ∈ stop, c ∉ contests := by
  unfold formatStop
  constructor
  · intro ⟨e, h⟩
    split_ifs at h with h1
    simpa using h1
  · intro h
    split_ifs with h1
    · exact ⟨_, rfl⟩
    · exact absurd (by simpa using h) h1

/-! ### bridge to the source as translated on this run -/

theorem bridge_thresholds :
    Gen.C07.lhs_called_threshold = lhsThreshold ∧ Gen.C07.rhs_called_threshold = rhsThreshold := by
  constructor
  · unfold Gen.C07.lhs_called_threshold lhsThreshold; norm_num
  · unfold Gen.C07.rhs_called_threshold rhsThreshold; norm_num

theorem decide_cast_eq (n k : ℕ) : decide ((n : ℚ) = (k : ℚ)) = (n == k) := by
  by_cases h : n = k
  · subst h; simp
  · have h' : (n : ℚ) ≠ (k : ℚ) := by exact_mod_cast h
    rw [decide_eq_false h']
    exact (beq_eq_false_iff_ne.mpr h).symm

theorem bridge_is_top (aggregate : List String) : Gen.C07.is_top_level_aggregate aggregate = isTop aggregate := by
  unfold Gen.C07.is_top_level_aggregate isTop
  have h1 : decide (((aggregate.length : ℕ) : ℚ) = 1) = (aggregate.length == 1) := by
    simpa using decide_cast_eq aggregate.length 1
  have h2 : decide (((aggregate.length : ℕ) : ℚ) = 2) = (aggregate.length == 2) := by
    simpa using decide_cast_eq aggregate.length 2
  rw [h1, h2]

/-! ### non-vacuity -/
example : formatCalled [2] [5] [1, 2, 5] = .ok [.none, .lhs, .rhs] := by decide
example : formatCalled [2] [2] [1, 2, 5] = .error .both := by decide
example : formatCalled [7] [] [1, 2, 5] = .error .unknownLhs := by decide
example : (aggInterval true .lhs false (adjustPred .lhs (-1/10)) [1/100, -1/100] (1/2) 2) = (1/250, 3/200) := by
  decide +kernel

end ElexModel.Boot

/-! ### bridge, continued: the overrides and `_adjust_called_contests` as dataflow of the source -/

namespace ElexModel.Boot
open ElexModel

/-- `_adjust_called_contests` as written in the source is `adjustPred` -/
theorem bridge_adjust (c : Call) (pred : ℚ) :
    adjustPred c pred = Gen.C07.adjust_called pred (decide (c = .lhs)) (decide (c = .rhs))
      Gen.C07.lhs_called_threshold Gen.C07.rhs_called_threshold := by
  rw [bridge_thresholds.1, bridge_thresholds.2]
  cases c <;> simp [adjustPred, Gen.C07.adjust_called]

/-- the race-call overrides followed by the stop overrides of `get_aggregate_prediction_intervals`, in the source's order -/
theorem bridge_overrides (c : Call) (stop : Bool) (r : ℚ × ℚ) :
    overrideStop stop (overrideCalled c r) =
      (Gen.C07.override_lower r.1 r.2 (decide (c = .lhs)) (decide (c = .rhs)) stop
          Gen.C07.lhs_called_threshold Gen.C07.rhs_called_threshold,
       Gen.C07.override_upper r.1 r.2 (decide (c = .lhs)) (decide (c = .rhs)) stop
          Gen.C07.lhs_called_threshold Gen.C07.rhs_called_threshold) := by
  rw [bridge_thresholds.1, bridge_thresholds.2]
  unfold overrideStop overrideCalled Gen.C07.override_lower Gen.C07.override_upper
  cases c <;> cases stop <;> simp [gt_iff_lt]

theorem bridge_interval_shape :
    Gen.C07.interval_returned = ["PredictionIntervals(interval_lower, interval_upper)"] ∧
    Gen.C07.format_calls = ["self._format_called_contests(lhs_called_contests, rhs_called_contests, contests, 1, 0, -1)",
      "self._format_called_contests(stop_model_call, [], contests, True, None, False)"] ∧
    Gen.C07.state_written = ["self.called_contests", "self.stop_model_call"] := ⟨rfl, rfl, rfl⟩

end ElexModel.Boot

/-! ### C07 stated directly about the regenerated source terms -/

namespace ElexModel.Boot
open ElexModel

/-- **C07 on the source**: `_adjust_called_contests` with the source's thresholds puts a left call at `≥ +0.005`, a right call at
    `≤ −0.005` and leaves an uncalled contest alone -/
theorem source_adjust_called (pred : ℚ) :
    (5 : ℚ) / 1000 ≤ Gen.C07.adjust_called pred true false Gen.C07.lhs_called_threshold Gen.C07.rhs_called_threshold ∧
    Gen.C07.adjust_called pred false true Gen.C07.lhs_called_threshold Gen.C07.rhs_called_threshold ≤ -5 / 1000 ∧
    Gen.C07.adjust_called pred false false Gen.C07.lhs_called_threshold Gen.C07.rhs_called_threshold = pred := by
  have h1 := bridge_adjust .lhs pred
  have h2 := bridge_adjust .rhs pred
  have h3 := bridge_adjust .none pred
  simp only [decide_true, decide_false, reduceCtorEq] at h1 h2 h3
  refine ⟨?_, ?_, ?_⟩
  · rw [← h1]; exact called_lhs_pred pred
  · rw [← h2]; exact called_rhs_pred pred
  · rw [← h3]; rfl

/-- **C07 on the source**: the race-call block of `get_aggregate_prediction_intervals` — called left and not stop-listed: the lower
    bound is not negative; called right and not stop-listed: the upper bound is not positive; stop-listed and uncalled: the interval
    contains zero; neither: nothing changes -/
theorem source_overrides (lo hi : ℚ) :
    0 ≤ Gen.C07.override_lower lo hi true false false Gen.C07.lhs_called_threshold Gen.C07.rhs_called_threshold ∧
    Gen.C07.override_upper lo hi false true false Gen.C07.lhs_called_threshold Gen.C07.rhs_called_threshold ≤ 0 ∧
    (Gen.C07.override_lower lo hi false false true Gen.C07.lhs_called_threshold Gen.C07.rhs_called_threshold ≤ 0 ∧
     0 ≤ Gen.C07.override_upper lo hi false false true Gen.C07.lhs_called_threshold Gen.C07.rhs_called_threshold) ∧
    (Gen.C07.override_lower lo hi false false false Gen.C07.lhs_called_threshold Gen.C07.rhs_called_threshold = lo ∧
     Gen.C07.override_upper lo hi false false false Gen.C07.lhs_called_threshold Gen.C07.rhs_called_threshold = hi) := by
  rw [bridge_thresholds.1, bridge_thresholds.2]
  unfold Gen.C07.override_lower Gen.C07.override_upper lhsThreshold rhsThreshold
  refine ⟨?_, ?_, ⟨?_, ?_⟩, ⟨?_, ?_⟩⟩ <;> simp only [Bool.and_true, Bool.and_false, Bool.false_eq_true, if_false, gt_iff_lt] <;>
    split_ifs <;> simp_all <;> linarith

end ElexModel.Boot
