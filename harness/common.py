"""Shared machinery of the /verif checks (see DESIGN.md section 2.5).

One check = translator -> lake build (proof obligations) -> axiom audit -> corpus + correspondence
+ monitors -> decision.  Run with /venv/bin/python (has /repo installed editable).
"""
import contextlib
import fcntl
import hashlib
import json
import os
import random
import re
import subprocess
import sys
import time
import traceback
from fractions import Fraction
from pathlib import Path

VERIF = Path(__file__).resolve().parent.parent
LEAN = VERIF / "lean"
REPO = Path(os.environ.get("VERIF_REPO", "/repo"))
SRC = REPO / "src"
CACHE = VERIF / ".cache"
REPLAYS = VERIF / "replays"
ALLOWED_AXIOMS = {"propext", "Classical.choice", "Quot.sound"}
FORBIDDEN = re.compile(r"\b(sorry|admit|native_decide|bv_decide|implemented_by|unsafe)\b|^\s*axiom\s|maxHeartbeats\s+0")

os.environ.setdefault("APP_ENV", "local")
os.environ.setdefault("DATA_ENV", "local")
os.environ.setdefault("MODEL_S3_BUCKET", "verif-bucket")
os.environ.setdefault("MODEL_S3_PATH_ROOT", "verif-root")
os.environ.setdefault("ELEX_LIVE_MODEL_VERIF", "1")
os.environ.setdefault("OMP_NUM_THREADS", "1")
os.environ.setdefault("OPENBLAS_NUM_THREADS", "1")


_WARN_SET = False


def use_repo():
    """import the implementation from /repo's current working tree (never a stale copy)"""
    src = str(SRC)
    if sys.path[0] != src:
        sys.path.insert(0, src)
    import warnings

    global _WARN_SET
    if not _WARN_SET:
        # appended (lowest priority): the implementation's own filters (e.g. cvxpy UserWarning -> error) must stay in front
        warnings.filterwarnings("ignore", append=True)
        _WARN_SET = True
    import elexmodel  # noqa

    assert str(Path(elexmodel.__file__).resolve()).startswith(str(SRC.resolve())), elexmodel.__file__
    import logging

    logging.disable(logging.CRITICAL)
    return elexmodel


# ----------------------------------------------------------------------------------------------
# exact numbers


def frac(x):
    """exact rational value of a python number (floats are binary rationals)"""
    if isinstance(x, Fraction):
        return x
    if isinstance(x, bool):
        return Fraction(int(x))
    if isinstance(x, int):
        return Fraction(x)
    if isinstance(x, str):
        return Fraction(x)
    import numpy as np

    if isinstance(x, (np.integer,)):
        return Fraction(int(x))
    f = float(x)
    return Fraction(*f.as_integer_ratio())


def rat(x):
    """wire format of a rational"""
    f = frac(x)
    return str(f.numerator) if f.denominator == 1 else f"{f.numerator}/{f.denominator}"


def unrat(s):
    if isinstance(s, (int,)):
        return Fraction(s)
    return Fraction(s)


def close(impl, model, tol=Fraction(1, 10**9)):
    """|impl - model| <= tol * max(1, |model|), decided exactly"""
    import math

    if isinstance(impl, float) and not math.isfinite(impl):
        return False
    a, b = frac(impl), frac(model)
    return abs(a - b) <= tol * max(1, abs(b))


# ----------------------------------------------------------------------------------------------
# lean side


@contextlib.contextmanager
def lean_lock():
    CACHE.mkdir(exist_ok=True)
    with open(CACHE / "lean.lock", "w") as fh:
        fcntl.flock(fh, fcntl.LOCK_EX)
        try:
            yield
        finally:
            fcntl.flock(fh, fcntl.LOCK_UN)


def lake_build(targets, timeout=1500):
    t0 = time.time()
    with lean_lock():
        p = subprocess.run(
            ["lake", "build"] + list(targets), cwd=LEAN, capture_output=True, text=True, timeout=timeout
        )
    log = (p.stdout + p.stderr)
    log = "\n".join(l for l in log.splitlines() if not l.startswith("trace:"))
    return p.returncode == 0, log, time.time() - t0


def lean_files_hash(extra=()):
    h = hashlib.sha256()
    for f in sorted(LEAN.rglob("*.lean")):
        if ".lake" in f.parts or "Audit" in f.parts:
            continue
        h.update(str(f.relative_to(LEAN)).encode())
        h.update(f.read_bytes())
    for e in extra:
        h.update(str(e).encode())
    return h.hexdigest()


THEOREM_RE = re.compile(r"^\s*(?:@\[[^\]]*\]\s*)?(?:private\s+|protected\s+)?theorem\s+([A-Za-z_][A-Za-z0-9_'.?!]*)", re.M)
NAMESPACE_RE = re.compile(r"^namespace\s+(\S+)", re.M)


def strip_comments(text, strings=False):
    """Lean source without comments (nested block comments, line comments); with strings=True string literals are blanked too.
    Newlines are kept so that line numbers stay right."""
    out = []
    i, n, depth = 0, len(text), 0
    while i < n:
        c2 = text[i:i + 2]
        if depth:
            if c2 == "/-":
                depth += 1
                i += 2
            elif c2 == "-/":
                depth -= 1
                i += 2
            else:
                if text[i] == "\n":
                    out.append("\n")
                i += 1
            continue
        if c2 == "/-":
            depth = 1
            i += 2
            continue
        if c2 == "--":
            while i < n and text[i] != "\n":
                i += 1
            continue
        if text[i] == '"':
            j = i + 1
            while j < n and text[j] != '"':
                j += 2 if text[j] == "\\" else 1
            lit = text[i:j + 1]
            out.append('""' + "\n" * lit.count("\n") if strings else lit)
            i = j + 1
            continue
        out.append(text[i])
        i += 1
    return "".join(out)


def theorems_of(path):
    """fully qualified names of the theorems declared in a Props file (single namespace per file region)"""
    text = strip_comments(path.read_text())
    names = []
    ns_stack = []
    for line in text.splitlines():
        m = re.match(r"^namespace\s+(\S+)", line)
        if m:
            ns_stack.append(m.group(1))
            continue
        m = re.match(r"^end\s+(\S+)", line)
        if m and ns_stack and ns_stack[-1] == m.group(1):
            ns_stack.pop()
            continue
        m = THEOREM_RE.match(line)
        if m:
            names.append(".".join(ns_stack + [m.group(1)]))
    return names


def leanchecker(modules, timeout=1200):
    """`lake env leanchecker <modules>`: the toolchain's independent re-checker replays the compiled declarations in a fresh kernel"""
    t0 = time.time()
    with lean_lock():
        try:
            p = subprocess.run(["lake", "env", "leanchecker"] + list(modules), cwd=LEAN, capture_output=True, text=True, timeout=timeout)
            return p.returncode == 0, (p.stdout + p.stderr), time.time() - t0
        except subprocess.TimeoutExpired:
            return False, "leanchecker timed out", time.time() - t0


def gen_deps(modules):
    """names (Cxx) of the regenerated ElexModel.Gen.* modules transitively imported by the given modules"""
    seen, out, todo = set(), set(), list(modules)
    while todo:
        m = todo.pop()
        if m in seen or not m.startswith("ElexModel"):
            continue
        seen.add(m)
        f = LEAN / (m.replace(".", "/") + ".lean")
        if not f.exists():
            continue
        for imp in re.findall(r"^import\s+(\S+)", f.read_text(), re.M):
            if imp.startswith("ElexModel.Gen."):
                out.add(imp.split(".")[-1])
            todo.append(imp)
    return sorted(out)


def forbidden_scan(paths):
    hits = []
    for f in paths:
        text = strip_comments(f.read_text(), strings=True)
        for i, line in enumerate(text.splitlines(), 1):
            if FORBIDDEN.search(line):
                hits.append(f"{f.relative_to(LEAN)}:{i}: {line.strip()}")
    return hits


def audit(prop, modules):
    """#print axioms on every theorem of the given Props/Lemmas modules; cached on the hash of the sources"""
    files = [LEAN / (m.replace(".", "/") + ".lean") for m in modules]
    thms = []
    for f in files:
        thms += theorems_of(f)
    key = lean_files_hash([prop] + thms)
    cache_file = CACHE / f"audit_{prop}.json"
    if cache_file.exists():
        c = json.loads(cache_file.read_text())
        if c.get("key") == key:
            return c["result"]
    adir = LEAN / "Audit"
    adir.mkdir(exist_ok=True)
    src = "".join(f"import {m}\n" for m in modules) + "".join(f"#print axioms {t}\n" for t in thms)
    (adir / f"{prop}.lean").write_text(src)
    with lean_lock():
        p = subprocess.run(
            ["lake", "env", "lean", f"Audit/{prop}.lean"], cwd=LEAN, capture_output=True, text=True, timeout=900
        )
    out = p.stdout + p.stderr
    res = {}
    for m in re.finditer(r"^'(\S+)' depends on axioms: \[([^\]]*)\]", out, flags=re.S | re.M):
        res[m.group(1)] = [a.strip() for a in m.group(2).replace("\n", " ").split(",") if a.strip()]
    for m in re.finditer(r"^'(\S+)' does not depend on any axioms", out, flags=re.M):
        res[m.group(1)] = []
    result = {"theorems": thms, "axioms": res, "ok": p.returncode == 0, "log": out[-2000:] if p.returncode else ""}
    cache_file.write_text(json.dumps({"key": key, "result": result}))
    return result


class Driver:
    """the Lean model behind the line protocol; one batch per call"""

    def __init__(self, prop):
        self.main = f"Main/{prop}.lean"
        self.calls = 0
        self.lines = 0

    def run(self, ops, timeout=1200):
        if not ops:
            return []
        data = "\n".join(json.dumps(o, separators=(",", ":")) for o in ops) + "\n"
        p = subprocess.run(
            ["lake", "env", "lean", "--run", self.main],
            cwd=LEAN,
            input=data,
            capture_output=True,
            text=True,
            timeout=timeout,
        )
        if p.returncode != 0:
            raise DriverError(f"driver exit {p.returncode}: {p.stderr[-1500:]}")
        outs = [json.loads(l) for l in p.stdout.splitlines() if l.strip()]
        if len(outs) != len(ops):
            raise DriverError(f"driver answered {len(outs)} lines for {len(ops)} ops: {p.stderr[-800:]}")
        self.calls += 1
        self.lines += len(ops)
        return outs


class DriverError(Exception):
    pass


# ----------------------------------------------------------------------------------------------
# result bookkeeping


class Run:
    """what one check run found"""

    def __init__(self, prop, tier, seed):
        self.prop, self.tier, self.seed = prop, tier, seed
        self.rng = random.Random(seed * 1000003 + int(prop[1:]))
        self.budget = tier
        self.t0 = time.time()
        self.evaluations = 0
        self.distinct = set()
        self.samples = []
        self.violations = []  # dicts: {what, input, impl, model, predicate, signature}
        self.diffs = []  # model-vs-impl disagreements (broken correspondence)
        self.broken = []  # broken proof obligations / translator anchors
        self.known_hits = {}  # known finding id -> count
        self.info = {}
        self.boundary_skipped = 0
        self.traces = 0
        self.assumptions = []
        self.hist = {}

    def start_pass(self, budget):
        """every exploration pass (quick / thorough / search) starts from its own PRNG state, so that a replay of the pass that
        found something reproduces it without running the passes before it"""
        self.budget = budget
        extra = {"quick": 0, "thorough": 0, "search": 7919}.get(budget, 0)
        self.rng = random.Random(self.seed * 1000003 + int(self.prop[1:]) + extra)

    def count(self, key, n=1):
        self.hist[key] = self.hist.get(key, 0) + n

    def case(self, case, nontrivial=True, sample_extra=None):
        """register one generated case"""
        self.evaluations += 1
        if nontrivial:
            h = hashlib.sha1(json.dumps(case, sort_keys=True, default=str).encode()).hexdigest()
            self.distinct.add(h)
        if len(self.samples) < 3:
            s = {"input": case}
            if sample_extra is not None:
                s.update(sample_extra)
            self.samples.append(_shorten(s))

    def violation(self, what, **kw):
        d = {"what": what}
        d.update(kw)
        self.violations.append(d)

    def diff(self, what, **kw):
        d = {"what": what}
        d.update(kw)
        self.diffs.append(d)


def _shorten(o, limit=1800):
    s = json.dumps(o, default=str)
    if len(s) <= limit:
        return json.loads(s)
    return {"truncated": s[:limit]}


def load_known():
    f = VERIF / "known_findings.json"
    if not f.exists():
        return {"findings": [], "fixed": []}
    return json.loads(f.read_text())


def write_replay(run, kind, payload, n=0):
    REPLAYS.mkdir(exist_ok=True)
    path = REPLAYS / f"{run.prop}-{run.tier}-{run.seed}-{n}.json"
    payload = dict(payload)
    payload.update({"property": run.prop, "kind": kind, "seed": run.seed, "tier": run.tier, "pass": run.budget})
    path.write_text(json.dumps(payload, indent=1, default=str))
    return path


def write_evidence(run, prep, trusted, checker_cmd, level="proof", violations=0, extra=None):
    cov = {
        "obligations": prep["obligations"],
        "discharged": prep["discharged"],
        "checker_cmd": checker_cmd,
        "trusted_base": trusted,
        "evaluations": run.evaluations,
        "distinct_nontrivial": len(run.distinct),
        "rule": run.info.get("rule", ""),
        "samples": run.samples or [{"note": "no correspondence case was run"}],
        "traces_validated_against_impl": run.traces,
        "boundary_cases_skipped": run.boundary_skipped,
        "input_distribution": run.hist,
        "theorems": prep.get("theorems", []),
        "axioms_used": prep.get("axioms_used", []),
        "model_vs_impl_disagreements": len(run.diffs),
        "broken_obligations": run.broken,
        "known_findings_hit": run.known_hits,
    }
    obs = {k: v for k, v in run.info.items() if k != "rule"}
    if obs:
        cov["observations"] = obs
    if extra:
        cov.update(extra)
    ev = {
        "property_id": run.prop,
        "tier": run.tier,
        "seed": run.seed,
        "level": level,
        "coverage": cov,
        "assumptions": run.assumptions,
        "wall_s": round(time.time() - run.t0, 2),
        "violations": violations,
    }
    (VERIF / "evidence").mkdir(exist_ok=True)
    (VERIF / "evidence" / f"{run.prop}.json").write_text(json.dumps(ev, indent=1, default=str))
    return ev
