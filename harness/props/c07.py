"""C07 - race calls and call-stops are always honoured; contradictory calls are rejected.

Stage level (shared with C06, harness/bootstage.py): every combination of call state x stop x sign of the
un-overridden bounds and of the prediction is produced with assigned draws; `_format_called_contests` is driven
directly with random lists; API level: bootstrap runs through ModelClient with call/stop lists (harness/election.py).
"""
import numpy as np

from harness import bootstage as S
from harness import common as C
from harness import extract as X
from harness.props import c06

PROP = "C07"
MODULES = ["ElexModel.Props.C07"]
DRIVER_TARGETS = ["ElexModel.Driver.Boot"]
TRUSTED = c06.TRUSTED[:2] + [
    "validation happens only when a top-level aggregate (postal_code, or postal_code+district) is computed; "
    "in district elections the state level is also top-level for the code (modelled as is)",
]
ASSUMPTIONS = ["contest names are compared as strings exactly as pandas.get_dummies orders them"]
RULE = (
    "stage-level cases with random lhs/rhs/stop subsets (incl. contradictory and unknown names) and draws centred so that "
    "all signs of (lower, upper, prediction) occur; non-trivial = a top-level case with at least one called or stop-listed "
    "contest; direct _format_called_contests cases; distinct = sha1 of the case"
)


def extract(run):
    return X.generate("C07")


def format_cases(run, driver, n):
    bm = S.boot_module()
    model = bm.BootstrapElectionModel({"features": ["baseline_normalized_margin"]})
    rng = run.rng
    names = ["AA", "AB", "BA", "VA_01", "VA_02", "VA", "ZZ", "aa"]
    ops, meta = [], []
    for _ in range(n):
        contests = sorted(rng.sample(names, rng.randint(1, 6)))
        pool = contests + rng.sample(names, 2)
        lhs = [rng.choice(pool) for _ in range(rng.randint(0, 3))]
        rhs = [rng.choice(pool) for _ in range(rng.randint(0, 3))]
        if rng.random() < 0.6:
            rhs = [c for c in rhs if c not in lhs]
        # the lists arrive in whatever container the caller has: list, tuple, set, numpy array, pandas index
        kind = rng.choice(["list", "list", "tuple", "set", "array", "index"])
        wrap = {"list": list, "tuple": tuple, "set": set, "array": lambda l: np.array(l, dtype=object),
                "index": lambda l: __import__("pandas").Index(l, dtype=object)}[kind]
        case = {"format": True, "lhs": lhs, "rhs": rhs, "contests": contests, "container": kind}
        try:
            v = model._format_called_contests(wrap(lhs), wrap(rhs), wrap(contests) if kind == "index" else contests, 1, 0, -1)
            impl = [{1: "lhs", 0: "rhs", -1: "none"}[int(x)] for x in v]
        except bm.BootstrapElectionModelException:
            impl = {"raises": True}
        except Exception as e:
            impl = {"raises": type(e).__name__}
        run.case(case, bool(lhs or rhs))
        run.count("format cases")
        # monitor = format_error_iff / format_positions
        bad = bool(set(lhs) & set(rhs)) or bool(set(lhs) - set(contests)) or bool(set(rhs) - set(contests))
        want = {"raises": True} if bad else ["lhs" if c in lhs else "rhs" if c in rhs else "none" for c in contests]
        if impl != want:
            run.violation("_format_called_contests: wrong acceptance / vector", input=case, impl=impl, expected=want,
                          predicate="format_error_iff", signature="C07:format")
        idx = {c: i for i, c in enumerate(sorted(set(pool)))}
        ops.append({"op": "boot.format", "lhs": [idx[c] for c in lhs], "rhs": [idx[c] for c in rhs],
                    "contests": [idx[c] for c in contests]})
        meta.append((case, impl))
    if driver is None:
        return
    outs = driver.run(ops)
    for (case, impl), o in zip(meta, outs):
        m = {"raises": True} if isinstance(o, dict) and "raises" in o else o
        if m != impl:
            run.diff("_format_called_contests vs model formatCalled", input=case, impl=impl, model=o)
        run.traces += 1


def istop_grid(run, driver):
    bm = S.boot_module()
    model = bm.BootstrapElectionModel({"features": ["baseline_normalized_margin"]})
    levels = ["postal_code", "district", "county_fips", "county_classification"]
    import itertools

    ops, meta = [], []
    for k in range(0, 4):
        for combo in itertools.permutations(levels, k):
            agg = list(combo)
            impl = bool(model._is_top_level_aggregate(agg))
            want = agg == ["postal_code"] or sorted(agg) == ["district", "postal_code"]
            run.evaluations += 1
            if impl != want:
                run.violation("_is_top_level_aggregate: wrong level classification", input={"aggregate": agg}, impl=impl,
                              expected=want, predicate="bridge_is_top", signature="C07:istop")
            ops.append({"op": "boot.istop", "aggregate": agg})
            meta.append((agg, impl))
    if driver is None:
        return
    for (agg, impl), o in zip(meta, driver.run(ops)):
        if o["model"] != impl or o["gen"] != impl:
            run.diff("_is_top_level_aggregate vs model / regenerated definition", input={"aggregate": agg}, impl=impl, model=o)


def explore(run, driver, budget):
    run.info["rule"] = RULE
    n = {"quick": (250, 200), "thorough": (6000, 5000), "search": (1500, 1000)}[budget]
    c06.agg_stage(run, driver, n[0], kinds=("state", "district", "state", "county"), prop="C07")
    format_cases(run, driver, n[1])
    istop_grid(run, driver)
    try:
        from harness import election

        election.api_boot_checks(run, budget, props=("C07",))
    except ImportError:
        pass


def replay(run, driver, payload):
    c = payload["input"]
    if c.get("format") or "aggregate" in c:
        format_cases(run, driver, 200)
        istop_grid(run, driver)
        return
    case = c06._unlight(c)
    op, ks = S.model_op(case)
    mout = driver.run([op])[0] if driver else None
    impl = S.impl_stage(case)
    run.case(c, True, {"impl": impl})
    c06.check_stage(run, c, impl, mout, ks, "C07")
