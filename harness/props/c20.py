"""C20 - a failed or inaccurate quantile-regression solve is retried, not fatal.

Oracle boundary: elexsolver's QuantileRegressionSolver.fit is wrapped in-process so that its k-th call raises cvxpy.error.SolverError,
a cvxpy UserWarning (issued through the warnings machinery, as cvxpy does) or another exception - for every k of runs with 1-2
estimands and 1-2 levels, nonparametric and gaussian, with a non-zero lambda_.  The recorded call sequence (fingerprint of X / y /
weights, tau, lambda_, fit_intercept, normalize_weights) is compared with the Lean model's (`fitModel` / `runFits`), and the final
tables with those of the reference run in which call k is simply answered by the un-normalised solve.
"""
import hashlib
import warnings

import numpy as np

from harness import common as C
from harness import election as E
from harness import extract as X
from harness.props.c14 import exact_election

PROP = "C20"
MODULES = ["ElexModel.Props.C20"]
DRIVER_TARGETS = ["ElexModel.Driver.Retry"]
TRUSTED = [
    "the solver is an oracle indexed by call number; 'same tables' is checked against a reference run whose k-th solve is done "
    "without weight normalisation (the retry's answer)",
    "warnings raised inside cvxpy are turned into exceptions by the module-level filter of ConformalElectionModel (re-read from source)",
]
ASSUMPTIONS = ["the un-normalised solve succeeds"]
RULE = (
    "one-state elections (12-40 reporting units); estimators nonparametric / gaussian; 1-2 estimands x 1-2 levels (3-10 fits per run); "
    "fault at every call position x {SolverError, UserWarning via warnings.warn, other exception}; lambda_ in {0, 50}; every case "
    "non-trivial; distinct = (election, estimator, request, k, kind)"
)


def extract(run):
    return X.generate("C20")


def fingerprint(x, y, w):
    h = hashlib.sha1()
    for a in (x, y, w):
        h.update(np.ascontiguousarray(np.asarray(a, dtype=float)).tobytes())
    return int(h.hexdigest()[:12], 16)


class Injector:
    """wraps QuantileRegressionSolver.fit: records every call; call number k (0-based) fails with `kind`"""

    def __init__(self, k=None, kind=None, substitute=None):
        self.k, self.kind, self.substitute = k, kind, substitute
        self.calls = []

    def __enter__(self):
        C.use_repo()
        from elexsolver.QuantileRegressionSolver import QuantileRegressionSolver as QRS

        self.QRS = QRS
        self.orig = QRS.fit
        inj = self
        # the weights as they are handed to fit_model (function boundary named in the property's anchors): the un-normalised retry
        # must solve with exactly these
        from elexmodel.models.ConformalElectionModel import ConformalElectionModel as CEM

        self.CEM = CEM
        self.orig_fit_model = CEM.fit_model
        self.handed = [None]

        def fit_model(model_self, *a, **kw):
            import inspect

            try:
                ba = inspect.signature(inj.orig_fit_model).bind(model_self, *a, **kw)
                w = ba.arguments.get("weights")
                inj.handed[0] = None if w is None else np.asarray(getattr(w, "values", w), dtype=float).ravel().copy()
            except TypeError:
                inj.handed[0] = None
            try:
                return inj.orig_fit_model(model_self, *a, **kw)
            finally:
                inj.handed[0] = None

        CEM.fit_model = fit_model

        def fit(solver, x, y, *a, **kw):
            i = len(inj.calls)
            # arguments by name, however they were passed (positionally or by keyword), with the solver's own defaults
            import inspect

            try:
                ba = inspect.signature(inj.orig).bind(solver, x, y, *a, **kw)
                ba.apply_defaults()
                g = ba.arguments
            except TypeError:
                g = dict(kw)  # a call the solver itself will reject
            inj.calls.append({
                "data": fingerprint(x, y, g.get("weights")), "tau": g.get("taus", g.get("tau_value")),
                "lambda": g.get("lambda_"), "intercept": g.get("fit_intercept"),
                "normalize": g.get("normalize_weights", True), "regularize_intercept": g.get("regularize_intercept"),
                "kwargs": sorted(kw), "positional": len(a),
                "weights_as_handed": (None if inj.handed[0] is None or g.get("weights") is None else
                                      bool(np.array_equal(np.asarray(g.get("weights"), dtype=float).ravel(), inj.handed[0]))),
            })
            if i == inj.k:
                if inj.kind == "solverError":
                    import cvxpy

                    raise cvxpy.error.SolverError("scripted solver failure")
                if inj.kind == "inaccurate":
                    # as cvxpy does: a UserWarning attributed to a cvxpy module; the model's filter turns it into an exception
                    warnings.warn_explicit("Solution may be inaccurate. (scripted)", UserWarning, "cvxpy/problems/problem.py", 1,
                                           module="cvxpy.problems.problem")
                elif inj.kind == "other":
                    raise FloatingPointError("scripted unrelated failure")
            if i == inj.substitute:
                kw = dict(g)
                kw.pop("self", None)
                kw.pop("x", None)
                kw.pop("y", None)
                kw["normalize_weights"] = False
                return inj.orig(solver, x, y, **kw)
            return inj.orig(solver, x, y, *a, **kw)

        QRS.fit = fit
        return self

    def __exit__(self, *exc):
        self.QRS.fit = self.orig
        self.CEM.fit_model = self.orig_fit_model


def run_once(e, req, inj):
    with inj:
        res = E.run_client(e, estimands=req["estimands"], alphas=req["alphas"], pi_method=req["pi"], features=req["features"],
                           params={"lambda_": req["lambda"]}, aggregates=["postal_code", "unit"])
    return res


def table_digest(res):
    if "tables" not in res:
        return {"raises": res.get("raises"), "msg": res.get("msg")}
    out = {}
    for k, v in res["tables"].items():
        out[k] = hashlib.sha1(v.to_csv(index=False, float_format="%.6f").encode()).hexdigest()
    return out


def explore(run, driver, budget):
    run.info["rule"] = RULE
    n_elections = {"quick": 3, "thorough": 60, "search": 12}[budget]
    rng = run.rng
    if driver is not None:
        g = driver.run([{"op": "retry.gen"}])[0]
        run.info["fit_model_as_translated"] = g
    tiny_weight_stage(run, {"quick": 2, "thorough": 30, "search": 6}[budget])
    for _ in range(n_elections):
        e = exact_election(rng, rng.choice([12, 20, 40]), n_partial=rng.randint(2, 5))
        req = {"pi": rng.choice(["nonparametric", "gaussian"]), "estimands": rng.choice([["turnout"], ["dem", "turnout"]]),
               "alphas": rng.choice([[0.7], [0.5, 0.7]]), "features": rng.choice([[], ["x1"]]), "lambda": rng.choice([0, 50])}
        base = Injector()
        ref = run_once(e, req, base)
        if "raises" in ref:
            continue
        nfits = len(base.calls)
        fits = [[c["data"], (int(round(float(np.asarray(c["tau"]).flatten()[0]) * 1000)) if c["tau"] is not None else -1), int(c["lambda"] or 0), bool(c["intercept"])]
                for c in base.calls]
        ks = list(range(nfits)) if budget != "quick" else sorted(set([0, 1, 2, nfits - 1] + rng.sample(range(nfits), min(3, nfits))))
        for k in ks:
            for kind in ("solverError", "inaccurate", "other"):
                if kind == "other" and k not in (0, nfits - 1):
                    continue
                case = {"election": e.describe(), "request": req, "k": k, "kind": kind, "fits": nfits}
                inj = Injector(k=k, kind=kind)
                got = run_once(e, req, inj)
                run.case(case, True)
                run.count("fault " + kind)
                if kind == "other":
                    if got.get("raises") != "FloatingPointError":
                        run.violation("an unrelated exception was swallowed or re-classified by the retry", input=case,
                                      impl=table_digest(got), predicate="other_errors_propagate", signature="C20:other",
                                      election=e.to_json())
                    continue
                if "raises" in got:
                    run.violation("a failed / inaccurate solve ended the run instead of being retried", input=case,
                                  impl={"raises": got["raises"], "msg": got.get("msg")}, predicate="retry_completes",
                                  signature="C20:fatal", election=e.to_json())
                    continue
                # the retry call: same arguments except normalize_weights
                if len(inj.calls) != nfits + 1:
                    run.violation("not exactly one retry", input=case, impl=len(inj.calls), expected=nfits + 1,
                                  predicate="retry_same_args", signature="C20:count", election=e.to_json())
                    continue
                a, b = inj.calls[k], inj.calls[k + 1]
                same = all(np.all(np.asarray(a[f]) == np.asarray(b[f])) for f in ("data", "tau", "lambda", "intercept"))
                if b["weights_as_handed"] is False:
                    run.violation("the un-normalised retry does not solve with the weights that were handed to fit_model (it re-uses an "
                                  "already normalised array)", input=case, impl={"failed": {f: str(a[f]) for f in a}, "retry": {f: str(b[f]) for f in b}},
                                  predicate="retry_same_args (weights)", signature="C20:weights", election=e.to_json())
                    continue
                if not same or b["normalize"] is not False:
                    run.violation("the retry does not use the same quantile, weights, regularisation and intercept setting",
                                  input=case, impl={"failed": {f: str(a[f]) for f in a}, "retry": {f: str(b[f]) for f in b}},
                                  predicate="retry_same_args", signature="C20:args", election=e.to_json())
                    continue
                # same tables as the run in which fit k is answered by the un-normalised solve
                sub = Injector(substitute=k)
                want = run_once(e, req, sub)
                if table_digest(got) != table_digest(want):
                    run.violation("the tables differ from those of the run whose k-th fit is the un-normalised solve", input=case,
                                  impl=table_digest(got), expected=table_digest(want), predicate="retry_completes",
                                  signature="C20:tables", election=e.to_json())
                    continue
                if driver is not None:
                    m = driver.run([{"op": "retry.trace", "fits": fits, "k": k, "kind": kind}])[0]
                    impl_calls = [[c["data"], (int(round(float(np.asarray(c["tau"]).flatten()[0]) * 1000)) if c["tau"] is not None else -1), int(c["lambda"] or 0),
                                   bool(c["intercept"]), bool(c["normalize"])] for c in inj.calls]
                    if m["calls"] != impl_calls or m["completes"] is not True:
                        run.diff("solver call sequence: model vs implementation", input=case, impl=impl_calls, model=m)
                    run.traces += 1


def tiny_weight_stage(run, n):
    """elections with one very small reporting unit next to very large ones (smallest weight below a millionth of the total): a failed or
    inaccurate normalised solve must still be retried, whatever the weights look like"""
    rng = run.rng
    for _ in range(n):
        e = exact_election(rng, rng.choice([14, 24]), n_partial=2)
        big = ["baseline_dem", "baseline_gop", "baseline_turnout"]
        for c in big:
            e.pre[c] = e.pre[c] * 1000
        for c in ("results_dem", "results_gop", "results_turnout"):
            e.cur[c] = e.cur[c] * 1000
        uid = e.pre["geographic_unit_fips"].iloc[rng.randint(0, 5)]
        e.pre.loc[e.pre["geographic_unit_fips"] == uid, big] = [1, 0, 1]
        e.cur.loc[e.cur["geographic_unit_fips"] == uid, ["results_dem", "results_gop", "results_turnout"]] = [1, 0, 1]
        req = {"pi": rng.choice(["nonparametric", "gaussian"]), "estimands": ["turnout"], "alphas": [0.7], "features": [], "lambda": 0}
        base = Injector()
        ref = run_once(e, req, base)
        if "raises" in ref:
            continue
        # first attempts: a call that is not the repeat of its predecessor (same data and quantile), however it was normalised
        sig = [(c["data"], str(c["tau"])) for c in base.calls]
        firsts = [i for i in range(len(sig)) if i == 0 or sig[i] != sig[i - 1]]
        for k in firsts[:3]:
            for kind in ("solverError", "inaccurate"):
                case = {"election": e.describe(), "request": req, "k": k, "kind": kind, "fits": len(base.calls), "tiny_unit": uid}
                got = run_once(e, req, Injector(k=k, kind=kind))
                run.case(case, True)
                run.count("fault " + kind + " (one tiny unit)")
                if "raises" in got:
                    run.violation("a failed / inaccurate solve ended the run instead of being retried", input=case,
                                  impl={"raises": got["raises"], "msg": got.get("msg")}, predicate="retry_completes",
                                  signature="C20:fatal", election=e.to_json())
                    return


def replay(run, driver, payload):
    # the generators are driven by the seed and pass recorded in the replay file (set by main): the same pass is re-run
    explore(run, driver, run.budget)
