"""C10 - outstanding and excluded units cannot influence anyone else's estimate.

Pair runs through ModelClient: election E and E with the counts of one unit replaced, where the unit is below the reporting
threshold (percent unchanged), blocklisted (by unit, by state, by both lists at once), zero-baseline or unexpected; replacement counts
include 0 and huge values.  Every other unit row and every group not containing the unit must be bit-identical; in the unit's own
groups only its own terms may move (count estimands: counted column by the difference, nonparametric prediction by the difference of its
own unit prediction).  Oracle boundary: the arguments of every regression-solver call of the two runs are recorded and must be identical.
Historical clause: HistoricalModelClient.get_historical_evaluation driven offline from a scratch directory; the historical results of units
that are not reporting are perturbed and the estimates must not move.
"""
import copy
import hashlib
import json
import os
import shutil
import tempfile

import numpy as np
import pandas as pd

from harness import apicheck as A
from harness import common as C
from harness import election as E
from harness import extract as X
from harness import pairs as P

PROP = "C10"
MODULES = ["ElexModel.Props.C10"]
DRIVER_TARGETS = ["ElexModel.Driver.Units"]
TRUSTED = [
    "the numerical core is an oracle: that it has no hidden dependency on the perturbed counts is what the pair runs and the recorded "
    "solver arguments test; the Lean theorems cover the modelled dataflow (split, categories, aggregation)",
    "extrapolation (versioned data) and correct_from_presidential need S3 and are off",
]
ASSUMPTIONS = [
    "outlier-detection models off in the main stream; a separate stream runs them with their defaults on elections with > 20 reporting "
    "units and perturbs a blocklisted reporting unit",
    "the perturbed unit keeps its percent expected vote",
]
RULE = (
    "generated elections x one perturbed unit (partial / zero-percent / blocklisted by unit / by state / by both lists / zero-baseline / "
    "unexpected) x replacement counts {0, small, x3, huge} x 3 estimators; every pair non-trivial; distinct = (election, unit, counts)"
)


def extract(run):
    return X.generate("C10")


class SolverRecorder:
    def __init__(self):
        self.calls = []

    def __enter__(self):
        C.use_repo()
        from elexsolver.OLSRegressionSolver import OLSRegressionSolver as OLS
        from elexsolver.QuantileRegressionSolver import QuantileRegressionSolver as QRS

        self.QRS, self.OLS = QRS, OLS
        self.o1, self.o2 = QRS.fit, OLS.fit
        rec = self

        def h(*arrs):
            m = hashlib.sha1()
            for a in arrs:
                if a is not None:
                    m.update(np.ascontiguousarray(np.asarray(a, dtype=float)).tobytes())
            return m.hexdigest()[:16]

        def qfit(s, x, y, *a, **kw):
            rec.calls.append(("qr", h(x, y, kw.get("weights")), str(kw.get("taus"))))
            return rec.o1(s, x, y, *a, **kw)

        def ofit(s, x, y, *a, **kw):
            rec.calls.append(("ols", h(x, y, kw.get("weights")), str(kw.get("lambda_"))))
            return rec.o2(s, x, y, *a, **kw)

        QRS.fit, OLS.fit = qfit, ofit
        return self

    def __exit__(self, *e):
        self.QRS.fit, self.OLS.fit = self.o1, self.o2


KINDS = ["partial", "zero-percent", "blocklisted", "zero-baseline", "unexpected", "blocklisted-both"]


def pick_unit(rng, case, prefer=None):
    e = case["election"]
    kinds = KINDS[:]
    rng.shuffle(kinds)
    if prefer:
        kinds = [prefer] + kinds
    for kind in kinds:
        role = "blocklisted" if kind == "blocklisted-both" else kind
        ids = [u for u, r in e.roles.items() if r == role and u in set(e.cur["geographic_unit_fips"])]
        if kind == "blocklisted-both":
            ids = [u for u in ids if u in e.unit_blocklist and len(e.states) > 1
                   and float(e.cur.loc[e.cur["geographic_unit_fips"] == u, "percent_expected_vote"].iloc[0]) >= e.threshold]
        if kind in ("partial", "zero-percent"):  # the property is about units that are (and stay) below the threshold
            ids = [u for u in ids if float(e.cur.loc[e.cur["geographic_unit_fips"] == u, "percent_expected_vote"].iloc[0]) < e.threshold]
        if ids:
            return kind, rng.choice(ids)
    return None, None


def perturb(rng, case, uid, kind):
    c2 = dict(case)
    e2 = copy.deepcopy(case["election"])
    i = e2.cur.index[e2.cur["geographic_unit_fips"] == uid][0]
    mode = rng.choice(["zero", "small", "x3", "huge", "x1.1", "x1.1"]) if kind != "blocklisted-both" else "x1.1"
    if kind == "unexpected" and rng.random() < 0.5:
        mode = "nan"  # the replacement count is missing: the unit adds nothing, the other groups must not notice
    od, og = int(e2.cur.loc[i, "results_dem"]), int(e2.cur.loc[i, "results_gop"])
    d, g = {"zero": (0, 0), "small": (3, 1), "x3": (od * 3 + 1, og * 3 + 2), "huge": (900001, 400003),
            "x1.1": (int(od * 1.1) + 1, int(og * 0.95) + 1), "nan": (0, 0)}[mode]
    if mode == "nan":
        e2.cur["results_dem"] = e2.cur["results_dem"].astype(float)
        e2.cur.loc[i, "results_dem"] = float("nan")
        c2["election"] = e2
        return c2, mode
    e2.cur.loc[i, "results_dem"], e2.cur.loc[i, "results_gop"] = d, g
    e2.cur.loc[i, "results_turnout"] = d + g + 11
    if kind == "blocklisted-both":
        # both lists configured: a state blocklist that does not contain the unit's own state
        other = [s for s in e2.states if s != e2.cur.loc[i, "postal_code"]]
        if other:
            e2.postal_code_blocklist = [other[-1]]
            case["election"].postal_code_blocklist = [other[-1]]
    c2["election"] = e2
    return c2, mode


def explore(run, driver, budget):
    run.info["rule"] = RULE
    n = {"quick": 18, "thorough": 600, "search": 80}[budget]
    rng = run.rng
    for i in range(n):
        pi = ["nonparametric", "gaussian", "bootstrap"][i % 3]
        case = A.gen_case(rng, pi_method=pi, roles=[r for r in E.ROLES if r != "nan-estimand"] + ["partial", "blocklisted"])
        if "unit" not in case["aggregates"]:
            case["aggregates"] = case["aggregates"] + ["unit"]
        kind, uid = pick_unit(rng, case, prefer=("blocklisted-both" if i % 3 == 0 else "unexpected" if i % 6 == 2 else None))
        if uid is None:
            continue
        caseB, mode = perturb(rng, case, uid, kind)
        with SolverRecorder() as r1:
            ra = A.run_case(case)
        with SolverRecorder() as r2:
            rb = A.run_case(caseB)
        L = A.light(case)
        L.update({"perturbed_unit": uid, "kind": kind, "replacement": mode})
        run.case(L, True)
        run.count("kind " + kind)
        run.count(pi)
        if "raises" in ra or "raises" in rb:
            if ra.get("raises") != rb.get("raises"):
                run.violation("the outcome of the run depends on the counts of an outstanding / excluded unit", input=L,
                              impl=[ra.get("raises"), rb.get("raises")], predicate="rep_invariant", signature="C10:outcome",
                              replay_case=A.case_json(caseB), base_case=A.case_json(case))
            continue
        # oracle boundary
        if [c[:2] for c in r1.calls] != [c[:2] for c in r2.calls]:
            k = next((j for j, (a, b) in enumerate(zip(r1.calls, r2.calls)) if a != b), None)
            run.violation("the arguments handed to a regression solver depend on the counts of an outstanding / excluded unit",
                          input=L, impl={"first differing call": k, "calls": [len(r1.calls), len(r2.calls)]},
                          predicate="rep_invariant", signature="C10:solver-args", replay_case=A.case_json(caseB),
                          base_case=A.case_json(case))
            continue
        ta, tb = ra["tables"], rb["tables"]
        base_geo, unexp_geo = A.unit_geo(case)
        ucat = {r["geographic_unit_fips"]: r["unit_category"] for r in ta["unit_data"].to_dict(orient="records")}
        geo = unexp_geo.get(uid) if ucat.get(uid) == "unexpected" else base_geo.get(uid)
        own = {"unit_data": lambda k: k[-1] == uid}
        for level in A.levels_of(case):
            al = A.aggregate_list(case, level)
            key = tuple(str(geo.get(k)) for k in al) if geo and all(geo.get(k) is not None for k in al) else None
            own[A.LABEL[level]] = (lambda kk: (lambda k: k == kk))(key)
        d = P.diff_tables(ta, tb, ignore_rows=own)
        if d:
            run.violation("changing the counts of an outstanding / excluded unit changed another unit's row or a group not containing it",
                          input=L, impl=[str(x) for x in d[0]], predicate="other_rows_invariant / other_groups_invariant",
                          signature="C10:leak", replay_case=A.case_json(caseB), base_case=A.case_json(case))
            continue
        run.traces += 1
    gauss_stage_pairs(run, {"quick": 40, "thorough": 2000, "search": 300}[budget])
    historical(run, {"quick": 2, "thorough": 40, "search": 6}[budget])
    outlier_stream(run, {"quick": 2, "thorough": 40, "search": 6}[budget])


def gauss_stage_pairs(run, n):
    """gaussian aggregate intervals at stage level (harness/props/c15.py): the partial counts of one group must not move another group"""
    from harness.props import c15

    rng = run.rng
    for _ in range(n):
        c = c15.gen_case(rng)
        groups = sorted({tuple(k) for k in c["nonrep"]})
        if len(groups) < 2:
            continue
        g = rng.choice(groups)
        c2 = dict(c, partial=[(rng.choice([0, 7, 99999]) if tuple(k) == g else v) for v, k in zip(c["partial"], c["nonrep"])])
        a, _ = c15.impl_run(c)
        b, _ = c15.impl_run(c2)
        run.case({"gauss_stage": True, "structure": c, "perturbed_group": list(g)}, True)
        run.count("gaussian stage pairs")
        if "raises" in a or "raises" in b:
            continue
        all_keys = sorted({tuple(k) for k in c["nonrep"]} | {tuple(k) for k in c["conf"]})
        for pos, k in enumerate(all_keys):
            if k == g or pos >= len(a["lower"]) or pos >= len(b["lower"]):
                continue
            if a["lower"][pos] != b["lower"][pos] or a["upper"][pos] != b["upper"][pos]:
                run.violation("the partial counts of the outstanding units of one group change the gaussian interval of another group",
                              input={"structure": c, "perturbed_group": list(g)}, group=list(k),
                              impl=[[a["lower"][pos], a["upper"][pos]], [b["lower"][pos], b["upper"][pos]]],
                              predicate="other_groups_invariant", signature="C10:gauss-leak")
                break


def margin_outlier_probe(case):
    """run the case through the client with a recorder at `_fit_outlier_detection_model`: the ids of the frame the *margin* outlier
    model is fitted on, their absolute residuals and the cut-off (None when that model does not run)"""
    C.use_repo()
    from elexmodel.handlers.data.CombinedData import CombinedDataHandler
    from elexsolver.QuantileRegressionSolver import QuantileRegressionSolver as Q2

    seen = {}
    orig = CombinedDataHandler._fit_outlier_detection_model

    def rec(self_, reporting_units, response_variable, z):
        preds = []
        op = Q2.predict

        def pred_rec(s_, x, *a, **kw):
            out = op(s_, x, *a, **kw)
            preds.append(np.asarray(out, dtype=float).ravel().copy())
            return out

        Q2.predict = pred_rec
        try:
            got = orig(self_, reporting_units, response_variable, z)
        finally:
            Q2.predict = op
        if response_variable == "results_normalized_margin" and preds:
            y = reporting_units[response_variable].to_numpy(dtype=float)
            ar = np.abs(y - preds[0][: len(y)])
            seen.update(ids=list(reporting_units["geographic_unit_fips"]), ar=ar, thr=float(ar.mean() + z * ar.std()))
        return got

    CombinedDataHandler._fit_outlier_detection_model = rec
    try:
        A.run_case(case)
    finally:
        CombinedDataHandler._fit_outlier_detection_model = orig
    return seen or None


def tune_to_cutoff(rng, case, caseB, uid):
    """search support: when the perturbed (excluded) unit sits in the frame the margin outlier model is fitted on, its count moves the
    cut-off; move the margin of one ordinary reporting unit (same total) until it is flagged under the lower of the two cut-offs by a
    hair, so that the pair of runs differs in which units are modelled.  Returns the tuned (case, caseB) or None (nothing to tune: the
    unit is not in that frame, which is what the rules demand)."""
    pa, pb = margin_outlier_probe(case), margin_outlier_probe(caseB)
    if not pa or not pb or uid not in pa["ids"] or uid not in pb["ids"] or pa["thr"] == pb["thr"]:
        return None
    low_is_a = pa["thr"] < pb["thr"]
    e = case["election"]
    cands = [u for u, a in zip(pa["ids"], pa["ar"]) if u != uid and e.roles.get(u) == "reporting" and a < min(pa["thr"], pb["thr"])]
    if not cands:
        return None
    x = max(cands, key=lambda u: pa["ar"][pa["ids"].index(u)])

    def shifted(c, t, sign):
        c2 = dict(c)
        e2 = copy.deepcopy(c["election"])
        i = e2.cur.index[e2.cur["geographic_unit_fips"] == x][0]
        d, g = int(e2.cur.loc[i, "results_dem"]), int(e2.cur.loc[i, "results_gop"])
        e2.cur.loc[i, "results_dem"], e2.cur.loc[i, "results_gop"] = d + sign * t, g - sign * t
        c2["election"] = e2
        return c2

    i0 = e.cur.index[e.cur["geographic_unit_fips"] == x][0]
    d0, g0 = int(e.cur.loc[i0, "results_dem"]), int(e.cur.loc[i0, "results_gop"])
    for sign, room in ((1, g0), (-1, d0)):
        lo, hi, best = 0, room, None
        for _ in range(24):
            mid = (lo + hi) // 2
            p = margin_outlier_probe(shifted(case if low_is_a else caseB, mid, sign))
            if not p or x not in p["ids"]:
                break
            gap = p["ar"][p["ids"].index(x)] - p["thr"]
            if gap > 0:
                best, hi = mid, mid
            else:
                lo = mid
            if hi - lo <= 1:
                break
        if best is not None:
            return shifted(case, best, sign), shifted(caseB, best, sign)
    return None


def outlier_stream(run, n):
    """default outlier models on: the count of a blocklisted reporting unit must not change which other units are flagged"""
    rng = run.rng
    for k_ in range(n):
        # every third pair: the margin outlier model of a bootstrap run, limits configured so wide (a negative lower limit is a valid
        # setting) that only the explicit rules keep a reporting zero-baseline unit out of the fit
        zb = k_ % 3 == 1
        role = "zero-baseline" if zb else "blocklisted"
        case = A.gen_case(rng, pi_method="bootstrap" if zb else "nonparametric", size="medium",
                          roles=["reporting"] * 9 + ["partial", role], min_reporting=26, district=False)
        case["params"] = dict(case["params"], fit_turnout_outlier_model=True, fit_margin_outlier_model=True)
        if zb:
            case["params"].update(turnout_factor_lower=-1, turnout_factor_upper=50)
            case["tf_lo"], case["tf_hi"] = -1, 50
        if "unit" not in case["aggregates"]:
            case["aggregates"] = case["aggregates"] + ["unit"]
        e = case["election"]
        ids = [u for u, r in e.roles.items() if r == role and u in set(e.cur["geographic_unit_fips"])
               and float(e.cur.loc[e.cur["geographic_unit_fips"] == u, "percent_expected_vote"].iloc[0]) >= e.threshold]
        if not ids:
            continue
        uid = rng.choice(ids)
        caseB, mode = perturb(rng, case, uid, role)
        if zb:
            # lopsided replacement: the unit's own margin residual changes a lot
            i = caseB["election"].cur.index[caseB["election"].cur["geographic_unit_fips"] == uid][0]
            caseB["election"].cur.loc[i, ["results_dem", "results_gop", "results_turnout"]] = [3, 1997, 2011]
            mode = "lopsided"
            tuned = tune_to_cutoff(rng, case, caseB, uid)
            if tuned is not None:
                case, caseB = tuned
                mode = "lopsided, another unit tuned to the cut-off of the margin outlier model"
                run.count("outlier stream: tuned to the cut-off")
        ra, rb = A.run_case(case), A.run_case(caseB)
        L = A.light(case)
        L.update({"perturbed_unit": uid, "kind": role + " (outlier models on)", "replacement": mode})
        run.case(L, True)
        run.count("outlier stream")
        if "raises" in ra or "raises" in rb:
            continue
        d = P.diff_tables({"unit_data": ra["tables"]["unit_data"]}, {"unit_data": rb["tables"]["unit_data"]},
                          ignore_rows={"unit_data": lambda k: k[-1] == uid})
        if d:
            run.violation("with the outlier-detection models on, the count of a blocklisted / zero-baseline unit changes other units' rows (the "
                          "outlier model is fitted before such units are removed)", input=L, impl=[str(x) for x in d[0]],
                          predicate="rep_invariant", signature="C10:outlier-leak", replay_case=A.case_json(caseB), base_case=A.case_json(case))


def historical(run, n):
    """HistoricalModelClient offline: config and historical data are read from ./config and ./data of a scratch directory"""
    rng = run.rng
    cm = E.client_mod()
    for _ in range(n):
        e = E.gen_election(rng, size="small", plain=True, min_reporting=10)
        hist_id = "2018-11-06_USA_G"
        work = tempfile.mkdtemp(prefix="c10_hist_")
        cwd = os.getcwd()
        try:
            os.makedirs(os.path.join(work, "config"))
            os.makedirs(os.path.join(work, "data", hist_id, e.office))
            cfg = e.config()
            cfg[E.ELECTION_ID][0]["historical_election"] = [hist_id]
            cfg[hist_id] = copy.deepcopy(cfg[E.ELECTION_ID])
            json.dump(cfg, open(os.path.join(work, "config", f"{E.ELECTION_ID}.json"), "w"))
            json.dump(cfg, open(os.path.join(work, "config", f"{hist_id}.json"), "w"))
            hist = e.pre.copy()
            for c in ("dem", "gop", "turnout"):
                hist[f"results_{c}"] = (hist[f"baseline_{c}"] * rng.uniform(0.8, 1.2)).astype(int)
            below = list(e.cur.loc[e.cur["percent_expected_vote"] < e.threshold, "geographic_unit_fips"])
            # an expected-vote figure computed from a ballot estimate can sit a hair below the threshold (199,999 of 200,000): still below
            e.cur["percent_expected_vote"] = e.cur["percent_expected_vote"].astype(float)
            for u in below[:2]:
                e.cur.loc[e.cur["geographic_unit_fips"] == u, "percent_expected_vote"] = e.threshold * (1 - rng.choice([4e-6, 5e-7]))
            # the live feed arrives in its own order (not the order of the historical file) and with its own index
            feed = e.cur.sample(frac=1, random_state=rng.randint(0, 10**6)).reset_index(drop=True)
            hist = hist.sample(frac=1, random_state=rng.randint(0, 10**6)).reset_index(drop=True)
            outs = []
            for variant in range(2):
                h = hist.copy()
                if variant == 1:
                    m = h["geographic_unit_fips"].isin(below)
                    for c in ("dem", "gop", "turnout"):
                        h.loc[m, f"results_{c}"] = h.loc[m, f"results_{c}"] * 7 + 1234
                h.to_csv(os.path.join(work, "data", hist_id, e.office, f"data_{e.unit_type}.csv"), index=False)
                os.chdir(work)
                try:
                    cl = cm.HistoricalModelClient()
                    with np.errstate(all="ignore"):
                        r = cl.get_historical_evaluation(
                            feed.copy(), E.ELECTION_ID, e.office, ["turnout"], [0.5], e.threshold, e.unit_type,
                            aggregates=["postal_code"], pi_method="nonparametric", save_output=[], features=[], fixed_effects={},
                            model_parameters={"fit_margin_outlier_model": False, "fit_turnout_outlier_model": False})
                    outs.append(P.digest(r[hist_id]["estimates"]))
                except Exception as ex:
                    outs.append({"raises": type(ex).__name__, "msg": str(ex)[:200]})
                finally:
                    os.chdir(cwd)
            case = {"historical": True, "election": e.describe(), "units_below_threshold": len(below)}
            run.case(case, bool(below))
            run.count("historical pairs")
            if isinstance(outs[0], dict) or isinstance(outs[1], dict):
                run.info["historical_note"] = str(outs)[:300]
                continue
            if outs[0] != outs[1]:
                run.violation("historical evaluation: the estimates depend on the historical results of units that are not yet reporting",
                              input=case, impl=outs, predicate="historical_hidden", signature="C10:historical")
        finally:
            os.chdir(cwd)
            shutil.rmtree(work, ignore_errors=True)


def replay(run, driver, payload):
    # the generators are driven by the seed and pass recorded in the replay file (set by main): the same pass is re-run
    explore(run, driver, run.budget)
