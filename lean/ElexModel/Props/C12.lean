import ElexModel.Core.Determinism
import ElexModel.Gen.C12
import Mathlib.Data.List.Perm.Basic
import Mathlib.Tactic.Linarith

/-!
# C12 — estimates are a deterministic function of the arguments

Theorems about the generator / client-state discipline and about the set-iteration-order independence of the aggregate
list; bridge lemmas to the list of randomness sources re-read from `/repo/src` on this run (every one seeded from a setting,
none created at module level).
-/

namespace ElexModel.Det

/-- **history independence**: the output of an estimate run does not depend on what the client did before -/
theorem estimate_history_independent (mix : ℕ → ℕ → ℕ) (c c' : Client) (seed k : ℕ) :
    (step mix c (.estimate seed k)).2 = (step mix c' (.estimate seed k)).2 := rfl

/-- … and the client is left in the same state, so later calls cannot tell either -/
theorem estimate_resets_client (mix : ℕ → ℕ → ℕ) (c c' : Client) (seed k : ℕ) :
    (step mix c (.estimate seed k)).1 = (step mix c' (.estimate seed k)).1 := rfl

/-- the summary reads, it does not write: asking again gives the same answer -/
theorem natsum_idempotent (mix : ℕ → ℕ → ℕ) (c : Client) :
    (step mix c .natsum).1 = c ∧ (step mix (step mix c .natsum).1 .natsum).2 = (step mix c .natsum).2 := ⟨rfl, rfl⟩

/-- **the national summary depends on the last estimate run only** — not on earlier runs, nor on how many times the
    summary was already requested -/
theorem natsum_depends_on_last_estimate_only (mix : ℕ → ℕ → ℕ) (c c' : Client) (seed k n m : ℕ) :
    (run mix c (.estimate seed k :: List.replicate n .natsum ++ [.natsum])).2.getLast? =
    (run mix c' (.estimate seed k :: List.replicate m .natsum ++ [.natsum])).2.getLast? := by
  have key : ∀ (d : Client) (j : ℕ), (run mix d (List.replicate j .natsum ++ [.natsum])).2.getLast? = some d.lastDraws := by
    intro d j
    induction j with
    | zero => simp [run, step]
    | succ j ih =>
      simp only [List.replicate_succ, List.cons_append, run, step]
      cases hh : (run mix d (List.replicate j Call.natsum ++ [Call.natsum])).2 with
      | nil => rw [hh] at ih; simp at ih
      | cons a t => rw [hh] at ih; rw [List.getLast?_cons_cons]; exact ih
  simp only [List.cons_append, run]
  have e1 : ∀ (d : Client) (j : ℕ), ((step mix d (.estimate seed k)).2 ::
      (run mix (step mix d (.estimate seed k)).1 (List.replicate j .natsum ++ [.natsum])).2).getLast? =
      some (step mix d (.estimate seed k)).1.lastDraws := by
    intro d j
    have := key (step mix d (.estimate seed k)).1 j
    cases hh : (run mix (step mix d (.estimate seed k)).1 (List.replicate j Call.natsum ++ [Call.natsum])).2 with
    | nil => rw [hh] at this; simp at this
    | cons a t => rw [hh] at this; rw [List.getLast?_cons_cons]; exact this
  rw [e1 c n, e1 c' m]; rfl

/-- draws of a fresh generator are a function of the seed alone -/
theorem drawN_seed_only (mix : ℕ → ℕ → ℕ) (seed k : ℕ) :
    (drawN mix ⟨seed, 0⟩ k).1 = (List.range k).map (mix seed) := by
  have gen : ∀ (p k : ℕ), (drawN mix ⟨seed, p⟩ k).1 = (List.range k).map (fun i => mix seed (p + i)) := by
    intro p k
    induction k generalizing p with
    | zero => rfl
    | succ k ih =>
      simp only [drawN, ih (p+1), List.range_succ_eq_map, List.map_cons, List.map_map, Nat.add_zero]
      congr 1
      apply List.map_congr_left
      intro i _
      simp only [Function.comp]
      congr 1; omega
  simpa using gen 0 k

/-- the excluded pattern really breaks the property: with a shared generator the second run sees other draws -/
example : (stepShared (fun s p => s * 100 + p) ⟨7, 0⟩ 2).2 ≠
    (stepShared (fun s p => s * 100 + p) (stepShared (fun s p => s * 100 + p) ⟨7, 0⟩ 2).1 2).2 := by decide

/-! ### the aggregate list does not depend on the iteration order of the set it goes through -/

theorem insertBy_perm (order : List String) (x : String) (l : List String) : (insertBy order x l).Perm (x :: l) := by
  induction l with
  | nil => simp [insertBy]
  | cons y t ih =>
    unfold insertBy
    split
    · exact List.Perm.refl _
    · exact (List.Perm.cons y ih).trans (List.Perm.swap x y t)

theorem sortBy_perm (order : List String) (l : List String) : (sortBy order l).Perm l := by
  unfold sortBy
  induction l with
  | nil => simp
  | cons a t ih => simp only [List.foldr_cons]; exact (insertBy_perm order a _).trans (List.Perm.cons a ih)

theorem insertBy_sorted (order : List String) (x : String) (l : List String)
    (h : l.Pairwise (fun a b => rank order a ≤ rank order b)) :
    (insertBy order x l).Pairwise (fun a b => rank order a ≤ rank order b) := by
  induction l with
  | nil => simp [insertBy]
  | cons y t ih =>
    have hy := List.pairwise_cons.mp h
    unfold insertBy
    split
    · rename_i hle
      refine List.pairwise_cons.mpr ⟨?_, h⟩
      intro z hz
      rcases List.mem_cons.mp hz with rfl | hz
      · exact hle
      · exact le_trans hle (hy.1 z hz)
    · rename_i hnle
      refine List.pairwise_cons.mpr ⟨?_, ih hy.2⟩
      intro z hz
      rcases List.mem_cons.mp ((insertBy_perm order x t).mem_iff.mp hz) with rfl | hz
      · omega
      · exact hy.1 z hz

theorem sortBy_sorted (order : List String) (l : List String) :
    (sortBy order l).Pairwise (fun a b => rank order a ≤ rank order b) := by
  unfold sortBy
  induction l with
  | nil => simp
  | cons a t ih => simp only [List.foldr_cons]; exact insertBy_sorted order a _ ih

/-- distinct members of the order have distinct ranks -/
theorem rank_inj (order : List String) (a b : String) (ha : a ∈ order) (hb : b ∈ order)
    (h : rank order a = rank order b) : a = b := by
  unfold rank at h
  have h1 := List.getElem_idxOf (List.idxOf_lt_length_of_mem ha)
  have h2 := List.getElem_idxOf (List.idxOf_lt_length_of_mem hb)
  simp only [h] at h1
  exact h1.symm.trans h2

/-- **hash-seed independence of the aggregate list**: whatever order the `set` yields its (distinct) elements in, sorting by
    the fixed order gives the same list -/
theorem sort_perm_invariant (order l₁ l₂ : List String) (hp : l₁.Perm l₂) (hmem : ∀ x ∈ l₁, x ∈ order) :
    sortBy order l₁ = sortBy order l₂ := by
  apply List.Perm.eq_of_pairwise (le := fun a b => rank order a ≤ rank order b)
  · intro a b ha hb hab hba
    have ha' : a ∈ order := hmem a ((sortBy_perm order l₁).mem_iff.mp ha)
    have hb' : b ∈ order := hmem b (hp.mem_iff.mpr ((sortBy_perm order l₂).mem_iff.mp hb))
    exact rank_inj order a b ha' hb' (le_antisymm hab hba)
  · exact sortBy_sorted order l₁
  · exact sortBy_sorted order l₂
  · exact (sortBy_perm order l₁).trans (hp.trans (sortBy_perm order l₂).symm)

/-! ### bridge: the randomness sources and the aggregate order as they are in `/repo/src` on this run -/

/-- **all randomness is derived from a seed setting**: every random call site reachable from an estimate run passes a seed /
    random state, and no generator is created at module level -/
theorem bridge_all_seeded : (∀ s ∈ Gen.C12.random_sites, s.2 = true) ∧ Gen.C12.module_level_generators = [] := by
  decide

theorem bridge_order_nodup : Gen.C12.aggregate_order.Nodup ∧
    Gen.C12.aggregate_order = ["postal_code", "district", "county_classification", "county_fips"] := by decide

/-- **what a client keeps between calls**: everything an estimate run reads from the client (model object, results handler,
    election id, office, unit type, save flag) is set anew by that run before it is read, and a model object — with its generator,
    created from the seed setting in the model's `__init__` — is constructed inside the run; the two dictionaries that persist hold
    calibration data for saving only. This is the shape `step` models: an estimate run overwrites the client state it uses. -/
theorem bridge_client_state :
    Gen.C12.client_persistent_state = ["self.all_conformalization_data_agg_dict", "self.all_conformalization_data_unit_dict", "self.election_id", "self.geographic_unit_type", "self.model", "self.office", "self.results_handler", "self.save_results"] ∧
    Gen.C12.client_set_per_call = ["self.save_results = 'results' in save_output", "self.election_id = election_id", "self.office = office", "self.geographic_unit_type = geographic_unit_type", "self.results_handler = ModelResultsHandler(…)", "self.model = NonparametricElectionModel(…)", "self.model = GaussianElectionModel(…)", "self.model = BootstrapElectionModel(…)"] ∧
    Gen.C12.generator_created = ["BootstrapElectionModel.__init__: self.rng = np.random.default_rng(seed=self.seed)"] :=
  ⟨rfl, rfl, rfl⟩

/-! ### non-vacuity -/
example : sortBy Gen.C12.aggregate_order ["county_fips", "postal_code"] = ["postal_code", "county_fips"] ∧
    sortBy Gen.C12.aggregate_order ["postal_code", "county_fips"] = ["postal_code", "county_fips"] := by decide

/-- no buffer of the code reachable from an estimate run is read before it is written: no `np.empty` / `np.empty_like` /
    `np.ndarray(shape)`, no ufunc that writes `where=` a mask holds into an uninitialised (or no) `out=` (static scan, regenerated) -/
theorem bridge_no_uninitialised_memory : Gen.C12.uninitialised_buffers = [] := rfl

end ElexModel.Det
