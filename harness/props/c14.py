"""C14 - enough reporting units means an estimate; too few means the dedicated error.

(i) arithmetic grid, exhaustive in n: get_minimum_reporting_units, _compute_conf_frac, the train_rows expression (evaluated from
    the source text), the quantile level - against the Lean model and the definitions regenerated from source; the theorem's
    hypotheses and conclusions are evaluated on the implementation's floats;
(ii) API level: runs at n = min-1, min, min+1, min+2 and larger for every estimator and (unordered) level lists;
(iii) duplicate reporting ids.
"""
import ast
import math
import random
from fractions import Fraction
from types import SimpleNamespace

import numpy as np
import pandas as pd

from harness import common as C
from harness import election as E
from harness import extract as X

PROP = "C14"
MODULES = ["ElexModel.Props.C14"]
DRIVER_TARGETS = ["ElexModel.Driver.Conformal"]
TRUSTED = [
    "binary64 vs exact rationals: the model receives the exact value of the float alpha; floor/ceil/round decisions whose exact "
    "argument is within 1e-9 of a boundary are skipped and counted",
    "the quantile-regression solver is an oracle: 'the run completes' is observed, not proved",
]
ASSUMPTIONS = ["0 < alpha < 1", "the gate counts modelled reporting units (after non-modelled units are removed)"]
RULE = (
    "grid: every n from the minimum up to the bound x a list of dyadic and decimal alphas (exhaustive in n); API: one-state "
    "elections with exactly n modelled reporting units, n in {min-1, min, min+1, min+2, larger}, level lists in every order; "
    "non-trivial = n within 2 of a minimum or a split with a single training row; distinct = (estimator, alphas, n)"
)
EPS = Fraction(1, 10**9)


def extract(run):
    return X.generate("C14")


def _near_int(x):
    d = abs(x - round(x))
    return 0 < d < EPS


_EXPR = None


def train_rows_expr():
    """the source expression assigned to train_rows, compiled"""
    global _EXPR
    if _EXPR is None:
        src = (C.SRC / "elexmodel/models/ConformalElectionModel.py").read_text()
        tree = ast.parse(src)
        fn = X._find(tree, "ConformalElectionModel", "get_unit_prediction_interval_bounds")
        node = X.assigned_expr(fn, "train_rows")
        _EXPR = compile(ast.Expression(node), "<train_rows>", "eval")
    return _EXPR


def grid(run, driver, nmax, alphas):
    C.use_repo()
    from elexmodel.models.NonparametricElectionModel import NonparametricElectionModel

    model = NonparametricElectionModel({})
    expr = train_rows_expr()
    ops, meta = [], []
    for a in alphas:
        af = C.frac(a)
        exact = (1 + af) / (1 - af)
        mn = model.get_minimum_reporting_units(a)
        case0 = {"grid": "split", "alpha": a}
        if Fraction(mn) < exact:
            run.violation("minimum number of units is below (1+alpha)/(1-alpha)", input=case0, impl=mn,
                          expected=f">= {float(exact)}", predicate="minUnits_ge", signature="C14:min")
        for n in range(max(2, mn), nmax):
            cf = model._compute_conf_frac(n, a)
            tr = eval(expr, {"math": math, "self": SimpleNamespace(n_train=n), "conf_frac": cf, "max": max})
            ncal = n - tr
            case = {"grid": "split", "alpha": a, "n": n}
            run.evaluations += 1
            near_min = n <= mn + 2 or tr <= 1
            if near_min:
                run.distinct.add(("grid", a, n))
            # hypotheses of cal_enough on the floats
            raw = min(1 - exact / n, Fraction(9, 10))
            if not (C.frac(cf) <= raw + Fraction(1, 200) + EPS):
                run.violation("conformalization fraction is more than 1/200 above the unrounded one", input=case,
                              impl=cf, expected=float(raw), predicate="cal_enough (hypothesis)", signature="C14:cf")
            # conclusions
            if tr < 1:
                run.violation("the calibration split leaves no training unit", input=case, impl={"train_rows": tr, "cf": cf},
                              predicate="train_at_least_one", signature="C14:train")
            elif ncal < 1:
                run.violation("the calibration split leaves no calibration unit", input=case, impl={"train_rows": tr, "n": n},
                              predicate="split_ok", signature="C14:ncal")
            else:
                q = a * (1 + 1 / ncal)
                if not (q < 1):
                    run.violation("quantile level alpha*(1+1/n_cal) is not below 1", input=case,
                                  impl={"q": q, "ncal": ncal}, predicate="qLevel_lt_one", signature="C14:q")
            if len(ops) < 60000 and (near_min or n % 7 == 0):
                ops.append({"op": "conf.split", "alpha": C.rat(a), "n": n})
                ops.append({"op": "conf.train", "n": n, "cf": C.rat(cf)})
                meta.append((case, mn, cf, tr, af, exact))
    run.count("grid points", run.evaluations)
    if driver is None or not ops:
        return
    outs = driver.run(ops)
    for i, (case, mn, cf, tr, af, exact) in enumerate(meta):
        o, o2 = outs[2 * i], outs[2 * i + 1]
        n = case["n"]
        if not _near_int(exact) and (o["min"] != mn or C.unrat(o["gen_min"]) != mn):
            run.diff("get_minimum_reporting_units vs model / regenerated definition", input=case, impl=mn, model=o)
        raw100 = C.unrat(o["cf_raw"]) * 100
        if abs((raw100 * 2) - round(raw100 * 2)) < EPS * 2 and round(raw100 * 2) % 2 == 1 and raw100 != round(raw100):
            run.boundary_skipped += 1
        elif not C.close(cf, C.unrat(o["cf"]), Fraction(1, 10**12)) or o["gen_cf"] != o["cf"]:
            run.diff("_compute_conf_frac vs model / regenerated definition", input=case, impl=cf, model=o)
        if _near_int(n * C.frac(cf)):
            run.boundary_skipped += 1
        elif o2["train"] != tr or C.unrat(o2["gen_train"]) != tr:
            run.diff("train_rows expression vs model / regenerated definition", input=case, impl=tr, model=o2)
        run.traces += 1


def consts(run, driver):
    C.use_repo()
    from elexmodel.models.BootstrapElectionModel import BootstrapElectionModel
    from elexmodel.models.GaussianElectionModel import GaussianElectionModel

    g = GaussianElectionModel({})
    b = BootstrapElectionModel({"features": ["baseline_normalized_margin"]})
    if driver is None:
        return
    for a in (0.5, 0.9):
        o = driver.run([{"op": "conf.consts", "alpha": C.rat(a)}])[0]
        impl = {"gauss_cf": g._compute_conf_frac(), "gauss_min": g.get_minimum_reporting_units(a),
                "boot_min": b.get_minimum_reporting_units(a)}
        for k, v in impl.items():
            if not C.close(v, C.unrat(o[k]), Fraction(1, 10**12)):
                run.diff("constant regenerated from source vs implementation", input={"const": k, "alpha": a}, impl=v, model=o[k])
        run.evaluations += 1


# ----------------------------------------------------------------------------------------------
# API level


def exact_election(rng, n_rep, n_partial=3, dup=False, first_state=None):
    """exactly n_rep reporting units. first_state = k: a two-state election, the first k reporting units in AA and the others in BB;
    the outstanding units alternate between the states (k = n_rep: BB is modelled but has no reporting unit yet)"""
    e = E.Election()
    e.states = ["AA"] if first_state is None else ["AA", "BB"]
    e.unit_type = "county"
    e.office = "G"
    e.threshold = 100
    rows, feed = [], []
    for i in range(n_rep + n_partial):
        st = "AA"
        if first_state is not None and ((i < n_rep and i >= first_state) or (i >= n_rep and (i - n_rep) % 2 == 0)):
            st = "BB"
        uid = f"{1 if st == 'AA' else 2}0{i:03d}"
        bd, bg = rng.randint(50, 3000), rng.randint(50, 3000)
        bt = bd + bg + rng.randint(0, 100)
        row = {"postal_code": st, "geographic_unit_fips": uid, "county_fips": uid, "county_classification": "urban",
               "baseline_dem": bd, "baseline_gop": bg, "baseline_turnout": bt, "x1": rng.randint(-64, 64) / 64,
               "x2": rng.randint(0, 128) / 64}
        rows.append(row)
        role = "reporting" if i < n_rep else "partial"
        e.roles[uid] = role
        feed.append(E.feed_row(rng, e, row, role))
        if role == "reporting":
            feed[-1]["percent_expected_vote"] = 100
    if dup:
        feed.append(dict(feed[0]))
    e.pre = pd.DataFrame(rows)
    e.cur = pd.DataFrame(feed)
    return e


def impl_min(pi, alpha):
    C.use_repo()
    if pi == "nonparametric":
        from elexmodel.models.NonparametricElectionModel import NonparametricElectionModel as M

        return M({}).get_minimum_reporting_units(alpha)
    if pi == "gaussian":
        from elexmodel.models.GaussianElectionModel import GaussianElectionModel as M

        return M({}).get_minimum_reporting_units(alpha)
    from elexmodel.models.BootstrapElectionModel import BootstrapElectionModel as M

    return M({"features": ["baseline_normalized_margin"]}).get_minimum_reporting_units(alpha)


# several levels in one request, ascending and not, at and somewhat above the largest minimum: every level must get enough
# calibration units from its own split (runs first on every check)
DEDICATED = [([0.7, 0.9], 0), ([0.7, 0.9], 1), ([0.7, 0.9], 13), ([0.5, 0.9], 0), ([0.5, 0.9], 27), ([0.5, 0.6, 0.95], 0),
             ([0.5, 0.6, 0.95], 9), ([0.9, 0.7], 0), ([0.6, 0.8], 0), ([0.6, 0.8], 4)]


def api(run, driver, n_cases):
    rng = run.rng
    for i in range(-len(DEDICATED), n_cases):
        pi = ["nonparametric", "nonparametric", "gaussian", "bootstrap"][i % 4] if i >= 0 else "nonparametric"
        if i < 0:
            alphas = DEDICATED[i][0]
        elif pi == "nonparametric":
            alphas = rng.choice([[0.7], [0.5], [0.9, 0.7], [0.7, 0.9], [0.9, 0.5, 0.7], [0.95, 0.8], [0.6], [0.75], [0.85],
                                 [0.5, 0.6], [0.3], [0.95]])
        else:
            alphas = rng.choice([[0.7], [0.9, 0.7], [0.5, 0.9]])
        mins = [impl_min(pi, a) for a in alphas]
        need = max(mins)
        need_i = int(math.ceil(need))
        n = need_i + rng.choice([-1, -1, 0, 0, 0, 1, 1, 2, rng.randint(3, 25)])
        lo = min(int(math.ceil(m)) for m in mins)
        if len(alphas) > 1 and rng.random() < 0.4 and lo < need_i:
            n = rng.randint(lo, need_i - 1)  # between the smallest and the largest minimum
        if i < 0:
            n = need_i + DEDICATED[i][1]
        n = max(1, n)
        dup = i >= 0 and rng.random() < 0.12 and n >= need_i
        first = None
        if i >= 0 and (i % 4 >= 2 and i < 12 or rng.random() < 0.3):
            # the minimum counts reporting units of the whole run, however they are spread over the contests: all in one state while
            # the other has none yet, half and half, all but one, one
            first = rng.choice([n, n, n // 2, n - 1, 1]) if i >= 12 else [n, n // 2][(i // 4) % 2]
        e = exact_election(rng, n, n_partial=rng.randint(2 if first is not None else 1, 4), dup=dup, first_state=first)
        case = {"api": True, "pi_method": pi, "alphas": alphas, "n_reporting": n, "minimum": need, "duplicate": dup,
                "reporting_in_first_state": first}
        if pi == "bootstrap":
            res = E.run_client(e, estimands=["margin"], alphas=alphas, pi_method=pi, params=E.boot_params(B=6),
                               features=["baseline_normalized_margin"])
        else:
            res = E.run_client(e, estimands=["turnout"], alphas=alphas, pi_method=pi, features=[])
        run.case(case, abs(n - need_i) <= 2 or dup)
        run.count("api " + pi)
        impl = res.get("raises", "completed")
        if dup:
            want = "ModelClientException"
        else:
            want = "ModelNotEnoughSubunitsException" if n < need else "completed"
        if impl != want:
            what = {
                "ModelClientException": "duplicate reporting unit ids were not rejected with the client error",
                "ModelNotEnoughSubunitsException": "too few reporting units did not raise the dedicated error",
                "completed": "the minimum is met but the run did not complete",
            }[want]
            run.violation(what, input=case, impl={"outcome": impl, "msg": res.get("msg")}, expected=want,
                          predicate="gate_iff / split_ok", signature="C14:gate", replay_case=case, election=e.to_json())
        if driver is not None and not dup:
            g = driver.run([{"op": "conf.gate", "mins": [C.rat(m) for m in mins], "nrep": n}])[0]
            if g != (impl == "ModelNotEnoughSubunitsException"):
                run.diff("gate: model vs implementation", input=case, impl=impl, model=g)
            run.traces += 1


def api_corners(run):
    """corners of the gate that run first on every check: no live rows at all (header-only list of lists, empty frame), and a feed
    dominated by excluded units (more than 20 blocklisted units reporting, default outlier settings) with the modelled units at
    0 / minimum - 1 / minimum / minimum + 1"""
    rng = run.rng
    cm = E.client_mod()
    cols = ["postal_code", "geographic_unit_fips", "percent_expected_vote", "results_dem", "results_gop", "results_turnout"]
    for pi, ests, feats, params in (("nonparametric", ["turnout"], [], {}), ("gaussian", ["turnout", "dem"], [], {}),
                                    ("bootstrap", ["margin"], ["baseline_normalized_margin"], E.boot_params(B=4))):
        e = exact_election(rng, 12, n_partial=2)
        for kind, feed in (("header-only list of lists", [cols]), ("empty frame", pd.DataFrame(columns=cols))):
            case = {"api": True, "corner": "no live rows: " + kind, "pi_method": pi}
            try:
                with np.errstate(all="ignore"):
                    cm.ModelClient().get_estimates(feed, E.ELECTION_ID, e.office, ests, [0.7], e.threshold, e.unit_type,
                                                   raw_config=e.config(), preprocessed_data=e.pre.copy(), save_output=[], pi_method=pi,
                                                   aggregates=["postal_code", "unit"], features=feats, fixed_effects={},
                                                   model_parameters=dict(params))
                impl = "completed"
            except Exception as ex:
                impl = type(ex).__name__
            run.case(case, True)
            run.count("corner: no live rows")
            if impl != "ModelNotEnoughSubunitsException":
                run.violation("no reporting unit at all did not raise the dedicated error", input=case, impl=impl,
                              expected="ModelNotEnoughSubunitsException", predicate="gate_iff", signature="C14:gate-empty")
    # a unit that is listed twice in the live data (an identical repeated row, or a repeated id with other counts) is an input error
    for variant in ("identical", "different counts"):
        e = exact_election(rng, 14, n_partial=2)
        row = dict(e.cur.iloc[0])
        if variant == "different counts":
            row["results_turnout"] = int(row["results_turnout"]) + 7
        e.cur = pd.concat([e.cur, pd.DataFrame([row])], ignore_index=True)
        res = E.run_client(e, estimands=["turnout"], alphas=[0.7], pi_method="nonparametric", features=[])
        case = {"api": True, "corner": "a reporting unit listed twice (" + variant + ")"}
        run.case(case, True)
        run.count("corner: duplicate unit")
        if res.get("raises") != "ModelClientException":
            run.violation("duplicate reporting unit ids were not rejected with the client error", input=case,
                          impl={"outcome": res.get("raises", "completed")}, expected="ModelClientException", predicate="gate_iff",
                          signature="C14:gate-duplicate", election=e.to_json())
    # the same id listed once under each of two states (baseline and feed), both copies reporting: still a repeated unit id
    for pi, ests, feats, params in (("nonparametric", ["turnout"], [], {}), ("gaussian", ["turnout"], [], {}),
                                    ("bootstrap", ["margin"], ["baseline_normalized_margin"], E.boot_params(B=4))):
        # (own generator: the streams that follow keep the cases they had before this corner existed)
        e = exact_election(random.Random(f"c14-two-states-{getattr(run, 'seed', 0)}-{pi}"), 26, n_partial=2, first_state=13)
        a = e.pre.index[e.pre["postal_code"] == "AA"][0]
        b = e.pre.index[e.pre["postal_code"] == "BB"][0]
        ida, idb = e.pre.loc[a, "geographic_unit_fips"], e.pre.loc[b, "geographic_unit_fips"]
        e.pre.loc[b, ["geographic_unit_fips", "county_fips"]] = [ida, ida]
        e.cur.loc[e.cur["geographic_unit_fips"] == idb, "geographic_unit_fips"] = ida
        e.roles.pop(idb, None)
        res = E.run_client(e, estimands=ests, alphas=[0.7], pi_method=pi, features=feats, params=dict(params))
        case = {"api": True, "corner": "a reporting unit id listed once under each of two states", "pi_method": pi}
        run.case(case, True)
        run.count("corner: duplicate unit")
        if res.get("raises") != "ModelClientException":
            run.violation("duplicate reporting unit ids were not rejected with the client error", input=case,
                          impl={"outcome": res.get("raises", "completed")}, expected="ModelClientException", predicate="gate_iff",
                          signature="C14:gate-duplicate", election=e.to_json())
    for alpha in (0.8, 0.7):
        need = int(math.ceil(impl_min("nonparametric", alpha)))
        for m in (0, need - 1, need, need + 1):
            e = exact_election(rng, 22 + m, n_partial=2)
            e.unit_blocklist = list(e.pre["geographic_unit_fips"][:22])
            case = {"api": True, "corner": "22 blocklisted reporting units", "modelled_reporting": m, "alpha": alpha, "minimum": need}
            res = E.run_client(e, estimands=["turnout"], alphas=[alpha], pi_method="nonparametric", features=[],
                               params={"fit_margin_outlier_model": True, "fit_turnout_outlier_model": True})
            impl = res.get("raises", "completed")
            want = "ModelNotEnoughSubunitsException" if m < need else "completed"
            run.case(case, True)
            run.count("corner: excluded units dominate")
            if impl != want:
                run.violation("with many excluded units reporting the gate does not count the modelled units only", input=case,
                              impl={"outcome": impl, "msg": res.get("msg")}, expected=want, predicate="gate_iff", signature="C14:gate-excluded",
                              election=e.to_json())
    # fixed shapes with their own generator (every run has them, whatever the seed): a list of levels whose last one needs fewer units
    # than an earlier one, with a count between the two minima; gaussian runs whose reporting units are spread over two states in the
    # ways that leave a state without (or with a single) calibration unit
    own = random.Random(f"c14-fixed-{getattr(run, 'seed', 0)}")
    fixed = []
    hi, lo = int(math.ceil(impl_min("nonparametric", 0.9))), int(math.ceil(impl_min("nonparametric", 0.7)))
    fixed.append(("nonparametric", [0.9, 0.7], hi - 1, None, "ModelNotEnoughSubunitsException"))
    fixed.append(("nonparametric", [0.9, 0.7], lo, None, "ModelNotEnoughSubunitsException"))
    fixed.append(("nonparametric", [0.9, 0.7], hi, None, "completed"))
    g = int(math.ceil(impl_min("gaussian", 0.7)))
    for n, first in ((g, g), (g + 3, g + 3), (g + 4, (g + 4) // 2), (g + 3, g + 2), (g + 3, 1)):
        fixed.append(("gaussian", [0.7], n, first, "completed"))
    for pi, alphas, n, first, want in fixed:
        e = exact_election(own, n, n_partial=3, first_state=first)
        res = E.run_client(e, estimands=["turnout"], alphas=alphas, pi_method=pi, features=[])
        case = {"api": True, "corner": "fixed shape", "pi_method": pi, "alphas": alphas, "n_reporting": n, "reporting_in_first_state": first}
        run.case(case, True)
        run.count("corner: fixed shapes")
        impl = res.get("raises", "completed")
        if impl != want:
            run.violation("too few reporting units did not raise the dedicated error" if want != "completed" else
                          "the minimum is met but the run did not complete", input=case, impl={"outcome": impl, "msg": res.get("msg")},
                          expected=want, predicate="gate_iff / split_ok", signature="C14:gate", election=e.to_json())


ALPHAS_Q = [0.5, 0.75, 0.875, 0.7, 0.9, 0.95, 0.99, 0.3, 0.6, 0.8, 0.85]


def explore(run, driver, budget):
    run.info["rule"] = RULE
    if budget == "quick":
        grid(run, driver, 1500, ALPHAS_Q)
        consts(run, driver)
        api_corners(run)
        api(run, driver, 40)
    elif budget == "thorough":
        al = sorted(set(ALPHAS_Q + [round(0.005 * k, 3) for k in range(1, 200)] + [0.25, 0.125, 0.0625, 0.9375]))
        grid(run, driver, 12000, al)
        consts(run, driver)
        api_corners(run)
        api(run, driver, 1200)
    else:
        grid(run, driver, 3000, ALPHAS_Q + [0.55, 0.65, 0.45, 0.97])
        api(run, driver, 200)


def replay(run, driver, payload):
    c = payload["input"]
    if c.get("grid"):
        grid(run, driver, c.get("n", 50) + 2, [c["alpha"]])
        return
    e = E.Election.from_json(payload["election"])
    pi = c["pi_method"]
    if pi == "bootstrap":
        res = E.run_client(e, estimands=["margin"], alphas=c["alphas"], pi_method=pi, params=E.boot_params(B=6),
                           features=["baseline_normalized_margin"])
    else:
        res = E.run_client(e, estimands=["turnout"], alphas=c["alphas"], pi_method=pi, features=[])
    run.case(c, True)
    impl = res.get("raises", "completed")
    want = "ModelClientException" if c["duplicate"] else (
        "ModelNotEnoughSubunitsException" if c["n_reporting"] < c["minimum"] else "completed")
    if impl != want:
        run.violation("outcome differs from the rule", input=c, impl={"outcome": impl, "msg": res.get("msg")},
                      expected=want, predicate="gate_iff / split_ok", signature="C14:gate", replay_case=c,
                      election=payload["election"])
