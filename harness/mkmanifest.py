"""Regenerate MANIFEST.json from the registry below (python3 harness/mkmanifest.py)."""
import json
from pathlib import Path

VERIF = Path(__file__).resolve().parent.parent

# property -> (technique, level text, level note, design ref)
CLAIMED = {
    "C19": (
        "Lean 4 theorems (induction over pages) about a hand-written model of list_versions/get + differential correspondence against a scripted paging service",
        "Theorems list_exact / get_skips_failures / get_none_when_empty prove, for every newest-first history, page size, window, "
        "sampling step and failing subset, that the paged listing with early stop equals the window filter and that retrieval is the "
        "sampled listing minus failures. The model is tied to the code by running S3VersionUtil and the Lean model on the same "
        "generated histories and diffing; the property predicate is also evaluated on every implementation output.",
        "Trusted: Lean kernel + {propext, Classical.choice, Quot.sound}; the scripted service (newest-first, single key, no delete "
        "markers); FIFO consumption of the download queue; harness canonicalisation.",
        "DESIGN.md section 5 C19",
    ),
    "C06": (
        "Lean 4 theorems over Rat (floor/ceil rank arithmetic, monotone linear quantile, straddle) + bridge lemmas to definitions regenerated from source + differential correspondence at stage level",
        "ranks_valid / quantile_levels_valid / ranks_mono / npQuantile_mono / unit_ordered / unit_nested / agg_straddle / agg_nested / "
        "margin_bounded are proved for every B >= 2, every level in (0,1), every list of draws and every group. _get_quantiles and the "
        "+-0.001 lines are re-translated from /repo/src on every run and tied to the model by bridge lemmas (rfl); the aggregation and "
        "interval construction are tied by running the real methods and the Lean model on generated frames with assigned draws. The clip "
        "stage of compute_bootstrap_errors (the six arrays the model keeps) and the clip bounds of _generate_nonreporting_bounds are translated "
        "from source; source_clip_draws / source_clip_point / source_draws_feasible prove that every stored draw has a non-negative turnout and "
        "a margin within +- turnout for every raw draw, so the hypotheses of margin_bounded hold for the source as written; the contest-effect "
        "decomposition (_estimate_epsilon / _estimate_delta) is modelled (BootErr) with five theorems and a differential stage.",
        "Trusted: Lean kernel + standard axioms; the sampling and regression inside compute_bootstrap_errors remain an oracle (raw draws are "
        "universally quantified leaves of the clip-stage theorems); float vs exact handled by 1e-9 tolerance and a counted boundary rule.",
        "DESIGN.md section 5 C06",
    ),
    "C07": (
        "Lean 4 theorems (case analysis on the override functions, list membership for the validation) + bridge lemmas to thresholds / "
        "_is_top_level_aggregate regenerated from source + differential correspondence at stage level",
        "called_lhs_pred/lower, called_rhs_pred/upper, stopped_uncalled_contains_zero, uncalled_unstopped_unchanged, format_error_iff, "
        "format_positions hold for arbitrary rational predictions, draws, levels and lists. The thresholds and the top-level test are "
        "re-translated from source each run; race-call arithmetic and _format_called_contests are diffed against the model.",
        "Trusted: as C06; contest identity is string equality as in pandas.get_dummies.",
        "DESIGN.md section 5 C07",
    ),
    "C01": (
        "Lean 4 theorems about a relational model of the three-way split and of the aggregate tables (induction over rows; group-sum algebra) + API-level differential correspondence on generated elections",
        "split_ids_nodup / split_covers_feed / split_covers_base_zero / split_ids_known / votes_preserved prove that every unit is reported "
        "exactly once with its own votes (under FeedConsistent); counted_conserved / group_exists_iff prove that the counted and reporting "
        "columns of every aggregate row are sums over exactly the attributable units, for every group structure. The model is run on every "
        "generated election next to ModelClient.get_estimates and all unit categories, counted votes and aggregate tables are compared exactly.",
        "Trusted: Lean kernel + standard axioms; pandas idioms modelled as relational algebra (validated by the diff); key derivation for "
        "unexpected units done by the harness as the code does. Known finding KF-1 (known_findings.json).",
        "DESIGN.md section 5 C01",
    ),
    "C02": (
        "Lean 4 theorems (group-sum algebra: val_groupSum, val_addTables, sorted_ext) + API-level correspondence recomputing every aggregate table from the unit table",
        "agg_pred_is_sum / np_bounds_are_sums / agg_row_exists_iff / agg_keys_sorted / interval_rows_aligned_np / sumAt_parent (levels agree) / "
        "boot_turnout_is_sum / boot_margin_is_ratio hold for every list of units and every key assignment. Every aggregate table returned by "
        "the client is recomputed by the Lean model from the returned unit table and compared exactly; bootstrap identities are evaluated "
        "on full runs (their stage-level diff is part of the C06 check).",
        "Trusted: as C01; PostalFixedWidth for the bootstrap alignment.",
        "DESIGN.md section 5 C02",
    ),
    "C03": (
        "Lean 4 theorems about rounding (round-half-even commutes with an integer floor) and monotone group sums + API-level monitors and correspondence",
        "rhe_max_int / unit_floor_pred / unit_floor_lower / unit_floor_upper / final_rows / agg_floor_pred / agg_floor_np / agg_floor_gauss / "
        "no_nonreporting_zero_width hold for arbitrary rational regression outputs and corrections. Floors, whole-numberness, finality of "
        "reported rows and zero-width intervals are evaluated on every unit and aggregate row of generated runs (partial counts above the "
        "modelled value forced on 30% of partial units).",
        "Trusted: as C01; solver answers finite; gaussian scale > 0.",
        "DESIGN.md section 5 C03",
    ),
    "C09": (
        "Lean 4 theorems (decision function `category` characterised by iff-statements and first-reason lemmas) + API-level correspondence incl. an outlier-model stream with the flagged sets recorded as oracle",
        "fit_iff / predicted_iff / reason_* / nonreporting_not_filtered / mem_rep_iff / mem_nonrep_iff and the derived-quantity lemmas "
        "(zero denominators give 0) characterise exactly which units are fitted, predicted or passed through and with which reason. "
        "Every unit's frame and category in generated runs (thresholds and limits exactly at generated values, overlapping reasons, both "
        "policies, custom limits, outlier models switched on independently) is compared with the model.",
        "Trusted: as C01; the regression inside the outlier models is an oracle (flagged ids recorded and replayed); isclose(.,0) modelled as = 0.",
        "DESIGN.md section 5 C09",
    ),
    "C14": (
        "Lean 4 theorems over Rat (floor/ceil/round arithmetic of the calibration split, fold for the gate) + bridge lemmas to definitions regenerated from source + exhaustive-in-n grid and API-level gate correspondence",
        "minUnits_ge / train_at_least_one / cal_enough / qLevel_lt_one / split_ok / gauss_split / gate_iff are proved for every level in (0,1) "
        "and every count at or above the minimum, robustly (any fraction up to 1/100 above the unrounded one). The formulas are re-translated "
        "from /repo/src on every run (bridge lemmas by rfl); the implementation's floats are checked against hypotheses and conclusions on a "
        "grid exhaustive in n; ModelClient runs at n = min-1 ... min+2 and larger for every estimator and unordered level lists are compared "
        "with the gate model; duplicate ids must give the client error.",
        "Trusted: Lean kernel + standard axioms; float vs exact by boundary rule; 'the run completes' is observed (solver is an oracle).",
        "DESIGN.md section 5 C14",
    ),
    "C04": (
        "Lean 4 theorems (scan over a score-sorted list: calibrated, minimal, exists, permutation invariant; robust clause; vote-space transfer) + stage-level correspondence of _compute_population_correction and get_unit_prediction_intervals",
        "inside_iff_score_le / pop_calibrated / pop_minimal / pop_exists / pop_perm_invariant / robust_both / robust_calibrated / "
        "vote_space_transfer hold for every list of (score, weight) pairs and every level. The real _compute_population_correction is driven "
        "with adversarial lists (ties, negative corrections, shares hitting the level exactly) and the real get_unit_prediction_intervals end "
        "to end; corrections and final bounds are compared with the model and the calibration statement is evaluated on every output.",
        "Trusted: the lower/upper quantile regressions are oracles; exchangeability is an explicit assumption of the probabilistic clause "
        "(partial: no finite run can exhibit a probability).",
        "DESIGN.md section 5 C04",
    ),
    "C05": (
        "Lean 4 theorems (weighted median minimises the weighted absolute loss and is its unique minimiser; closed form of the swing) + API-level correspondence with features=[]",
        "wmed_minimises / wmed_unique / wmed_exists / wmed_perm_invariant / pinball_half / swing_closed_form: the first value whose running "
        "weight exceeds half is the solution of the intercept-only tau=1/2 regression, unique when no running weight equals half, hence any "
        "correct solver returns it. Covariate-free ModelClient runs (1-3 estimands, frames reused across calls) are compared unit by unit with "
        "the closed form computed in exact arithmetic; the recorded solver call must be (ones, relative change, baseline+1, 0.5).",
        "Trusted: solver correctness (validated by the diff); ties within 1e-6 of a rounding boundary skipped.",
        "DESIGN.md section 5 C05",
    ),
    "C17": (
        "Lean 4 theorems about a per-unit model of the history interpolation (sorted-prefix lemma, convex combination, row enumeration) + API-level correspondence of compute_versioned_margin_estimate",
        "est_zero / est_before_first / est_convex / lambda_range / est_bounded / percs_complete / irregular_all_missing / error_kind / "
        "regular_kept hold for every history. The real compute_versioned_margin_estimate is run on generated histories (repeats, zero-vote "
        "versions, downward revisions, party swaps without new votes, re-scaled percents, int and float columns) and every row, error type "
        "and nearest observation is compared with the model; the property (convex combination, bounds, completeness, correction, discarding) "
        "is evaluated on every output.",
        "Trusted: numpy searchsorted/diff/clip modelled as counting; float vs exact 1e-9 with a boundary rule.",
        "DESIGN.md section 5 C17",
    ),
    "C15": (
        "Lean 4 theorem (induction over key levels) that the recursive fit + matching loop assign to every group exactly the rule's source + stage-level correspondence with the bootstrapped scale replaced by a fingerprinting oracle",
        "assign_eq_source proves, for every group structure and any number of key levels, that the matching loop over the rows produced by the "
        "recursive GaussianModel.fit gives each group its own statistics if it holds >= min(10, N) calibration units, else its parent's, else "
        "the global ones; source_big / assign_not_sibling / fitRows_nodup give existence, never-a-sibling and exactly-one-row. The real fit and "
        "get_aggregate_prediction_intervals are run on generated structures; scipy.stats.bootstrap is replaced at the library boundary by a "
        "stub whose answer encodes its argument, so the calibration subset behind every row of modeled_bounds_agg is decoded exactly and "
        "compared; centre, inflation, the bounds formula and the floor at the group's own partial counts are recomputed.",
        "Trusted: weighted_median, compute_inflate, boot_sigma, norm.ppf, sqrt are oracles (recomputed with the same library calls).",
        "DESIGN.md section 5 C15",
    ),
    "C16": (
        "Lean 4 theorems about a per-effect model of the dummy-column logic (active / dropped / expanded levels, holdout shares, stable column order, centring) + API-level correspondence on Featurizer's public methods",
        "one_dropped_per_effect / active_nonconstant / holdout_seen / holdout_dropped / holdout_unseen / holdout_unseen_sum / other_pooled / "
        "sortFeatures_classes / sortFeatures_perm / centred_sum_zero hold for every assignment of levels to rows. prepare_data / "
        "filter_to_active_features / generate_holdout_data are run on random frames (levels seen only outside the fitting rows, missing "
        "levels, selected levels, separate-state models) and column lists and matrices are compared with the model; the design matrix of "
        "every solver call in full runs is recorded for the caller-level non-constancy predicate (known finding KF-3).",
        "Trusted: get_dummies column order (sorted level names); PrefixFree naming assumption.",
        "DESIGN.md section 5 C16",
    ),
    "C08": (
        "Lean 4 theorems about a model of the summary arithmetic (loss / gain ranges, monotone rounding) and of the model-object state as a fold over aggregate computations + stage-level correspondence and API-level history runs",
        "natsum_ordered / natsum_bounded / natsum_pred_formula / called_no_uncertainty / wrong_size_rejected hold for every list of contests, "
        "draws, calls, stops, levels and base values; natsum_history_independent / natsum_no_fail prove that after any sequence of aggregate "
        "computations containing the contest level the state the summary reads is what the contest level alone leaves. The real "
        "get_national_summary_estimates is diffed against the model on assigned state (near-tied contests, few draws); full bootstrap runs "
        "with every arrangement of finer aggregates must give identical summaries.",
        "Trusted: compute_bootstrap_errors is an oracle; non-default modes (sigmoid, no correlation) only get the ordering / bound predicates.",
        "DESIGN.md section 5 C08",
    ),
    "C20": (
        "Lean 4 theorems about a model of fit_model against a solver oracle indexed by call number (induction over the fits of a run) + bridge lemma to the try/except structure re-read from source + fault injection at the library boundary",
        "retry_same_args / no_retry_on_success / other_errors_propagate / retry_completes / other_failure_ends_run: for every position of the "
        "failing solve and both failure kinds the run completes with the coefficients of the run in which that fit is answered by the "
        "un-normalised solve, all other fits untouched; other exception classes propagate. The argument lists of the two model.fit calls "
        "and the caught exception classes are re-translated from /repo/src each run (bridge_retry_args / bridge_caught by decide). "
        "QuantileRegressionSolver.fit is wrapped to fail at every call position with SolverError / a cvxpy UserWarning / another "
        "exception; recorded call sequences and final tables are compared.",
        "Trusted: the solver itself is an oracle; the un-normalised solve succeeds.",
        "DESIGN.md section 5 C20",
    ),
    "C18": (
        "Lean 4 theorems about a model of the ordered persistence effects of one call (membership lemma + case analysis) + bridge lemmas to key templates / flags / guards re-translated from source + one-process-per-configuration correspondence with a recording S3 client",
        "nothing_by_default / results_only_nonlocal / results_written / conformalization_only_if_asked / conformalization_any_env / "
        "data_config_local_only / local_no_puts / saved_before_gate / live_results_first / one_prediction_per_table / keys_under_root hold "
        "for every combination of options, environment, estimator, request lists and gate outcome. The f-string key templates, the four "
        "save flags, the default, the APP_ENV guards, the gaussian write guard and the position of the live-results write relative to the "
        "gate are re-read from /repo/src each run (bridge lemmas by rfl). Each configuration (incl. two-call histories on one client) runs "
        "in its own process with boto3.client replaced before import; ordered keys and local files are compared with the model. A storage "
        "service that does not acknowledge one put is part of the model (runWithFault): ends_normally_all_stored / not_enough_still_saved / "
        "fault_aborts, tied to S3Util.put's raise, the absence of a handler in get_estimates and the reading of APP_ENV by shape anchors and "
        "to the code by fault injection at every put position (APP_ENV set / unset).",
        "Trusted: the recording client; S3CsvUtil.put's '.csv' suffix rule; parameters free of whitespace.",
        "DESIGN.md section 5 C18",
    ),
    "C13": (
        "Lean 4 theorem about the loop nest of get_estimates with the alpha-keyed cache of the gaussian model (induction over estimands; reads / writes as a trace) + pair runs (full request vs sub-requests / permutations) compared bit-for-bit",
        "cell_independent proves that in the loop nest every aggregate-interval read of the cell (estimand, level, alpha) sees the unit bounds "
        "written for the same estimand, for every list of estimands, levels and alphas and every initial cache content; cells_computed that "
        "every requested cell is computed. The write / read trace of the real GaussianElectionModel is recorded and compared with the model's; "
        "full requests are run against sub-requests and permutations (3 estimators, district elections included) and every common cell must be "
        "bit-identical, with stable key / category columns.",
        "Trusted: the numerical core is an oracle; bit-identity on one machine.",
        "DESIGN.md section 5 C13",
    ),
    "C11": (
        "Lean 4 theorems on the split and aggregation models (an extra feed row outside the baseline leaves the joined data unchanged; value functions of every aggregate level shift by exactly the unit's votes at its own key) + pair runs compared bit-for-bit",
        "dataRows_add_unexpected / split_add_unexpected prove that the fitting, predicting and non-modelled frames are unchanged and exactly "
        "one unexpected row is added; unexpected_adds_votes / other_groups_unchanged / groups_after_unexpected / np_bounds_shift prove that "
        "counted votes, prediction and both bounds of exactly the attributable group move by exactly the votes, nothing at a classification "
        "level, and a group is created if needed. Elections are run with and without 1-3 extra rows (known / unknown county, district, "
        "state; split-precinct ids) for 3 estimators and every aggregate list; all other numbers must be bit-identical.",
        "Trusted: numerical core as oracle; bootstrap per-draw clause observed through numerators / denominators.",
        "DESIGN.md section 5 C11",
    ),
    "C10": (
        "Lean 4 theorems on the split and aggregation models under a perturbation of one unit's feed row (find/filterMap congruence; value functions change only at the unit's own key) + bridge to the historical masking re-read from source + pair runs with recorded solver arguments",
        "category_nonreporting / category_blocklisted / category_zero_baseline / findFeed_perturb / joinRow_other / rep_invariant / "
        "other_rows_invariant prove that replacing the counts of a below-threshold, blocklisted or zero-baseline unit leaves the fitting frame "
        "and every other row unchanged; other_groups_invariant / own_group_only_own_terms / excluded_unit_local prove that only the unit's own "
        "groups move, by its own terms; historical_hidden proves the masking (definition regenerated from _format_historical_current_data). "
        "Pair runs (3 estimators; partial / zero-percent / blocklisted by unit, state or both / zero-baseline / unexpected; counts 0 ... huge) "
        "compare all other rows bit-for-bit and the recorded arguments of every QuantileRegressionSolver / OLSRegressionSolver call; "
        "gaussian aggregate pairs at stage level; HistoricalModelClient driven offline; default outlier models on a dedicated stream.",
        "Trusted: the numerical core as an oracle (its argument independence is what the recordings test); extrapolation and "
        "correct_from_presidential off.",
        "DESIGN.md section 5 C10",
    ),
    "C12": (
        "Lean 4 theorems about the generator / client-state discipline and the set-iteration independence of the aggregate list + bridge lemmas to the randomness sources re-read from source (all seeded, none at module level) + call histories across clients, processes and hash seeds compared bit-for-bit",
        "estimate_history_independent / estimate_resets_client / natsum_idempotent / natsum_depends_on_last_estimate_only / drawN_seed_only / "
        "sort_perm_invariant are proved of the model (fresh generators per run, summary reads only, de-duplicate-then-sort). bridge_all_seeded "
        "is re-checked against a scan of every random call site reachable from get_estimates on each run. Histories of estimate / summary "
        "calls with repeated arguments run on one client, on fresh clients and in fresh processes under several PYTHONHASHSEED values; all "
        "digests for equal arguments must agree; the summary asked repeatedly on near-tied contests must not move. A static scan "
        "(bridge_no_uninitialised_memory) and a stage that hands out np.empty buffers with two different contents cover dependence on "
        "uninitialised memory.",
        "Partial: hash seeds, process freshness and BLAS threading are runtime behaviour (exhibited by subprocess runs, not proved).",
        "DESIGN.md section 5 C12",
    ),
}

PENDING_REASON = "check not built yet in this session (model and correspondence in progress); not claimed until it is"


def main():
    props = [json.loads(l) for l in (VERIF / "properties.jsonl").read_text().splitlines() if l.strip()]
    checks = []
    na = []
    for p in props:
        pid = p["id"]
        if pid in CLAIMED:
            tech, text, note, ref = CLAIMED[pid]
            checks.append(
                {
                    "property_id": pid,
                    "quick_cmd": f"./check {pid} --tier quick",
                    "thorough_cmd": f"./check {pid} --tier thorough",
                    "evidence_file": f"/verif/evidence/{pid}.json",
                    "replay_cmd_template": f"./check {pid} --replay {{path}}",
                    "engine": "lean4-model+correspondence",
                    "level_claimed": {"category": "proof", "text": text, "design_ref": ref},
                    "level_note": note,
                    "technique": tech,
                }
            )
        else:
            na.append({"property_id": pid, "reason": NA.get(pid, PENDING_REASON)})
    man = {
        "version": 1,
        "setup_cmd": "/venv/bin/python -m harness.extract && cd lean && lake build",
        "hooks": {
            "guard": "ELEX_LIVE_MODEL_VERIF",
            "enable": "no source hooks are needed: the harness wraps library entry points in-process; checks export ELEX_LIVE_MODEL_VERIF=1 for symmetry",
            "baseline_off_cmd": "cd /repo && /venv/bin/python -m pytest -ra -q -p no:cacheprovider --timeout=900 --continue-on-collection-errors",
            "source_commits": [],
            "add_only": True,
        },
        "engines": [
            {
                "name": "lean4-model+correspondence",
                "path": "/verif/lean",
                "serves_properties": sorted(CLAIMED),
                "kind_free_text": "Lean 4.33 model (lean/ElexModel/Core), property theorems (lean/ElexModel/Props), translator "
                "(harness/extract.py -> lean/ElexModel/Gen), JSON-lines driver (lean/Main), python correspondence harness (harness/)",
            }
        ],
        "checks": checks,
        "not_applicable": na,
        "notes": "Every check: regenerate Gen from /repo/src, lake build the property's theorems, audit axioms, run corpus + "
        "generated cases through the real code and the Lean model, evaluate the property on the real outputs. "
        "Exit 0 / 1 (VIOLATION line) / 2 (the check itself failed; never a verdict). known_findings.json lists recorded defects.",
    }
    (VERIF / "MANIFEST.json").write_text(json.dumps(man, indent=1) + "\n")
    print(f"claimed {len(checks)}, not claimed {len(na)}")


NA = {}

if __name__ == "__main__":
    main()
