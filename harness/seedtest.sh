#!/bin/bash
# usage: seedtest.sh <patch> <prop> [tier]  -- apply a seeded change to /repo, run one check, undo
cd /repo && git apply "$1" || exit 3
cd /verif && ./check "$2" --tier "${3:-quick}" 2>&1 | tail -3 | cut -c1-260
git -C /repo checkout -- .
cd /verif && /venv/bin/python -m harness.extract >/dev/null 2>&1
