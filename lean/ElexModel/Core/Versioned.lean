import ElexModel.Core.Num
/-
Model of `VersionedDataHandler.compute_versioned_margin_estimate`, per unit (property C17).
A history is the list of result versions of one unit in order of modification time.
-/
namespace ElexModel.Versioned
open ElexModel

structure V where
  dem : Rat
  gop : Rat
  weights : Rat    -- results_weights (two-party votes)
  turnout : Rat    -- results_turnout
  pev : Rat        -- percent_expected_vote as recorded
  nm : Rat         -- results_normalized_margin
  deriving Repr

inductive Err where
  | nonMonotone | batchMargin
  deriving Repr, DecidableEq

structure Row where
  perc : Nat
  nearest : Rat
  est : Rat
  corr : Rat
  deriving Repr

def lastD (l : List V) : V := l.getLastD ⟨0, 0, 0, 0, 0, 0⟩

/-- re-scaled percent of every version: `turnout_i / turnout_last * pev_last`, `0` if the last turnout is `0` -/
def percents (vs : List V) : List Rat :=
  let tl := (lastD vs).turnout
  let pl := (lastD vs).pev
  vs.map (fun v => divz v.turnout tl * pl)

/-- `np.all(np.diff(x) >= 0)` -/
def monotone : List Rat → Bool
  | [] => true
  | [_] => true
  | a :: b :: t => decide (a ≤ b) && monotone (b :: t)

/-- the monotonicity test runs on the turnout itself (`np.all(np.diff(results_turnout) >= 0)`) -/
def corrs (vs : List V) : List Rat := vs.map (fun v => v.turnout)

/-- batch margin between consecutive versions; `none` = ±inf (votes moved between the parties with no new
    two-party votes); `0/0 ↦ 0`; the last version has batch margin `0` (`append=last`) -/
def batches : List V → List (Option Rat)
  | [] => []
  | [_] => [some 0]
  | a :: b :: t =>
    let dw := b.weights - a.weights
    let dm := (b.dem - a.dem) - (b.gop - a.gop)
    (if dw = 0 then (if dm = 0 then some 0 else none) else some (dm / dw)) :: batches (b :: t)

def batchOk : List (Option Rat) → Bool
  | [] => true
  | none :: _ => false
  | some b :: t => decide (-1 ≤ b) && decide (b ≤ 1) && batchOk t

/-- `np.searchsorted(p, perc, side="right") - 1` for a sorted `p`: number of versions with `p_i ≤ perc`, minus one
    (as a natural number: `count`, with `0` meaning index `-1`) -/
def countLe (p : List Rat) (perc : Rat) : Nat := (p.filter (fun x => decide (x ≤ perc))).length

def nthR (l : List Rat) (i : Nat) : Rat := l.getD i 0

/-- estimate at one whole percent -/
def estAt (p nm b : List Rat) (perc : Nat) : Rat :=
  let c := countLe p perc
  let ov := if c = 0 then 0 else nthR p (c - 1)
  let onm := if c = 0 then nthR nm 0 else nthR nm (c - 1)
  let obm := if c = 0 then nthR nm 0 else nthR b (c - 1)
  if perc = 0 then 0 else (onm * ov + obm * ((perc : Rat) - ov)) / (perc : Rat)

def nearestAt (p : List Rat) (perc : Nat) : Rat := nthR p (min (countLe p perc) (p.length - 1))

def maxR : List Rat → Rat
  | [] => 0
  | [a] => a
  | a :: t => rmax a (maxR t)

/-- the frame of one unit: an error, or one row per whole percent `0 … ⌊max p⌋` -/
def compute (vs : List V) : Except Err (List Row) :=
  if !monotone (corrs vs) then .error .nonMonotone
  else if !batchOk (batches vs) then .error .batchMargin
  else
    let p := percents vs
    let nm := vs.map (·.nm)
    let b := (batches vs).map (fun x => x.getD 0)
    let maxPerc := (maxR p).floor.toNat
    .ok ((List.range (maxPerc + 1)).map fun perc =>
      let e := estAt p nm b perc
      ⟨perc, nearestAt p perc, e, (lastD vs).nm - e⟩)

end ElexModel.Versioned
