#!/bin/bash
# run every claimed check (quick) in parallel, 6 at a time; print the summary lines
cd "$(dirname "$0")/.."
props=$(python3 -c "import json;print(' '.join(c['property_id'] for c in json.load(open('MANIFEST.json'))['checks']))")
printf '%s\n' $props | xargs -P 6 -I{} sh -c './check {} --tier '"${1:-quick}"' > /tmp/runall_{}.log 2>&1; tail -1 /tmp/runall_{}.log | cut -c1-220; grep -h "^VIOLATION" /tmp/runall_{}.log | head -2'
