import ElexModel.Core.Retry
import ElexModel.Gen.C20
import Mathlib.Data.List.Basic
import Mathlib.Tactic.Linarith

/-!
# C20 — a failed or inaccurate quantile-regression solve is retried, not fatal

`fitModel` / `runFits` model `ConformalElectionModel.fit_model` and the sequence of fits of a run against a solver
oracle indexed by call number.  Quantifiers: every position of the failing solve, both failure kinds, every list of fits.
-/

namespace ElexModel.Retry

/-- **the retry uses the same quantile, weights, regularisation and intercept setting**: the second call equals the first
    except for `normalize` -/
theorem retry_same_args (solve : Solver) (n : ℕ) (a : Args) (h : retried (solve n { a with normalize := true }) = true) :
    (fitModel solve n a).2.1 = [{ a with normalize := true }, { a with normalize := false }] ∧
    (fitModel solve n a).1 = solve (n+1) { a with normalize := false } := by
  unfold fitModel
  cases hs : solve n { a with normalize := true } <;> simp_all [retried]

/-- a successful first attempt is not repeated -/
theorem no_retry_on_success (solve : Solver) (n : ℕ) (a : Args) (c : ℕ) (h : solve n { a with normalize := true } = .ok c) :
    fitModel solve n a = (.ok c, [{ a with normalize := true }], n + 1) := by
  unfold fitModel; simp [h]

/-- **an exception of another class is not retried** (the `except` clause names exactly the two kinds) -/
theorem other_errors_propagate (solve : Solver) (n : ℕ) (a : Args) (e : ℕ)
    (h : solve n { a with normalize := true } = .other e) :
    fitModel solve n a = (.other e, [{ a with normalize := true }], n + 1) := by
  unfold fitModel; simp [h]

/-- a solver that fails with `f` at call number `k` and otherwise answers `g args` -/
def faulty (g : Args → ℕ) (k : ℕ) (f : Outcome) : Solver := fun i x => if i = k then f else .ok (g x)

def gT (g : Args → ℕ) (a : Args) : ℕ := g { a with normalize := true }
def gF (g : Args → ℕ) (a : Args) : ℕ := g { a with normalize := false }

theorem run_after_fault (g : Args → ℕ) (k : ℕ) (f : Outcome) (n : ℕ) (hn : k < n) (fits : List Args) :
    runFits (faulty g k f) n fits = .ok (fits.map (gT g)) := by
  induction fits generalizing n with
  | nil => rfl
  | cons a t ih =>
    unfold runFits
    have hs : faulty g k f n { a with normalize := true } = .ok (gT g a) := by
      unfold faulty gT; rw [if_neg (by omega)]
    rw [no_retry_on_success _ n a _ hs]
    simp only [ih (n+1) (by omega), List.map_cons]

/-- the coefficients of the run in which the fit at position `k` is answered by the un-normalised solve and every other
    fit by the normalised one (`n` = position of the first fit of the list) -/
def expected (g : Args → ℕ) : ℕ → ℕ → List Args → List ℕ
  | _, _, [] => []
  | n, k, a :: t => (if n = k then gF g a else gT g a) :: expected g (n+1) k t

theorem expected_after (g : Args → ℕ) (n k : ℕ) (h : k < n) (fits : List Args) : expected g n k fits = fits.map (gT g) := by
  induction fits generalizing n with
  | nil => rfl
  | cons a t ih =>
    simp only [expected, List.map_cons]
    rw [if_neg (by omega), ih (n+1) (by omega)]

/-- **the run completes, with the tables of the run in which fit `k`'s answer is the retry's answer and every other fit
    is untouched** — for every position `k` of the failing solve (also beyond the end: no fault) and both failure kinds -/
theorem retry_completes (g : Args → ℕ) (f : Outcome) (hf : retried f = true) (fits : List Args) (n k : ℕ) (hnk : n ≤ k) :
    runFits (faulty g k f) n fits = .ok (expected g n k fits) := by
  induction fits generalizing n with
  | nil => rfl
  | cons a t ih =>
    unfold runFits
    rcases Nat.lt_or_eq_of_le hnk with hlt | heq
    · -- the fault is later: this fit succeeds at its first attempt
      have hs : faulty g k f n { a with normalize := true } = .ok (gT g a) := by
        unfold faulty gT; rw [if_neg (by omega)]
      rw [no_retry_on_success _ n a _ hs]
      simp only [ih (n+1) (by omega), expected]
      rw [if_neg (by omega)]
    · -- this fit's first attempt is the failing solve
      subst heq
      have hs : faulty g n f n { a with normalize := true } = f := by unfold faulty; simp
      have h2 : faulty g n f (n+1) { a with normalize := false } = .ok (gF g a) := by
        unfold faulty gF; rw [if_neg (by omega)]
      have hfm : fitModel (faulty g n f) n a =
          (.ok (gF g a), [{ a with normalize := true }, { a with normalize := false }], n + 2) := by
        unfold fitModel
        simp only [hs]
        cases f <;> simp_all [retried]
      rw [hfm]
      simp only [run_after_fault g n f (n+2) (by omega) t, expected, if_true]
      rw [expected_after g (n+1) n (by omega) t]

/-- in the expected run exactly the fit at the failing position differs from the un-faulted run -/
theorem expected_no_fault (g : Args → ℕ) (n k : ℕ) (fits : List Args) (h : n + fits.length ≤ k) :
    expected g n k fits = fits.map (gT g) := by
  induction fits generalizing n with
  | nil => rfl
  | cons a t ih =>
    simp only [expected, List.map_cons]
    simp only [List.length_cons] at h
    rw [if_neg (by omega), ih (n+1) (by omega)]

/-- a failure of another class at any position ends the run with that error (it is not swallowed) -/
theorem other_failure_ends_run (g : Args → ℕ) (e : ℕ) (fits : List Args) (n k : ℕ) (hnk : n ≤ k) (hk : k - n < fits.length) :
    runFits (faulty g k (.other e)) n fits = .error (.other e) := by
  induction fits generalizing n with
  | nil => simp at hk
  | cons a t ih =>
    unfold runFits
    rcases Nat.lt_or_eq_of_le hnk with hlt | heq
    · have hs : faulty g k (.other e) n { a with normalize := true } = .ok (gT g a) := by
        unfold faulty gT; rw [if_neg (by omega)]
      rw [no_retry_on_success _ n a _ hs]
      have hk' : k - (n+1) < t.length := by simp at hk; omega
      simp only [ih (n+1) (by omega) hk']
    · subst heq
      have hs : faulty g n (.other e) n { a with normalize := true } = .other e := by unfold faulty; simp
      rw [other_errors_propagate _ n a e hs]

/-! ### bridge to `fit_model` as it is written on this run (regenerated from `/repo/src`) -/

/-- the retry call passes the same positional arguments and the same keyword arguments as the first call, plus
    `normalize_weights=False` — in particular the same `taus`, `weights`, `lambda_` and `fit_intercept` -/
theorem bridge_retry_args :
    Gen.C20.retry_args = Gen.C20.first_args ∧
    Gen.C20.retry_kw.filter (fun p => p.1 != "normalize_weights") = Gen.C20.first_kw ∧
    ("normalize_weights", "False") ∈ Gen.C20.retry_kw ∧
    (∀ k ∈ ["taus", "weights", "lambda_", "fit_intercept"], k ∈ Gen.C20.first_kw.map Prod.fst) := by
  decide

/-- exactly the solver error and the (promoted) inaccuracy warning are caught -/
theorem bridge_caught : Gen.C20.caught = ["UserWarning", "cvxpy.error.SolverError"] ∧
    Gen.C20.warning_filters = ["warnings.filterwarnings('error', category=UserWarning, module='cvxpy')"] := by
  decide

/-! ### non-vacuity: fault at the upper fit of the first level of a five-fit run -/
def exFits : List Args := [⟨1, 50, 0, true, true⟩, ⟨2, 15, 0, true, true⟩, ⟨2, 85, 0, true, true⟩,
  ⟨2, 5, 0, true, true⟩, ⟨2, 95, 0, true, true⟩]
def exG (a : Args) : ℕ := a.data * 1000 + a.tau * 2 + (if a.normalize then 1 else 0)

example : runFits (faulty exG 2 .inaccurate) 0 exFits = .ok [1101, 2031, 2170, 2011, 2191] := by decide
example : runFits (faulty exG 2 (.other 7)) 0 exFits = .error (.other 7) := by decide

end ElexModel.Retry
