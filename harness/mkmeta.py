"""write seeded/<id>/meta.json for the changes of one seeding round from the agent's notes, the confirmation line and the sweep logs

usage: python3 harness/mkmeta.py <round> <id regex> <first-pass log> [<first-pass log> ...] -- <final log>
prints the markdown table rows for DESIGN.md section 11"""
import json
import pathlib
import re
import sys

ROOT = pathlib.Path(__file__).resolve().parent.parent / "seeded"


def parse_log(path):
    out = {}
    for line in pathlib.Path(path).read_text().splitlines():
        m = re.match(r"^(C\d\d-\d+) (.*?) :: (.*)$", line)
        if m:
            out[m.group(1)] = (m.group(2), m.group(3))
        elif line.strip().endswith("apply-failed"):
            out[line.split()[0]] = ("apply-failed", "")
    return out


def section(notes, n):
    m = re.search(rf"^## Change {n}\b[^\n]*\n(.*?)(?=^## |\Z)", notes, re.S | re.M)
    return m.group(0) if m else ""


def field(sec, names):
    for nm in names:
        m = re.search(rf"^\*+\s*\**{nm}[^:]*:\**\s*(.*?)(?=^\*+\s|\Z)", sec, re.S | re.M | re.I)
        if m:
            return " ".join(m.group(1).split())[:700]
    return ""


def main():
    rnd, rx = int(sys.argv[1]), sys.argv[2]
    rest = sys.argv[3:]
    k = rest.index("--")
    first = {}
    for f in rest[:k]:
        first.update(parse_log(f))
    final = parse_log(rest[k + 1])
    rows = []
    for d in sorted(ROOT.iterdir()):
        if not d.is_dir() or not re.search(rx, d.name):
            continue
        cid, prop = d.name, d.name.split("-")[0]
        notes = (d / "agent_notes.md").read_text()
        conf = (d / "confirm.txt").read_text().strip() if (d / "confirm.txt").exists() else ""
        n = int(re.match(r"C\d\d/(\d)", conf).group(1)) if conf else 1
        sec = section(notes, n)
        title = re.sub(r"^## Change \d+\s*[-:]\s*", "", sec.splitlines()[0]).strip() if sec else cid
        files = sorted(set(re.findall(r"^\+\+\+ b/(\S+)", (d / "patch.diff").read_text(), re.M)))
        fp, fin = first.get(cid, ("not run", "")), final.get(cid, ("not run", ""))
        meta = {
            "id": cid, "property": prop, "round": rnd, "title": title, "files": files,
            "breaks": field(sec, ["Clause broken", "Clause"]) or "see agent_notes.md",
            "needs_to_manifest": field(sec, ["Needed to manifest", "Needed"]) or "see agent_notes.md",
            "confirmed_by_me": {
                "where": f"scratch worktree /tmp/seed{rnd}/{prop} (removed afterwards)",
                "ran": "demo.py on the clean worktree, then with the patch applied; the unedited test suite with the patch applied "
                       "(pytest, the two baseline failures deselected; re-run once when the flaky test failed)",
                "result": conf,
            },
            "first_pass": {"what": f"the check of this property as it was before round {rnd}", "verdict": fp[0], "summary": fp[1]},
            "detected_by": {"check": f"./check {prop} --tier quick", "how": "harness/psweep.sh (own worktree of /repo and copy of /verif per shard)",
                            "verdict": fin[0], "summary": fin[1]},
        }
        (d / "meta.json").write_text(json.dumps(meta, indent=1))

        def word(v):
            if "exit=0" in v:
                return "missed"
            if "no_failing_input=1" in v:
                return "no failing input"
            if "exit=1" in v:
                return "caught"
            return v
        mv = re.search(r"diffs (\d+), violations (\d+)", fin[1])
        now = f"{mv.group(2)} monitor violations, {mv.group(1)} model diffs" if mv else fin[0]
        rows.append(f"| {cid} | {title} | first pass: {word(fp[0])}; now `./check {prop}`: {word(fin[0])}, {now} |")
    print("\n".join(rows))


if __name__ == "__main__":
    main()
