import ElexModel.Driver.Util
import ElexModel.Core.Gauss
import ElexModel.Core.MathUtils

open Lean ElexModel.Driver

namespace ElexModel.Driver.Gauss
open ElexModel ElexModel.Gauss

def keyOfJson (j : Json) : Except String Key := listOf natOfJson j
def keyToJson (k : Key) : Json := listToJson natToJson k

def run (op : String) (j : Json) : Except String Json := do
  match op with
  | "gauss.assign" =>
    let conf ← listOf keyOfJson (← field j "conf")
    let groups ← listOf keyOfJson (← field j "groups")
    let bounds ← listOf keyOfJson (← field j "bounds")
    let L ← natOfJson (← field j "L")
    let rows := fitRows conf groups L
    pure (Json.mkObj [
      ("rows", listToJson keyToJson rows),
      ("thr", natToJson (thr conf)),
      ("assign", listToJson (fun g => optToJson keyToJson (assign rows L g)) bounds),
      ("source", listToJson (fun g => keyToJson (source conf L g)) bounds)])
  | "gauss.wmedian" =>
    let xw ← listOf (fun p => do
      match ← arrOfJson p with
      | [a, b] => pure ((← ratOfJson a), (← ratOfJson b))
      | _ => throw "pair") (← field j "xw")
    pure (Json.mkObj [("wmedian", optToJson ratToJson (MathUtils.wmedian xw)),
      ("inflate", ratToJson (MathUtils.inflate (xw.map Prod.snd)))])
  | _ => throw s!"unknown op {op}"

end ElexModel.Driver.Gauss
