import ElexModel.Core.S3
import ElexModel.Gen.C19
import Mathlib.Data.Rat.Defs
import Mathlib.Tactic.Linarith

/-!
# C19 — version retrieval returns exactly the requested window despite paging and faults

Theorems about `ElexModel.S3` (the model of `S3VersionUtil.list_versions` / `get`).
Quantifiers: every newest-first history, every page size `k+1 ≥ 1`, every window
(either end open), every sampling step, every set of failing downloads.
-/

namespace ElexModel.S3

/-- newest first: modification times are non-increasing -/
def Desc : List Ver → Prop
  | [] => True
  | [_] => True
  | a :: b :: t => b.ts ≤ a.ts ∧ Desc (b :: t)

theorem filter_inWin (s e) (l : List Ver) :
    (l.filter (geS s)).filter (leE e) = l.filter (inWin s e) := by
  rw [List.filter_filter]; congr 1; funext a; simp [inWin, Bool.and_comm]

theorem desc_tail {a : Ver} {t : List Ver} (h : Desc (a :: t)) : Desc t := by
  cases t with
  | nil => trivial
  | cons b t => exact h.2

theorem desc_all_le {a : Ver} {t : List Ver} (h : Desc (a :: t)) : ∀ x ∈ t, x.ts ≤ a.ts := by
  induction t generalizing a with
  | nil => intro x hx; cases hx
  | cons b t ih =>
    intro x hx
    have hb : b.ts ≤ a.ts := h.1
    cases hx with
    | head => exact hb
    | tail _ hx' => exact Int.le_trans (ih h.2 x hx') hb

theorem desc_drop (n : Nat) {l : List Ver} (h : Desc l) : Desc (l.drop n) := by
  induction n generalizing l with
  | zero => simpa
  | succ n ih =>
    cases l with
    | nil => simp [Desc]
    | cons a t => simpa using ih (desc_tail h)

/-- everything in `drop n l` is not newer than the last element of `take n l` -/
theorem drop_le_last_take (n : Nat) {l : List Ver} (h : Desc l) (x last : Ver)
    (hl : (l.take n).getLast? = some last) (hx : x ∈ l.drop n) : x.ts ≤ last.ts := by
  induction n generalizing l with
  | zero => simp at hl
  | succ n ih =>
    cases l with
    | nil => simp at hx
    | cons a t =>
      simp only [List.take_succ_cons, List.drop_succ_cons] at hl hx
      by_cases ht : t.take n = []
      · rw [ht] at hl; simp at hl; subst hl
        have : x ∈ t := List.mem_of_mem_drop hx
        exact desc_all_le h x this
      · have : (a :: t.take n).getLast? = (t.take n).getLast? := by
          cases hh : t.take n with
          | nil => exact absurd hh ht
          | cons b r => simp [List.getLast?_cons_cons]
        rw [this] at hl
        exact ih (desc_tail h) hl hx

/-- **C19 (listing).** For every newest-first history, every page size and every window the
    paged listing with early stop equals the window filter of the history: same order, each
    version once, nothing outside the window. -/
theorem list_exact (k : Nat) (s e : Option Int) (fuel : Nat) (vs : List Ver) (hd : Desc vs)
    (hf : vs.length ≤ fuel * (k+1)) : listVersions k s e fuel vs = vs.filter (inWin s e) := by
  induction fuel generalizing vs with
  | zero =>
    have : vs = [] := by simpa using hf
    subst this; simp [listVersions]
  | succ fuel ih =>
    unfold listVersions
    simp only []
    rw [filter_inWin]
    have hrem : (vs.drop (k+1)).length ≤ fuel * (k+1) := by
      simp [List.length_drop]; rw [Nat.succ_mul] at hf; omega
    have ihr := ih (vs.drop (k+1)) (desc_drop _ hd) hrem
    by_cases hc : cont s (vs.take (k+1)) (vs.drop (k+1)) = true
    · rw [if_pos hc, ihr, List.filter_append]
      conv => rhs; rw [← List.take_append_drop (k+1) vs, List.filter_append]
      congr 1
      rw [List.filter_filter]
      apply List.filter_congr
      intro x _; simp
    · rw [if_neg hc]
      conv => rhs; rw [← List.take_append_drop (k+1) vs, List.filter_append]
      suffices h : (vs.drop (k+1)).filter (inWin s e) = [] by simp [h]
      rw [List.filter_eq_nil_iff]
      intro x hx
      have hne : (vs.drop (k+1)).isEmpty = false := by
        cases hh : vs.drop (k+1) with
        | nil => rw [hh] at hx; cases hx
        | cons a t => rfl
      have hpage : (vs.take (k+1)).isEmpty = false := by
        cases vs with
        | nil => simp at hx
        | cons a t => simp
      cases hl : (vs.take (k+1)).getLast? with
      | none =>
        have : vs.take (k+1) = [] := by simpa [List.getLast?_eq_none_iff] using hl
        simp [this] at hpage
      | some last =>
        have hxl := drop_le_last_take (k+1) hd x last hl hx
        simp only [cont, hne, hpage, hl, Bool.not_false, Bool.true_and] at hc
        cases s with
        | none => simp [geS] at hc
        | some s0 =>
          simp [geS] at hc
          simp [inWin, geS]; intro h; omega

/-- the fuel the driver and `get` use (one request per stored version) is always enough -/
theorem list_exact_len (k : Nat) (s e : Option Int) (vs : List Ver) (hd : Desc vs) :
    listVersions k s e vs.length vs = vs.filter (inWin s e) :=
  list_exact k s e vs.length vs hd (by
    have : vs.length * 1 ≤ vs.length * (k+1) := Nat.mul_le_mul_left _ (by omega)
    omega)

/-- the listing does not depend on the page size -/
theorem list_page_independent (k k' : Nat) (s e : Option Int) (vs : List Ver) (hd : Desc vs) :
    listVersions k s e vs.length vs = listVersions k' s e vs.length vs := by
  rw [list_exact_len k s e vs hd, list_exact_len k' s e vs hd]

/-- each version is listed at most once when the stored versions are distinct -/
theorem list_nodup (k : Nat) (s e : Option Int) (vs : List Ver) (hd : Desc vs) (hn : vs.Nodup) :
    (listVersions k s e vs.length vs).Nodup := by
  rw [list_exact_len k s e vs hd]; exact hn.filter _

/-- a version is listed iff it is stored and inside the window -/
theorem mem_list_iff (k : Nat) (s e : Option Int) (vs : List Ver) (hd : Desc vs) (v : Ver) :
    v ∈ listVersions k s e vs.length vs ↔ v ∈ vs ∧ inWin s e v = true := by
  rw [list_exact_len k s e vs hd, List.mem_filter]

/-! ### sampling -/

/-- `everyNthAux s c l` is the list of elements of `l` at positions `c, c+(s+1), c+2(s+1), …` -/
theorem everyNthAux_getElem? (s : Nat) (l : List α) (c i : Nat) :
    (everyNthAux s c l)[i]? = l[c + i * (s+1)]? := by
  induction l generalizing c i with
  | nil => simp [everyNthAux]
  | cons x xs ih =>
    cases c with
    | zero =>
      cases i with
      | zero => simp [everyNthAux]
      | succ i =>
        simp only [everyNthAux, List.getElem?_cons_succ]
        rw [ih s i]
        have : 0 + (i + 1) * (s + 1) = (s + i * (s + 1)) + 1 := by
          rw [Nat.succ_mul]; omega
        rw [this, List.getElem?_cons_succ]
    | succ c =>
      simp only [everyNthAux]
      rw [ih c i]
      have : c + 1 + i * (s + 1) = (c + i * (s + 1)) + 1 := by omega
      rw [this, List.getElem?_cons_succ]

/-- **C19 (sampling).** `versions[::sample]`: the `i`-th downloaded version is the listed version
    at position `i * sample`. -/
theorem everyNth_getElem? (s : Nat) (l : List α) (i : Nat) :
    (everyNth s l)[i]? = l[i * (s+1)]? := by
  simpa [everyNth] using everyNthAux_getElem? s l 0 i

theorem everyNthAux_sublist (s : Nat) (l : List α) (c : Nat) : (everyNthAux s c l).Sublist l := by
  induction l generalizing c with
  | nil => simp [everyNthAux]
  | cons x xs ih =>
    cases c with
    | zero => simp only [everyNthAux]; exact List.Sublist.cons_cons x (ih s)
    | succ c => simp only [everyNthAux]; exact List.Sublist.cons x (ih c)

theorem everyNth_sublist (s : Nat) (l : List α) : (everyNth s l).Sublist l :=
  everyNthAux_sublist s l 0

theorem everyNth_zero (l : List α) : everyNth 0 l = l := by
  unfold everyNth
  induction l with
  | nil => rfl
  | cons x xs ih => simp [everyNthAux, ih]

/-! ### retrieval -/

/-- **C19 (no data).** With no version in the window the caller receives "no data". -/
theorem get_none_when_empty (k : Nat) (s e : Option Int) (sample : Nat) (failing : List Nat)
    (hist : List Ver) (hd : Desc hist) (h : ∀ v ∈ hist, inWin s e v = false) :
    get k s e sample failing hist = none := by
  unfold get
  rw [list_exact_len k s e hist hd]
  have : hist.filter (inWin s e) = [] := by
    rw [List.filter_eq_nil_iff]; intro v hv; simp [h v hv]
  simp [this]

/-- **C19 (retrieval).** Otherwise the result is, in listing order, every `sample`-th version of the
    window filter whose download did not fail — whatever the page size. -/
theorem get_skips_failures (k : Nat) (s e : Option Int) (sample : Nat) (failing : List Nat)
    (hist : List Ver) (hd : Desc hist) (h : ∃ v ∈ hist, inWin s e v = true) :
    get k s e sample failing hist =
      some ((everyNth sample (hist.filter (inWin s e))).filter (fun v => !failing.contains v.id)) := by
  unfold get
  rw [list_exact_len k s e hist hd]
  obtain ⟨v, hv, hw⟩ := h
  have : (hist.filter (inWin s e)).isEmpty = false := by
    cases hh : hist.filter (inWin s e) with
    | nil =>
      have : v ∈ hist.filter (inWin s e) := List.mem_filter.mpr ⟨hv, hw⟩
      rw [hh] at this; cases this
    | cons a t => rfl
  simp [this]

/-- a failing download never removes another version: the result with failures is the result
    without failures, minus the failing ids -/
theorem get_failure_local (k : Nat) (s e : Option Int) (sample : Nat) (failing : List Nat)
    (hist : List Ver) (hd : Desc hist) (h : ∃ v ∈ hist, inWin s e v = true) :
    get k s e sample failing hist =
      (get k s e sample [] hist).map (fun l => l.filter (fun v => !failing.contains v.id)) := by
  rw [get_skips_failures k s e sample failing hist hd h, get_skips_failures k s e sample [] hist hd h]
  simp

/-- every returned version was stored, is inside the window and did not fail -/
theorem get_sound (k : Nat) (s e : Option Int) (sample : Nat) (failing : List Nat)
    (hist : List Ver) (hd : Desc hist) (l : List Ver) (h : get k s e sample failing hist = some l) :
    ∀ v ∈ l, v ∈ hist ∧ inWin s e v = true ∧ failing.contains v.id = false := by
  unfold get at h
  rw [list_exact_len k s e hist hd] at h
  simp only [] at h
  split at h
  · cases h
  · injection h with h
    subst h
    intro v hv
    rw [List.mem_filter] at hv
    have hsub := (everyNth_sublist sample (hist.filter (inWin s e))).subset hv.1
    rw [List.mem_filter] at hsub
    exact ⟨hsub.1, hsub.2, by simpa using hv.2⟩

/-! ### non-vacuity: a concrete history meeting the hypotheses, window cutting a page -/

def exHist : List Ver := [⟨10,0⟩, ⟨9,1⟩, ⟨9,2⟩, ⟨7,3⟩, ⟨5,4⟩, ⟨4,5⟩, ⟨3,6⟩, ⟨2,7⟩, ⟨1,8⟩]

example : Desc exHist := by simp [exHist, Desc]
example : listVersions 1 (some 3) (some 9) exHist.length exHist
    = [⟨9,1⟩, ⟨9,2⟩, ⟨7,3⟩, ⟨5,4⟩, ⟨4,5⟩, ⟨3,6⟩] := by decide
example : get 2 (some 3) (some 9) 1 [3] exHist = some [⟨9,1⟩, ⟨4,5⟩] := by decide
example : get 2 (some 11) none 0 [] exHist = none := by decide

end ElexModel.S3

/-! ### bridge: `S3VersionUtil` as it is in `/repo/src` on this run -/

namespace ElexModel.S3

theorem bridge_filters (s e : ℤ) (v : Ver) :
    geS (some s) v = Gen.C19.keep_after_start v.ts s ∧ leE (some e) v = Gen.C19.keep_before_end v.ts e := by
  unfold geS leE Gen.C19.keep_after_start Gen.C19.keep_before_end
  constructor
  · by_cases h : s ≤ v.ts
    · have : ((v.ts : ℚ) ≥ (s : ℚ)) := by exact_mod_cast h
      simp [h, this]
    · have : ¬ ((v.ts : ℚ) ≥ (s : ℚ)) := by intro h'; exact h (by exact_mod_cast h')
      simp [h, this]
  · by_cases h : v.ts ≤ e
    · have : ((v.ts : ℚ) ≤ (e : ℚ)) := by exact_mod_cast h
      simp [h, this]
    · have : ¬ ((v.ts : ℚ) ≤ (e : ℚ)) := by intro h'; exact h (by exact_mod_cast h')
      simp [h, this]

/-- the paging decision of the source (`IsTruncated and len(versions) > 0 and (start is None or last >= start)`) is `cont` -/
theorem bridge_cont (s : Option ℤ) (page rem : List Ver) (l : Ver) (hl : page.getLast? = some l) :
    cont s page rem = Gen.C19.continue_cond (!rem.isEmpty) (page.length : ℚ) s.isNone l.ts (s.getD 0) := by
  have hne : page ≠ [] := by intro h; simp [h] at hl
  have hlen : (0 : ℚ) < (page.length : ℚ) := by
    have : 0 < page.length := List.length_pos_iff.mpr hne
    exact_mod_cast this
  unfold cont Gen.C19.continue_cond
  rw [hl]
  have hpe : page.isEmpty = false := by simpa using hne
  cases s with
  | none => simp [geS, hpe, hlen]
  | some s =>
    have := (bridge_filters s 0 l).1
    simp only [Option.isNone_some, Option.getD_some, Bool.false_or, hpe, Bool.not_false, Bool.and_true]
    rw [this]
    unfold Gen.C19.keep_after_start
    simp [hlen]

theorem bridge_cont_empty (s : Option ℤ) (rem : List Ver) : cont s [] rem = false := by simp [cont]

/-- recursion markers, filters at every level, sampling slice, empty listing, FIFO queue, a failed download is swallowed -/
theorem bridge_shape :
    Gen.C19.recursive_call = ["path", "KeyMarker=response['NextKeyMarker']", "VersionIdMarker=response['NextVersionIdMarker']"] ∧
    Gen.C19.recursive_combination = ["versions += self.list_versions(path, KeyMarker=response['NextKeyMarker'], VersionIdMarker=response['NextVersionIdMarker'])"] ∧
    Gen.C19.filter_statements = ["versions = list(filter(lambda v: v['LastModified'] >= self.start_date, versions))", "versions = list(filter(lambda v: v['LastModified'] <= self.end_date, versions))"] ∧
    Gen.C19.list_statements = ["response = self.s3_client.list_object_versions(Bucket=self.bucket_name, Prefix=path, **kwargs)", "versions = []", "if 'Versions' in response:     versions = response['Versions']", "return versions"] ∧
    Gen.C19.sampling = ["versions[::sample]", "self.wait_for_versions(q)"] ∧
    Gen.C19.empty_listing = ["len(versions) == 0 -> return None"] ∧
    Gen.C19.queue_put = ["q.put(self.make_request(path, version=version), block=False)"] ∧
    Gen.C19.wait_try = ["future.result()", "yield (version, data)"] ∧
    Gen.C19.wait_except = ["Exception", "swallows"] ∧
    Gen.C19.wait_loop = ["not q.empty()", "version, data, future = q.get()", "q.task_done()"] :=
  ⟨rfl, rfl, rfl, rfl, rfl, rfl, rfl, rfl, rfl, rfl⟩

end ElexModel.S3

/-! ### the listing with the source's own decisions

`listVersionsSrc` is the recursion skeleton of `list_versions` (take a page, recurse on the marker, filter at every level) with its three
decision points — whether to ask for the next page, the start filter, the end filter — taken from the regenerated source terms. It is
proved equal to the model `listVersions`, so the window theorem holds for it. -/

namespace ElexModel.S3

def contSrc (s : Option ℤ) (page rem : List Ver) : Bool :=
  match page.getLast? with
  | some l => Gen.C19.continue_cond (!rem.isEmpty) (page.length : ℚ) s.isNone l.ts (s.getD 0)
  | none => false   -- `len(versions) > 0` fails on an empty page

/-- `if self.start_date is not None: filter(v.LastModified >= start)` -/
def keepStartSrc (s : Option ℤ) (v : Ver) : Bool :=
  match s with
  | some s => Gen.C19.keep_after_start v.ts s
  | none => true

/-- `if self.end_date is not None: filter(v.LastModified <= end)` -/
def keepEndSrc (e : Option ℤ) (v : Ver) : Bool :=
  match e with
  | some e => Gen.C19.keep_before_end v.ts e
  | none => true

def listVersionsSrc (k : ℕ) (s e : Option ℤ) : ℕ → List Ver → List Ver
  | 0, _ => []
  | fuel+1, rest =>
    let page := rest.take (k+1)
    let rem := rest.drop (k+1)
    let vs := if contSrc s page rem then page ++ listVersionsSrc k s e fuel rem else page
    (vs.filter (keepStartSrc s)).filter (keepEndSrc e)

theorem contSrc_eq (s : Option ℤ) (page rem : List Ver) : contSrc s page rem = cont s page rem := by
  unfold contSrc
  cases h : page.getLast? with
  | none =>
    have : page = [] := by simpa using h
    subst this; simp [cont]
  | some l => exact (bridge_cont s page rem l h).symm

theorem keepStartSrc_eq (s : Option ℤ) : keepStartSrc s = geS s := by
  funext v; cases s with
  | none => rfl
  | some s => exact ((bridge_filters s 0 v).1).symm

theorem keepEndSrc_eq (e : Option ℤ) : keepEndSrc e = leE e := by
  funext v; cases e with
  | none => rfl
  | some e => exact ((bridge_filters 0 e v).2).symm

theorem listVersionsSrc_eq (k : ℕ) (s e : Option ℤ) (fuel : ℕ) (vs : List Ver) :
    listVersionsSrc k s e fuel vs = listVersions k s e fuel vs := by
  induction fuel generalizing vs with
  | zero => rfl
  | succ fuel ih =>
    unfold listVersionsSrc listVersions
    simp only [contSrc_eq, ih]
    rw [keepStartSrc_eq, keepEndSrc_eq]

/-- **C19 on the source**: with the paging decision and the two filters as they are written in `/repo/src` today, the listing is
    exactly the window, whatever the page size -/
theorem source_list_exact (k : ℕ) (s e : Option ℤ) (vs : List Ver) (hd : Desc vs) :
    listVersionsSrc k s e vs.length vs = vs.filter (inWin s e) := by
  rw [listVersionsSrc_eq]; exact list_exact_len k s e vs hd

end ElexModel.S3
