#!/bin/bash
# usage: confirm_seed.sh <prop> <first id number>   -- confirm the two changes of one seeding agent in its scratch worktree
# (/tmp/seed5/<prop>, results in /tmp/seed5/out/<prop>) and copy them to /verif/seeded/<prop>-<n>, <prop>-<n+1>
P=$1; N0=${2:-9}; WT=/tmp/seed5/$P; OUT=/tmp/seed5/out/$P
git -C $WT checkout -q -- . ; git -C $WT clean -fdq src
for n in 1 2; do
  [ -f $OUT/patch$n.diff ] || { echo "$P/$n no patch"; continue; }
  (cd $WT && PYTHONPATH=$WT/src timeout 300 /venv/bin/python $OUT/demo$n.py >/tmp/seed5/out/$P/clean$n.out 2>&1); c=$?
  git -C $WT apply $OUT/patch$n.diff || { echo "$P/$n apply-failed"; continue; }
  files=$(git -C $WT diff --name-only | tr '\n' ' ')
  (cd $WT && PYTHONPATH=$WT/src timeout 300 /venv/bin/python $OUT/demo$n.py >/tmp/seed5/out/$P/patched$n.out 2>&1); p=$?
  t=$(cd $WT && PYTHONPATH=$WT/src timeout 900 /venv/bin/python -m pytest -q -p no:cacheprovider --timeout=900 --deselect tests/handlers/test_live_data.py::test_sample_overweight --deselect tests/utils/test_file_utils.py::test_get_directory_path 2>&1 | tail -1)
  case "$t" in *failed*) t="$t || rerun: $(cd $WT && PYTHONPATH=$WT/src timeout 900 /venv/bin/python -m pytest -q -p no:cacheprovider --timeout=900 --deselect tests/handlers/test_live_data.py::test_sample_overweight --deselect tests/utils/test_file_utils.py::test_get_directory_path 2>&1 | tail -1)";; esac
  git -C $WT checkout -q -- . ; git -C $WT clean -fdq src
  line="$P/$n clean=$c patched=$p tests=[$t] files=[$files]"
  echo "$line"
  id=$P-$((N0 + n - 1)); d=/verif/seeded/$id
  mkdir -p $d; cp $OUT/patch$n.diff $d/patch.diff; cp $OUT/demo$n.py $d/demo.py; cp $OUT/agent_notes.md $d/agent_notes.md; echo "$line" > $d/confirm.txt
done
