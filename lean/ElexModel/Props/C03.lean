import ElexModel.Props.C02
import ElexModel.Gen.C03

/-!
# C03 — counted votes are a floor and reported units are final

Unit formulas of the conformal models (`unitPred`, `unitLower`, `unitUpper`), aggregate sums, the gaussian
aggregate bound.  `p`, bounds and corrections are arbitrary rationals (negative corrections included);
the partial count is a whole number.
-/

namespace ElexModel.Agg
open ElexModel ElexModel.Table

/-- flooring at the counted votes commutes with rounding, so the order of `np.maximum` and `round` is immaterial -/
theorem unitPred_eq (p w : ℚ) (r : ℤ) : unitPred p w r = max (rhe (p * w + w)) r := by
  unfold unitPred; rw [rmax_eq, rhe_max_int]

/-- **unit prediction ≥ counted votes**, whatever the regression predicts -/
theorem unit_floor_pred (p w : ℚ) (r : ℤ) : r ≤ unitPred p w r := by
  rw [unitPred_eq]; exact le_max_right _ _

/-- **unit bounds ≥ counted votes**, for every (possibly negative) conformal correction -/
theorem unit_floor_lower (l c w : ℚ) (r : ℤ) : r ≤ unitLower l c w r := by
  unfold unitLower; rw [rmax_eq, rhe_max_int]; exact le_max_right _ _

theorem unit_floor_upper (u c w : ℚ) (r : ℤ) : r ≤ unitUpper u c w r := by
  unfold unitUpper; rw [rmax_eq, rhe_max_int]; exact le_max_right _ _

/-- a reporting, unexpected or non-modelled unit carries its counted votes as prediction and both bounds -/
theorem final_rows (results : ℚ) :
    (finalRow results).1 = results ∧ (finalRow results).2.1 = results ∧ (finalRow results).2.2 = results :=
  ⟨rfl, rfl, rfl⟩

theorem sumAt_col_le (k : ℕ) (us : List U) (f g : U → ℚ) (h : ∀ u ∈ us, f u ≤ g u) :
    sumAt k (col f us) ≤ sumAt k (col g us) := by
  induction us with
  | nil => simp [col, sumAt]
  | cons u t ih =>
    have h0 := h u (List.mem_cons_self ..)
    have := ih (fun v hv => h v (List.mem_cons_of_mem _ hv))
    simp only [col, List.map_cons, sumAt] at this ⊢
    split <;> linarith

/-- **aggregate prediction ≥ aggregate counted votes** when every nonreporting unit satisfies the unit floor -/
theorem agg_floor_pred (cls : Bool) (rep nonrep unexp : List U) (hu : ∀ u ∈ nonrep, u.results ≤ u.pred)
    (row : AggRow) (h : row ∈ aggPred cls rep nonrep unexp) : row.results ≤ row.pred := by
  rw [agg_pred_is_sum cls rep nonrep unexp row h, (agg_counted_is_sum cls rep nonrep unexp row h).1, attributable_eq]
  have := sumAt_col_le row.key nonrep (·.results) (·.pred) hu
  linarith

/-- **nonparametric aggregate bounds ≥ aggregate counted votes** (after rounding) -/
theorem agg_floor_np (cls : Bool) (rep nonrep unexp : List U)
    (hl : ∀ u ∈ nonrep, u.results ≤ u.lower) (hh : ∀ u ∈ nonrep, u.results ≤ u.upper)
    (r : ℕ × ℤ × ℤ) (h : r ∈ aggIntervalNP cls rep nonrep unexp) :
    rhe (sumAt r.1 (col (·.results) (attributable cls rep nonrep unexp))) ≤ r.2.1 ∧
    rhe (sumAt r.1 (col (·.results) (attributable cls rep nonrep unexp))) ≤ r.2.2 := by
  obtain ⟨h1, h2⟩ := np_bounds_are_sums cls rep nonrep unexp r h
  rw [h1, h2, attributable_eq]
  have a := sumAt_col_le r.1 nonrep (·.results) (·.lower) hl
  have b := sumAt_col_le r.1 nonrep (·.results) (·.upper) hh
  exact ⟨rhe_mono (by linarith), rhe_mono (by linarith)⟩

/-- **gaussian aggregate bound ≥ counted votes**: the elementwise maximum with the partial counts of the group's
    nonreporting units, plus the counted votes of its reporting and unexpected units -/
theorem agg_floor_gauss (last b partialSum counted : ℚ) :
    rhe (partialSum + counted) ≤ gaussAgg last b partialSum counted := by
  unfold gaussAgg
  apply rhe_mono
  rw [rmax_eq]
  have := le_max_right (last + b) partialSum
  linarith

/-- whole-number inputs give whole-number outputs: rounding is the identity on them -/
theorem gauss_floor_int (last b : ℚ) (partialSum counted : ℤ) :
    partialSum + counted ≤ gaussAgg last b partialSum counted := by
  have := agg_floor_gauss last b partialSum counted
  have e : ((partialSum : ℚ) + (counted : ℚ)) = ((partialSum + counted : ℤ) : ℚ) := by push_cast; ring
  rw [e, rhe_int] at this
  exact this

/-- **a group with no nonreporting unit has a zero-width interval at exactly its counted votes**
    (in particular every group when 100% of the units report) -/
theorem no_nonreporting_zero_width (cls : Bool) (rep nonrep unexp : List U) (k : ℕ)
    (hk : ∀ u ∈ nonrep, u.key ≠ some k) :
    (∀ row ∈ aggPred cls rep nonrep unexp, row.key = k → row.pred = row.results) ∧
    (∀ r ∈ aggIntervalNP cls rep nonrep unexp, r.1 = k →
      r.2.1 = rhe (sumAt k (col (·.results) (counted cls rep unexp))) ∧ r.2.2 = r.2.1) := by
  have z : ∀ f : U → ℚ, sumAt k (col f nonrep) = 0 := by
    intro f
    apply sumAt_eq_zero_of_no_key
    intro r hr
    simp only [col, List.mem_map] at hr
    obtain ⟨u, hu, rfl⟩ := hr
    exact hk u hu
  constructor
  · intro row hrow hkey
    rw [agg_pred_is_sum cls rep nonrep unexp row hrow, (agg_counted_is_sum cls rep nonrep unexp row hrow).1,
      attributable_eq, hkey, z, z]
  · intro r hr hkey
    obtain ⟨h1, h2⟩ := np_bounds_are_sums cls rep nonrep unexp r hr
    rw [h1, h2, hkey, z, z]
    simp

/-! ### non-vacuity: a partial count above the modelled value, a negative correction -/
example : unitPred (-1/2) 100 80 = 80 ∧ unitPred (1/10) 100 80 = 110 := by decide +kernel
example : unitLower (-1/10) (-3/10) 100 50 = 120 ∧ unitLower (-1/10) (3/10) 100 70 = 70 := by decide +kernel
example : gaussAgg 100 (-80) 50 7 = 57 := by decide +kernel

end ElexModel.Agg

/-! ### bridge: the unit formulas as they are in `/repo/src` on this run (regenerated by the translator) -/

open ElexModel
namespace ElexModel.Agg

/-- `ConformalElectionModel.get_unit_predictions` (dataflow of the function body) is `unitPred` -/
theorem bridge_unit_pred (p w part : ℚ) : Gen.C03.unit_pred p w part = (unitPred p w part : ℚ) := rfl

/-- `NonparametricElectionModel.get_unit_prediction_intervals` is `unitLower / unitUpper` at the applied correction -/
theorem bridge_unit_bounds (l u w part npq pc : ℚ) (robust : Bool) :
    Gen.C03.final_lower l u w part robust npq pc = (unitLower l (if robust then rmax npq pc else pc) w part : ℚ) ∧
    Gen.C03.final_upper l u w part robust npq pc = (unitUpper u (if robust then rmax npq pc else pc) w part : ℚ) := ⟨rfl, rfl⟩

/-- … hence the source formulas keep the counted votes as a floor -/
theorem source_unit_floor (p l u w npq pc : ℚ) (robust : Bool) (r : ℤ) :
    (r : ℚ) ≤ Gen.C03.unit_pred p w r ∧ (r : ℚ) ≤ Gen.C03.final_lower l u w r robust npq pc ∧
    (r : ℚ) ≤ Gen.C03.final_upper l u w r robust npq pc := by
  rw [bridge_unit_pred, (bridge_unit_bounds l u w r npq pc robust).1, (bridge_unit_bounds l u w r npq pc robust).2]
  exact ⟨by exact_mod_cast unit_floor_pred p w r, by exact_mod_cast unit_floor_lower l _ w r,
    by exact_mod_cast unit_floor_upper u _ w r⟩

/-- gaussian aggregate bound as written in `GaussianElectionModel.get_aggregate_prediction_intervals`: un-residualise, floor at the
    partial counts of the group's nonreporting units, add the counted votes, round -/
theorem bridge_gauss_agg (last b part counted : ℚ) :
    gaussAgg last b part counted = rhe (Gen.C03.total_lower (Gen.C03.predicted_lower last b part) counted) ∧
    gaussAgg last b part counted = rhe (Gen.C03.total_upper (Gen.C03.predicted_upper last b part) counted) := ⟨rfl, rfl⟩

/-- the frame whose row order the floor terms are aligned with (`last_election` on the left of the inner merge), the outer merge
    with the counted frame, the fill, the sort -/
theorem bridge_gauss_chains :
    Gen.C03.unresidualize_chain = ["last_election", "merge(modeled_bounds, how='inner', on=aggregate)",
      "assign(predicted_lower, predicted_upper)", "drop(columns=f'last_election_results_{estimand}')"] ∧
    Gen.C03.total_chain = ["aggregate_votes", "merge(aggregate_prediction_intervals, how='outer', on=aggregate)",
      "fillna({f'results_{estimand}': 0, 'predicted_lower': 0, 'predicted_upper': 0})", "assign(lower, upper)",
      "sort_values(aggregate)", "[aggregate + ['lower', 'upper']]", "reset_index(drop=True)"] ∧
    Gen.C03.gauss_returned = ["PredictionIntervals(aggregate_data.lower.round(decimals=0), aggregate_data.upper.round(decimals=0))"] :=
  ⟨rfl, rfl, rfl⟩

/-- `ModelResultsHandler`: reporting and unexpected units get their counted votes as prediction and as both bounds (`finalRow`), nonreporting units the model's values; one unit table from the three frames; estimands joined on the key columns -/
theorem bridge_results_handler :
    Gen.C03.results_handler_columns = ["add_unit_predictions: self.reporting_units[f'pred_{estimand}'] = self.reporting_units[f'results_{estimand}']", "add_unit_predictions: self.nonreporting_units[f'pred_{estimand}'] = unit_predictions", "add_unit_predictions: self.unexpected_units[f'pred_{estimand}'] = self.unexpected_units[f'results_{estimand}']", "add_unit_turnout_predictions: self.reporting_units['pred_turnout'] = self.reporting_units['results_weights']", "add_unit_turnout_predictions: self.nonreporting_units['pred_turnout'] = unit_turnout_predictions", "add_unit_turnout_predictions: self.unexpected_units['pred_turnout'] = self.unexpected_units['results_weights']", "add_unit_intervals: self.reporting_units[lower_string] = self.reporting_units[f'results_{estimand}']", "add_unit_intervals: self.reporting_units[upper_string] = self.reporting_units[f'results_{estimand}']", "add_unit_intervals: self.nonreporting_units[lower_string] = prediction_intervals_unit[alpha].lower", "add_unit_intervals: self.nonreporting_units[upper_string] = prediction_intervals_unit[alpha].upper", "add_unit_intervals: self.unexpected_units[lower_string] = self.unexpected_units[f'results_{estimand}']", "add_unit_intervals: self.unexpected_units[upper_string] = self.unexpected_units[f'results_{estimand}']", "add_agg_predictions: estimates_df[f'lower_{alpha}_{estimand}'] = agg_interval_predictions[alpha][0]", "add_agg_predictions: estimates_df[f'upper_{alpha}_{estimand}'] = agg_interval_predictions[alpha][1]"] ∧
    Gen.C03.unit_table = ["pd.concat([self.reporting_units, self.nonreporting_units, self.unexpected_units]).sort_values('geographic_unit_fips')[['postal_code', 'geographic_unit_fips', f'pred_{estimand}', 'reporting', 'unit_category'] + interval_cols + [f'results_{estimand}'] + (['pred_turnout'] if estimand == 'margin' else [])]"] ∧
    Gen.C03.final_joins = ["merge_on = [col for col in AGGREGATE_ORDER if col in self.estimates[agg][0].columns] + ['reporting']", "agg_df = reduce(lambda x, y: pd.merge(x, y, how='inner', on=merge_on), self.estimates[agg])", "merge_on = ['postal_code', 'reporting', 'geographic_unit_fips', 'unit_category']", "reduce(lambda x, y: pd.merge(x, y, how='inner', on=merge_on), self.unit_data.values())"] :=
  ⟨rfl, rfl, rfl⟩

end ElexModel.Agg
