import ElexModel.Core.S3
import ElexModel.Props.C19
import ElexModel.Driver.Util
import ElexModel.Driver.C19
