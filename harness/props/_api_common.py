"""shared explore/replay for the API-level table properties (C01, C02, C03, C09)"""
from harness import apicheck as A
from harness import common as C

BUDGET = {"quick": 45, "thorough": 1500, "search": 200}


def explore(run, driver, budget, prop, rule, pi_cycle=("nonparametric", "gaussian", "bootstrap"), corpus=()):
    run.info["rule"] = rule
    n = BUDGET[budget]
    if budget != "search":
        for c in corpus:
            A.run_and_check(run, c(run.rng), driver, (prop,))
    for i in range(n):
        pi = pi_cycle[i % len(pi_cycle)]
        size = "small" if (budget == "quick" or run.rng.random() < 0.8) else "medium"
        case = A.gen_case(run.rng, pi_method=pi, size=size)
        A.run_and_check(run, case, driver, (prop,))


def replay(run, driver, payload, prop):
    rc = payload.get("replay_case")
    if rc is None:
        raise SystemExit("replay file has no case")
    case = A.case_from_json(rc)
    A.run_and_check(run, case, driver, (prop,))
