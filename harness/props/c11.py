"""C11 - an unexpected unit only adds its own votes.

Pair runs through ModelClient: an election E and E + 1..3 feed rows that are not in the baseline (known / unknown county, known /
unknown district, known / unknown state, any percent, any votes incl. 0), every aggregate list, three estimators.  Everything not
attributable to the new units must be bit-identical; attributable groups move by exactly the votes (count estimands) or by margin
and two-party votes in numerator and denominator (bootstrap); new groups appear; the run never fails.  Both runs also go through the
C01/C02 correspondence (split and aggregate tables against the Lean model).
"""
import copy
import math
from fractions import Fraction

import pandas as pd

from harness import apicheck as A
from harness import common as C
from harness import election as E
from harness import pairs as P

PROP = "C11"
MODULES = ["ElexModel.Props.C11"]
DRIVER_TARGETS = ["ElexModel.Driver.Units"]
TRUSTED = [
    "the numerical core is an oracle; 'unchanged' is observed bit-for-bit on one machine",
    "bootstrap: the per-draw clause is checked through the reported prediction / counted columns (numerator and denominator), "
    "the draws themselves are internal",
]
ASSUMPTIONS = [
    "the new unit's id is not in the baseline and not already in the feed",
    "none on the unit's state: an unexpected unit from a state without baseline units is covered (fix F-17, former KF-2)",
]
RULE = (
    "generated elections x 1-3 extra unexpected rows (kinds above) x aggregate lists x 3 estimators; every pair non-trivial; "
    "distinct = (election, estimator, aggregates, extra rows)"
)


# bootstrap: the extra row lengthens every matrix product over units, so BLAS may round the last bits differently; real-valued
# cells of the bootstrap tables are compared within 1e-9 (DESIGN 3.1) and the number of such cells is reported
RTOL = 1e-9


def add_rows(rng, e, kinds=None):
    e2 = copy.deepcopy(e)
    rows = e.pre.to_dict(orient="records")
    new = []
    for _ in range(rng.randint(1, 3)):
        kind = rng.choice(kinds or ["known-county", "unknown-county", "known-county", "unknown-state"])
        votes = rng.choice([(0, 0), (rng.randint(1, 900), rng.randint(0, 900)), (5, 5)])
        r = E.unexpected_row(rng, e2, rows, kind=kind, votes=votes)
        if r["geographic_unit_fips"] in set(e2.cur["geographic_unit_fips"]) | {x["geographic_unit_fips"] for x in new}:
            continue
        r["kind"] = kind
        new.append(r)
    e2.cur = pd.concat([e.cur, pd.DataFrame([{k: v for k, v in r.items() if k != "kind"} for r in new])], ignore_index=True)
    return e2, new


def model_reuse_stage(run, n, props=("C11",)):
    """the same model object polled twice (a long-running caller keeps the model between feeds): the second poll, whose feed has an
    extra unexpected unit, must give what a fresh model gives on that feed - nothing kept from the first poll may hide the unit"""
    C.use_repo()
    from elexmodel.handlers.data.CombinedData import CombinedDataHandler
    from elexmodel.handlers.data.PreprocessedData import PreprocessedDataHandler
    from elexmodel.models.GaussianElectionModel import GaussianElectionModel
    from elexmodel.models.NonparametricElectionModel import NonparametricElectionModel
    import numpy as np

    rng = run.rng
    est = "turnout"
    for k in range(n):
        M = [NonparametricElectionModel, GaussianElectionModel][k % 2]
        e = E.gen_election(rng, size="small", roles=["reporting"] * 6 + ["partial"] * 3 + ["zero-percent"], unexpected=True, min_reporting=12)
        e2, new = add_rows(rng, e, kinds=["known-county", "unknown-county"])
        new = [r for r in new if r["results_turnout"] > 0]
        if not new:
            continue
        levels = [["postal_code"], ["postal_code", "county_fips"]]

        def frames(el):
            pre = PreprocessedDataHandler(E.ELECTION_ID, el.office, el.unit_type, [est], {est: est}, data=el.pre.copy()).data
            data = CombinedDataHandler(pre, el.cur.copy(), [est], el.unit_type, handle_unreporting="drop")
            return data.get_units(el.threshold, 0.5, 2.0, [], [], False, False, 2.0, ["postal_code", "county_fips"])

        def poll(model, el):
            rep, nonrep, unexp = (f.copy() for f in frames(el))
            out = {}
            with np.errstate(all="ignore"):
                preds, _ = model.get_unit_predictions(rep, nonrep, est, unexpected_units=unexp)
                rep[f"pred_{est}"], nonrep[f"pred_{est}"], unexp[f"pred_{est}"] = rep[f"results_{est}"], preds, unexp[f"results_{est}"]
                pi = model.get_unit_prediction_intervals(rep, nonrep, 0.7, est)
                for fr, lo, hi in ((rep, rep[f"results_{est}"], rep[f"results_{est}"]), (nonrep, pi.lower, pi.upper),
                                   (unexp, unexp[f"results_{est}"], unexp[f"results_{est}"])):
                    fr[f"lower_0.7_{est}"], fr[f"upper_0.7_{est}"] = lo, hi
                for lv in levels:
                    df = model.get_aggregate_predictions(rep, nonrep, unexp, lv, est)
                    iv = model.get_aggregate_prediction_intervals(rep, nonrep, unexp, lv, 0.7, pi, est)
                    df = df.copy()
                    df["lower"], df["upper"] = np.asarray(iv.lower), np.asarray(iv.upper)
                    out["-".join(lv)] = df
                    # C02: prediction and both bounds of a group are the sums over its units (counted votes of reporting and
                    # unexpected units, unit predictions / bounds of the outstanding ones), taken from the frames of THIS poll
                    allu = pd.concat([rep, nonrep, unexp])
                    want = allu.groupby(lv)[[f"pred_{est}", f"lower_0.7_{est}", f"upper_0.7_{est}"]].sum().reset_index()
                    got = df.merge(want, on=lv, how="left")
                    for a, b in ((f"pred_{est}", f"pred_{est}_y" if f"pred_{est}_y" in got else f"pred_{est}"), ("lower", f"lower_0.7_{est}"),
                                 ("upper", f"upper_0.7_{est}")):
                        a2 = f"pred_{est}_x" if a == f"pred_{est}" and f"pred_{est}_x" in got else a
                        if a != f"pred_{est}" and not isinstance(model, NonparametricElectionModel):
                            continue  # the bounds are sums of unit bounds for the nonparametric estimator only
                        bad = got[(got[a2] - got[b]).abs() > 1e-6]
                        if len(bad) and "sum_mismatch" not in out:
                            out["sum_mismatch"] = {"level": lv, "column": a, "group": [str(x) for x in bad.iloc[0][lv]],
                                                   "reported": float(bad.iloc[0][a2]), "sum_of_units": float(bad.iloc[0][b])}
            return out

        case = {"model_reuse": M.__name__, "election": e.describe(), "extra_rows": new}
        run.case(case, True)
        run.count("model object polled twice")
        try:
            settings = {"save_conformalization": False}
            model = M(dict(settings))
            poll(model, e)
            second = poll(model, e2)
            fresh = poll(M(dict(settings)), e2)
        except Exception as ex:
            run.violation("polling a model object a second time failed: " + type(ex).__name__, input=case, impl=str(ex)[:200],
                          predicate="unexpected_adds_votes", signature="C11:reuse-raise", election=e2.to_json())
            continue
        mism = second.pop("sum_mismatch", None)
        fresh.pop("sum_mismatch", None)
        if "C02" in props:
            if mism:
                run.violation("second poll of one model object: an aggregate prediction / bound is not the sum over the units of that poll",
                              input=case, impl=mism, predicate="source_np_bounds_are_sums / source_pred_is_sum", signature="C02:reuse-sum",
                              election=e2.to_json())
            else:
                run.traces += 1
            continue
        d = P.diff_tables(fresh, second)
        if d:
            run.violation("the second poll of a model object does not show the unexpected unit's votes as a fresh model does "
                          "(something is kept from the first poll)", input=case, impl=[str(x) for x in d[0]],
                          predicate="unexpected_adds_votes / groups_after_unexpected", signature="C11:reuse", election=e2.to_json())
        else:
            run.traces += 1


def corpus(run, driver):
    """minimised past failures run first"""
    import json

    for f in sorted((C.VERIF / "harness" / "corpus").glob("c11_*.json")):
        d = json.loads(f.read_text())
        case, caseB = A.case_from_json(d["base_case"]), A.case_from_json(d["replay_case"])
        check_pair(run, driver, case, caseB, d["extra_rows"], case["pi_method"])
        run.count("corpus " + d["id"])


def explore(run, driver, budget):
    run.info["rule"] = RULE
    n = {"quick": 18, "thorough": 600, "search": 80}[budget]
    rng = run.rng
    P.NOISE["cells"] = 0
    corpus(run, driver)
    # dedicated requests: only the unit table asked for (the client still adds the office's default levels to the unit frames)
    dedicated = [("bootstrap", True, ["unit"]), ("nonparametric", True, ["unit"]), ("bootstrap", False, ["unit"]), ("gaussian", True, ["unit", "district"])]
    for i in range(n + len(dedicated)):
        if i < len(dedicated):
            pi, dist, aggs = dedicated[i]
            case = A.gen_case(rng, pi_method=pi, roles=[r for r in E.ROLES if r != "nan-estimand"], district=dist, aggregates=aggs)
        else:
            pi = ["nonparametric", "gaussian", "bootstrap"][i % 3]
            case = A.gen_case(rng, pi_method=pi, roles=[r for r in E.ROLES if r != "nan-estimand"])
        e = case["election"]
        if i >= len(dedicated) and pi == "bootstrap" and "county_fips" not in case["aggregates"] and e.unit_type != "county":
            case["aggregates"] = case["aggregates"] + ["county_fips"]
        # bootstrap: an unexpected unit from a state without baseline units changed every draw of the run until fix F-17 (former
        # known finding KF-2); unknown states are part of the normal stream and one pair per run is dedicated to them
        kinds = None
        if pi == "bootstrap" and i == len(dedicated) + 2:
            kinds = ["unknown-state"]
        e2, new = add_rows(rng, e, kinds=kinds)
        if not new:
            continue
        caseB = dict(case, election=e2)
        if i % 3 == 2 or rng.random() < 0.25:
            # the caller polls with one frame object: the new rows are appended to it, in place, after an earlier poll
            fh = dict(case.get("frame_history") or {"estimands": list(case["estimands"]), "scale": 1.0})
            fh["late_ids"] = [r["geographic_unit_fips"] for r in new]
            caseB["frame_history"] = fh
            run.count("new rows appended in place to a polled frame")
        check_pair(run, driver, case, caseB, new, pi)
    model_reuse_stage(run, {"quick": 4, "thorough": 200, "search": 30}[budget])
    run.info["bootstrap_cells_equal_within_1e-9_but_not_bitwise"] = P.NOISE["cells"]


def check_pair(run, driver, case, caseB, new, pi):
    e = case["election"]
    if True:
        recs = A.run_batch(run, [case, caseB], driver, (PROP,))
        ra, rb = recs[0]["res"], recs[1]["res"]
        L = A.light(case)
        L["extra_rows"] = new
        run.count("pairs " + pi)
        if "raises" in ra:
            return
        if "raises" in rb:
            run.violation("adding an unexpected unit makes the run fail: " + rb["raises"], input=L, impl=rb,
                          predicate="split_add_unexpected (never fails)", signature="C11:raise", replay_case=A.case_json(caseB))
            return
        ta, tb = ra["tables"], rb["tables"]
        new_ids = {r["geographic_unit_fips"] for r in new}
        kf2 = pi == "bootstrap" and any(r["postal_code"] not in set(e.pre["postal_code"]) for r in new)
        ests = case["estimands"]
        # which groups are attributable to the new units, per table
        base_geo, unexp_geo = A.unit_geo(caseB)
        bad = None
        for name in tb:
            if name == "unit_data":
                d = P.diff_tables(ta, tb, ignore_rows={name: lambda k: k[-1] in new_ids}, rtol=RTOL if pi == "bootstrap" else 0.0)
                d = [x for x in d if x[0] == name]
                if d:
                    bad = ("unit table: a row of another unit changed", d[0])
                    break
                ub = P.rows_by_key(tb[name])
                for r in new:
                    k = (r["postal_code"], r["geographic_unit_fips"])
                    row = ub.get(k)
                    if row is None or row.get("unit_category") != "unexpected":
                        bad = ("unit table: the new unit is not reported once as 'unexpected'", k)
                        break
                if bad:
                    break
                return
            level = [l for l, t in A.LABEL.items() if t == name][0]
            al = A.aggregate_list(case, level)
            cls = "county_classification" in al
            hit = {}
            if not cls:
                for r in new:
                    g = unexp_geo[r["geographic_unit_fips"]]
                    key = tuple(str(g.get(k)) for k in al)
                    if any(g.get(k) is None for k in al):
                        return
                    hit.setdefault(key, []).append(r)
            d = [x for x in P.diff_tables({name: ta[name]}, {name: tb[name]}, ignore_rows={name: lambda k: k in hit},
                                          rtol=RTOL if pi == "bootstrap" else 0.0)]
            if d:
                bad = (f"{name}: a group the new unit is not attributable to changed", d[0])
                break
            ra_, rb_ = P.rows_by_key(ta[name]), P.rows_by_key(tb[name])
            for key, rs in hit.items():
                if key not in rb_:
                    bad = (f"{name}: no group was created for the new unit", key)
                    break
                if pi != "bootstrap":
                    for est in ests:
                        v = sum({"dem": r["results_dem"], "gop": r["results_gop"], "turnout": r["results_turnout"]}[est] for r in rs)
                        cols = [f"results_{est}", f"pred_{est}"] + [f"{b}_{a}_{est}" for a in case["alphas"] for b in ("lower", "upper")]
                        for c in cols:
                            old = float.fromhex(ra_[key][c]) if key in ra_ else 0.0
                            newv = float.fromhex(rb_[key][c])
                            if newv != old + v:
                                bad = (f"{name}: {c} of the unit's group did not move by exactly its votes", key, old, newv, v)
                                break
                        if bad:
                            break
                else:
                    m = sum(r["results_dem"] - r["results_gop"] for r in rs)
                    t = sum(r["results_dem"] + r["results_gop"] for r in rs)
                    old_t = float.fromhex(ra_[key]["pred_turnout"]) if key in ra_ else 0.0
                    new_t = float.fromhex(rb_[key]["pred_turnout"])
                    if not C.close(new_t, C.frac(old_t) + t, Fraction(1, 10**7)):
                        bad = (f"{name}: predicted turnout did not move by the unit's two-party votes", key, old_t, new_t, t)
                        break
                    for a in case["alphas"]:
                        lo, hi = float.fromhex(rb_[key][f"lower_{a}_margin"]), float.fromhex(rb_[key][f"upper_{a}_margin"])
                        pm = float.fromhex(rb_[key]["pred_margin"])
                        if not (lo <= pm <= hi):
                            bad = (f"{name}: the bounds of the unit's group are not centred on its prediction", key, lo, pm, hi)
                            break
                    if bad:
                        break
                    for c in ("results_margin", "pred_margin"):
                        old_n = (float.fromhex(ra_[key][c]) * old_t) if key in ra_ else 0.0
                        new_n = float.fromhex(rb_[key][c]) * new_t
                        if not C.close(new_n, C.frac(old_n) + m, Fraction(1, 10**6)):
                            bad = (f"{name}: numerator of {c} did not move by the unit's margin", key, old_n, new_n, m)
                            break
                if bad:
                    break
            if bad:
                break
        if bad:
            run.violation("an unexpected unit changed something other than its own votes: " + bad[0], input=L, impl=[str(x) for x in bad[1:]],
                          predicate="unexpected_adds_votes / other_groups_unchanged / groups_after_unexpected",
                          signature="C11:effect", replay_case=A.case_json(caseB), base_case=A.case_json(case))


def replay(run, driver, payload):
    if "base_case" not in payload:
        A.run_and_check(run, A.case_from_json(payload["replay_case"]), driver, (PROP,))
        return
    case, caseB = A.case_from_json(payload["base_case"]), A.case_from_json(payload["replay_case"])
    check_pair(run, driver, case, caseB, payload["input"]["extra_rows"], case["pi_method"])
