"""C08 - the national summary is bounded, ordered, and depends only on the contests.

(a) stage level: BootstrapElectionModel.get_national_summary_estimates on assigned state (draws, predictions, call / stop
    vectors; near-tied contests with few draws, all sign patterns), default mode against the Lean `natsum`, other modes
    (no correlation, sigmoid) against the ordering / bound predicates only;
(b) API level (histories): full bootstrap runs with every order / subset of finer aggregates around the contest level, then
    ModelClient.get_national_summary_votes_estimates with None and with a dictionary; the results must be identical across
    aggregate lists, must not fail, and must satisfy the predicates.
"""
import itertools
import math
from fractions import Fraction

import numpy as np

from harness import bootstage as S
from harness import common as C
from harness import election as E
from harness import extract as X

PROP = "C08"
MODULES = ["ElexModel.Props.C08"]
DRIVER_TARGETS = ["ElexModel.Driver.NatSum"]
TRUSTED = [
    "compute_bootstrap_errors is an oracle: the draws are assigned directly at stage level",
    "non-default modes (sigmoid, no correlation) use numpy argsort tie order / scipy expit: only the ordering and bound predicates are "
    "checked there, not the exact value",
    "python round(x, 2) modelled as decimal half-even on the exact value; cases within 1e-9 of a tie skipped",
]
ASSUMPTIONS = ["weights >= 0", "the contest-level aggregate is among the requested aggregates (otherwise no summary state exists)"]
RULE = (
    "(a) 1-8 contests, B in {2,3,5,10}, dyadic draws centred near the prediction so that contests are near-tied, random call / stop "
    "vectors, weights 0-55, base 0 or 20.5; (b) generated elections x every arrangement of finer aggregates around postal_code; "
    "non-trivial = at least one uncalled contest whose draws straddle zero; distinct = sha1"
)


def gen_stage(rng):
    n = rng.randint(1, 8)
    B = rng.choice([2, 3, 5, 10])
    cs = []
    for _ in range(n):
        pred = S.dy(rng, -4, 4, 64) if rng.random() < 0.8 else S.dy(rng, -30, 30, 64)
        if rng.random() < 0.1:
            pred = Fraction(0)
        sc = rng.choice([Fraction(1, 64), Fraction(1, 16), Fraction(1, 4)])
        d1 = [S.dy(rng, -8, 8, 8) * sc for _ in range(B)]
        d2 = [S.dy(rng, -8, 8, 8) * sc if rng.random() < 0.7 else Fraction(0) for _ in range(B)]
        call = rng.choice(["none", "none", "none", "lhs", "rhs"])
        if call == "lhs":
            pred = max(pred, Fraction(1, 200))
        if call == "rhs":
            pred = min(pred, Fraction(-1, 200))
        cs.append({"w": rng.choice([0, 1, 3, 10, 29, 55]), "pred": pred, "d1": d1, "d2": d2, "call": call,
                   "stop": rng.random() < 0.25})
    alpha = rng.choice([0.5, 0.75, 0.875, 0.9, 0.7, 0.99])
    mode = rng.choice(["default"] * 6 + ["nocorr", "sigmoid"])
    kind = rng.choice(["none", "dict", "dict", "wrong-size", "wrong-size:too-few", "wrong-size:empty"])
    return {"stage": True, "contests": cs, "B": B, "alpha": alpha, "base": rng.choice([0, 0, 20.5, 191]), "mode": mode,
            "weights": kind}


def impl_stage(case):
    bm = S.boot_module()
    settings = {"features": ["baseline_normalized_margin"]}
    if case["mode"] == "nocorr":
        settings["national_summary_correlation"] = False
    if case["mode"] == "sigmoid":
        settings["agg_model_hard_threshold"] = False
    model = bm.BootstrapElectionModel(settings)
    cs = case["contests"]
    n, B = len(cs), case["B"]
    model.B = B
    model.divided_error_B_1 = np.array([[float(x) for x in c["d1"]] for c in cs]).reshape(n, B)
    model.divided_error_B_2 = np.array([[float(x) for x in c["d2"]] for c in cs]).reshape(n, B)
    model.aggregate_pred_margin = np.array([float(c["pred"]) for c in cs]).reshape(n, 1)
    model.called_contests = np.array([{"lhs": 1, "rhs": 0, "none": -1}[c["call"]] for c in cs]).reshape(n, 1)
    model.stop_model_call = np.array([bool(c["stop"]) for c in cs]).reshape(n, 1)
    if case["weights"] == "none":
        d = None
    elif case["weights"] == "dict":
        d = {f"S{i:02d}": c["w"] for i, c in enumerate(cs)}
    elif case["weights"] == "wrong-size:too-few":
        d = {f"S{i:02d}": c["w"] for i, c in enumerate(cs[:-1])}
    elif case["weights"] == "wrong-size:empty":
        d = {}
    else:
        d = {f"S{i:02d}": c["w"] for i, c in enumerate(cs)}
        d["EXTRA"] = 1
    try:
        with np.errstate(all="ignore"):
            r = model.get_national_summary_estimates(d, case["base"], case["alpha"])
        return [float(x) for x in r["margin"]]
    except bm.BootstrapElectionModelException:
        return {"raises": "BootstrapElectionModelException"}
    except Exception as e:
        return {"raises": type(e).__name__, "msg": str(e)[:200]}


def weights_of(case):
    return [1 if case["weights"] == "none" else c["w"] for c in case["contests"]]


def predicates(run, case, out, sig_prefix="C08", replay=None):
    """the property on an implementation output [pred, lower, upper]"""
    extra = {"replay_case": replay} if replay else {}
    ws = weights_of(case)
    pred, lo, hi = out
    base = case["base"]
    tot = sum(ws)
    if not (lo <= pred <= hi):
        run.violation("national summary is not ordered lower <= prediction <= upper", input=case, impl=out,
                      predicate="natsum_ordered", signature=f"{sig_prefix}:ordered", **extra)
        return False
    if case.get("mode", "default") != "sigmoid":
        if lo < round(base, 2) - 1e-9 or hi > round(base + tot, 2) + 1e-9:
            run.violation("national summary leaves [base, base + total weight]", input=case, impl=out,
                          expected=[base, base + tot], predicate="natsum_bounded", signature=f"{sig_prefix}:bounded", **extra)
            return False
        # called contests that are not stop-listed contribute no uncertainty, in either mode: each bound moves away from the prediction
        # by at most the weights of the other contests
        free = sum(w for w, c in zip(ws, case["contests"]) if c.get("call", "none") == "none" or c.get("stop"))
        if pred - lo > free + 1e-9 or hi - pred > free + 1e-9:
            run.violation("a bound is further from the prediction than the weights of the contests that are not called (or are stop-listed) "
                          "allow: a called contest contributes uncertainty", input=case, impl=out,
                          expected={"largest distance allowed": free}, predicate="called_no_uncertainty (both modes)",
                          signature=f"{sig_prefix}:called-width", **extra)
            return False
        want = base + sum(w for w, c in zip(ws, case["contests"]) if c["pred"] > 0)
        if abs(pred - round(want, 2)) > 1e-9:
            run.violation("prediction is not base plus the weights of the contests with a positive margin prediction", input=case,
                          impl=pred, expected=want, predicate="natsum_pred_formula", signature=f"{sig_prefix}:pred", **extra)
            return False
    return True


def stage(run, driver, n):
    rng = run.rng
    cases = [gen_stage(rng) for _ in range(n)]
    ops = []
    for c in cases:
        ops.append({"op": "natsum", "contests": [[C.rat(1 if c["weights"] == "none" else x["w"]), C.rat(x["pred"]),
                                                  [C.rat(v) for v in x["d1"]], [C.rat(v) for v in x["d2"]], x["call"], x["stop"]]
                                                 for x in c["contests"]],
                    "base": C.rat(c["base"]), "alpha": C.rat(c["alpha"]), "B": c["B"]})
    outs = driver.run(ops) if driver is not None else None
    for i, c in enumerate(cases):
        impl = impl_stage(c)
        L = _light(c)
        straddle = any(x["call"] == "none" and min(x["pred"] - (a - b) for a, b in zip(x["d1"], x["d2"])) < 0 <
                       max(x["pred"] - (a - b) for a, b in zip(x["d1"], x["d2"])) for x in c["contests"])
        run.case(L, straddle)
        run.count("stage " + c["mode"])
        if c["weights"].startswith("wrong-size"):
            if impl != {"raises": "BootstrapElectionModelException"}:
                run.violation("a weight dictionary of the wrong size was not rejected", input=L, impl=impl,
                              predicate="wrong_size_rejected", signature="C08:size")
            continue
        if isinstance(impl, dict):
            run.violation("national summary raised " + impl["raises"], input=L, impl=impl, predicate="natsum_no_fail",
                          signature="C08:raise")
            continue
        if not predicates(run, L_with_preds(L, c), impl):
            continue
        # called, un-stopped contests contribute no uncertainty: perturb their draws, nothing may change
        if c["mode"] == "default" and any(x["call"] != "none" and not x["stop"] for x in c["contests"]):
            c2 = dict(c)
            c2["contests"] = [dict(x, d1=[v + 7 for v in x["d1"]], d2=[v - 5 for v in x["d2"]])
                              if (x["call"] != "none" and not x["stop"]) else x for x in c["contests"]]
            impl2 = impl_stage(c2)
            if impl2 != impl:
                run.violation("a called contest contributes uncertainty: changing its draws changes the summary", input=L,
                              impl=[impl, impl2], predicate="called_no_uncertainty", signature="C08:called")
                continue
        if outs is None or c["mode"] != "default":
            continue
        m = [C.unrat(x) for x in outs[i]]
        if S.rank_boundary(c["alpha"], c["B"]):
            run.boundary_skipped += 1
            continue
        if [C.frac(x) for x in impl] != m and not all(C.close(a, b) for a, b in zip(impl, m)):
            run.diff("national summary vs model natsum", input=L, impl=impl, model=[str(x) for x in m])
        run.traces += 1


def L_with_preds(L, c):
    d = dict(L)
    d["contests"] = [dict(x, pred=c["contests"][i]["pred"]) for i, x in enumerate(L["contests"])]
    return d


def _light(c):
    d = dict(c)
    d["contests"] = [{k: ([str(v) for v in x[k]] if isinstance(x[k], list) else (str(x[k]) if isinstance(x[k], Fraction) else x[k]))
                      for k in x} for x in c["contests"]]
    return d


# ----------------------------------------------------------------------------------------------
# (b) histories: aggregate lists around the contest level

FINER = ["county_fips", "county_classification", "unit"]


def api_histories(run, n):
    rng = run.rng
    for i_ in range(n):
        # a district election (the contests are the (state, district) pairs; `postal_code` and `district` both name the contest level):
        # the fifth history of a pass and a fifth of the later ones
        dist = i_ == 4 or (i_ > 4 and rng.random() < 0.2)
        e = E.gen_election(rng, size=rng.choice(["small", "medium"]), roles=["reporting"] * 6 + ["partial"] * 3 + ["zero-percent"],
                           min_reporting=14, district=dist, unexpected=not dist)
        B = rng.choice([3, 5, 10])
        lists = [["postal_code"]]
        finer = list(FINER)
        if dist:
            lists = [["postal_code"], ["district"], ["postal_code", "district"], ["district", "postal_code"],
                     ["district", "county_fips", "postal_code"], ["unit", "postal_code", "district"]]
        if not dist and rng.random() < 0.5:
            # a state-level office whose data also carry districts (e.g. a statewide race reported by congressional district): the
            # district aggregate is then one more finer aggregate
            e.pre["district"] = [rng.choice(["01", "02", "03"]) for _ in range(len(e.pre))]
            finer.append("district")
        k = rng.randint(1, 3)
        fin = rng.sample(finer, k)
        if "district" in finer and "district" not in fin:
            fin[0] = "district"
        state_office_with_districts = "district" in finer
        if not dist:
            for perm in rng.sample(list(itertools.permutations(["postal_code"] + fin)), min(3, math.factorial(k + 1))):
                lists.append(list(perm))
        contest_names = sorted(set(e.states) | set(e.cur["postal_code"]))
        if dist:
            contest_names = sorted({f"{r['postal_code']}_{r['district']}" for r in e.pre.to_dict(orient="records")})
        nat = {s: rng.choice([1, 3, 10, 29]) for s in contest_names}
        # race calls and call-stops name contests; they are passed along with every aggregate list of the history (the first
        # histories of a pass: called for the left, for the right + a stop, a stop only, none; later ones at random)
        kind = ["lhs", "rhs+stop", "stop", "none"][i_] if i_ < 4 else rng.choice(["lhs", "rhs+stop", "stop", "none", "none"])
        if dist:
            kind = rng.choice(["lhs", "rhs+stop", "lhs", "rhs+stop", "stop"])
        first, last = (contest_names[0], contest_names[-1]) if dist else (e.states[0], e.states[-1])
        calls = {"lhs": {"lhs_called_contests": [first]},
                 "rhs+stop": {"rhs_called_contests": [first], "stop_model_call": [last]},
                 "stop": {"stop_model_call": [last]}, "none": {}}[kind]
        alphas = [0.5, 0.9]
        results = []
        case = {"api": True, "election": e.describe(), "B": B, "aggregate_lists": lists, "weights": nat, "calls": calls,
                "state_level_office_with_district_aggregate": state_office_with_districts, "district_election": dist}
        for aggs in lists:
            res = E.run_client(e, estimands=["margin"], alphas=alphas, pi_method="bootstrap", aggregates=aggs,
                               params=E.boot_params(B=B), features=["baseline_normalized_margin"], keep_client=True, extra=calls)
            if "raises" in res:
                results.append({"raises": res["raises"], "msg": res.get("msg")})
                continue
            cl = res["client"]
            outs = []
            for d in (None, nat):
                try:
                    with np.errstate(all="ignore"):
                        df = cl.get_national_summary_votes_estimates(d, 20, alphas)
                    outs.append([float(df["agg_pred"].iloc[0])] + [float(df[f"{b}_{a}"].iloc[0]) for a in alphas for b in ("lower", "upper")])
                except Exception as ex:
                    outs.append({"raises": type(ex).__name__, "msg": str(ex)[:200]})
            top = res["tables"].get("state_data", res["tables"].get("district_data"))
            if dist:
                state = [[f"{a}_{b}", m] for a, b, m in top[["postal_code", "district", "pred_margin"]].values.tolist()]
            else:
                state = top[["postal_code", "pred_margin"]].values.tolist()
            results.append({"out": outs, "state": state})
        run.case(case, True)
        run.count("api histories")
        if any("raises" in r for r in results):
            if all(r.get("raises") == "ModelNotEnoughSubunitsException" for r in results):
                continue
            # known finding KF-5 (b): with calls, every list that names `district` in a state-level election is rejected
            failing = [a for a, r in zip(lists, results) if "raises" in r]
            kf5b = (state_office_with_districts and bool(calls) and all("district" in a for a in failing)
                    and all(r.get("raises") in (None, "BootstrapElectionModelException") for r in results))
            run.violation("bootstrap run failed for an aggregate list", input=case, impl=results, predicate="natsum_no_fail",
                          signature="KF-5" if kf5b else "C08:run-raise", election=e.to_json())
            continue
        ref = results[0]["out"]
        for aggs, r in zip(lists, results):
            # known finding KF-5: in a state-level election [postal_code, district] is taken for the contest level
            kf5 = state_office_with_districts and "district" in aggs and aggs.index("district") > aggs.index("postal_code")
            if any(isinstance(o, dict) for o in r["out"]):
                run.violation("the national summary fails because finer aggregates were also requested", input=case,
                              impl={"aggregates": aggs, "result": r["out"]}, predicate="natsum_no_fail",
                              signature="KF-5" if kf5 else "C08:history-fail", election=e.to_json())
                break
            if r["out"] != ref:
                run.violation("the national summary changes with the list / order of requested aggregates", input=case,
                              impl={"aggregates": aggs, "result": r["out"]}, expected=ref, predicate="natsum_history_independent",
                              signature="KF-5" if kf5 else "C08:history", election=e.to_json())
                break
        else:
            # predicates on the reference output
            preds = {s: p for s, p in results[0]["state"]}
            for d, o in zip((None, nat), ref):
                cs = [{"w": (1 if d is None else nat[s]), "pred": preds[s]} for s in sorted(preds)]
                for j, a in enumerate(alphas):
                    pc = {"contests": cs, "base": 20, "weights": "none" if d is None else "dict", "alpha": a, "mode": "default",
                          "election": e.describe()}
                    predicates(run, pc, [o[0], o[1 + 2 * j], o[2 + 2 * j]])
        run.traces += 1


def extract(run):
    return X.generate("C08")


def explore(run, driver, budget):
    run.info["rule"] = RULE
    n = {"quick": (400, 6), "thorough": (15000, 120), "search": (3000, 25)}[budget]
    stage(run, driver, n[0])
    api_histories(run, n[1])


def replay(run, driver, payload):
    # the generators are driven by the seed and pass recorded in the replay file (set by main): the same pass is re-run
    explore(run, driver, run.budget)
