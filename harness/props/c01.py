"""C01 - counted votes are conserved and every unit is reported exactly once."""
from harness import apicheck as A
from harness import election as E
from harness.props import _api_common as K

PROP = "C01"
MODULES = ["ElexModel.Props.C01"]
DRIVER_TARGETS = ["ElexModel.Driver.Units"]
TRUSTED = [
    "pandas left merge / groupby / outer merge / fillna are modelled as relational algebra on key-sorted association lists "
    "(lean/ElexModel/Core/Table.lean, Units.lean, Aggregate.lean); fidelity rests on the diff of every table",
    "group keys are ranks of the real key tuples under python's tuple-of-str order; key derivation for unexpected units "
    "(parsing county / district from the id) is done by the harness exactly as CombinedDataHandler does",
    "nonreporting unit predictions and bounds are taken from the implementation's unit table (oracle) when aggregate tables are recomputed",
]
ASSUMPTIONS = [
    "feed ids unique, baseline ids unique",
    "FeedConsistent: a feed row whose id is in the baseline carries the baseline's postal code (excluded point = known finding KF-1)",
    "a feed row with a NaN count: the count is missing, the unit is passed through and adds nothing to that estimand's sums (under the bootstrap estimator this collapsed every aggregate until fix F-16; the case is kept as a corpus case)",
    "outlier models off (their flagged sets are an oracle, exercised by C09)",
]
RULE = (
    "generated elections (1-4 states x counties x classifications x districts; every unit draws a role from reporting, partial, "
    "zero-percent, zero-baseline, blocklisted (unit/state), strange turnout factor, missing from feed, NaN estimand, unexpected with "
    "known/unknown county and state) x 3 estimators x both policies x random aggregate lists; every case is non-trivial; "
    "distinct = sha1 of the case description"
)


def kf1_case(rng):
    """known finding KF-1: zero policy + a feed id that exists in the baseline under another postal code"""
    c = A.gen_case(rng, pi_method="nonparametric", roles=["reporting"] * 5 + ["partial"], unexpected=False)
    e = c["election"]
    c["policy"] = "zero"
    c["aggregates"] = ["postal_code", "unit"]
    victim = e.cur.index[0]
    e.cur.loc[victim, "postal_code"] = "ZZ"
    e.cur.loc[victim, "results_dem"] = 321
    e.cur.loc[victim, "results_turnout"] = 999
    return c


def kf4_case(rng):
    """bootstrap + a feed row with a NaN count (former known finding KF-4, repaired by F-16): regression case"""
    c = A.gen_case(rng, pi_method="bootstrap", roles=["reporting"] * 6 + ["partial", "nan-estimand"], unexpected=False)
    e = c["election"]
    c["policy"] = "drop"
    c["aggregates"] = ["postal_code", "unit"]
    if not e.cur[["results_dem", "results_gop"]].isna().any().any():
        e.cur.loc[e.cur.index[-1], "results_dem"] = float("nan")
    return c


def reuse_feed_stream(run, driver, n):
    """the caller passes the same feed DataFrame object to two consecutive calls and refreshes the counts in place in between:
    the second run must report the current counts (derived columns left in the caller's frame must not be trusted)"""
    rng = run.rng
    for _ in range(n):
        pi = rng.choice(["bootstrap", "bootstrap", "nonparametric"])
        case = A.gen_case(rng, pi_method=pi, roles=["reporting"] * 6 + ["partial"] * 3, unexpected=False)
        e = case["election"]
        first = A.run_case(case, reuse_feed=True)
        if "raises" in first:
            continue
        for i in e.cur.index:
            if rng.random() < 0.6:
                e.cur.loc[i, "results_dem"] = int(e.cur.loc[i, "results_dem"]) + rng.randint(1, 400)
                e.cur.loc[i, "results_gop"] = int(e.cur.loc[i, "results_gop"]) + rng.randint(0, 90)
                e.cur.loc[i, "results_turnout"] = int(e.cur.loc[i, "results_dem"] + e.cur.loc[i, "results_gop"]) + 5
        rec = A.stage1(run, case, (PROP,), reuse_feed=True)
        run.count("feed frame reused across two calls")
        outs = None
        if driver is not None and rec["ops"]:
            outs = driver.run(rec["ops"])
        A.stage2(run, rec, outs, (PROP,))


def client_reuse_stream(run, driver, n):
    """one client object serves a state-level office and then a district office (or the other way round): the second run is checked
    like any other - nothing the client kept from the first run (aggregate key lists, configuration, frames) may enter it"""
    from harness import election as E

    rng = run.rng
    for k in range(n):
        pi = ["nonparametric", "gaussian", "bootstrap"][k % 3]
        first_district = k % 2 == 1
        c1 = A.gen_case(rng, pi_method=pi, district=first_district, roles=["reporting"] * 6 + ["partial"] * 3)
        c2 = A.gen_case(rng, pi_method=pi, district=not first_district, roles=[r for r in E.ROLES if r != "nan-estimand"])
        for c in (c1, c2):
            c["aggregates"] = [a for a in ["postal_code", "county_fips", "district", "unit"] if a != "district" or c["election"].office == "H"]
        cl = E.client_mod().ModelClient()
        A.run_case(c1, client=cl)
        rec = A.stage1(run, c2, (PROP,), client=cl)
        run.count("client reused across offices")
        outs = None
        if driver is not None and rec["ops"]:
            outs = driver.run(rec["ops"])
        A.stage2(run, rec, outs, (PROP,))


def explore(run, driver, budget):
    K.explore(run, driver, budget, PROP, RULE, corpus=(kf1_case, kf4_case))
    reuse_feed_stream(run, driver, {"quick": 4, "thorough": 120, "search": 20}[budget])
    client_reuse_stream(run, driver, {"quick": 4, "thorough": 120, "search": 20}[budget])


def replay(run, driver, payload):
    K.replay(run, driver, payload, PROP)
