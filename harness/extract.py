"""Translator: python `ast` of /repo/src  ->  Lean definitions (lean/ElexModel/Gen/Cxx.lean).

Exact-subset only: arithmetic `+ - * /`, unary minus, comparisons, and/or/not, min/max, round(x, k),
floor/ceil (math / numpy), numeric literals (a decimal literal becomes the exact rational it denotes:
0.9 -> 9/10), `len`, `in` on lists of strings, names bound to parameters, attribute chains listed in
the anchor's environment, straight-line `name = expr` bodies ending in `return`.
Anything else raises TranslateError, which the check reports as a broken obligation.
"""
import ast
import re
from decimal import Decimal
from fractions import Fraction
from pathlib import Path

from harness import common as C


class TranslateError(Exception):
    pass


def _find(tree, cls, func):
    for node in tree.body:
        if cls is None and isinstance(node, (ast.FunctionDef,)) and node.name == func:
            return node
        if isinstance(node, ast.ClassDef) and node.name == cls:
            for sub in node.body:
                if isinstance(sub, ast.FunctionDef) and sub.name == func:
                    return sub
    raise TranslateError(f"anchor {cls}.{func} not found")


class Tr:
    def __init__(self, src, env, calls=None):
        self.src = src
        self.env = dict(env)  # python source text of a name / attribute chain -> lean term
        self.calls = calls or {}  # python call text (e.g. "self._compute_conf_frac") -> lean function name

    def num(self, node):
        v = node.value
        if isinstance(v, bool):
            return "true" if v else "false"
        if isinstance(v, int):
            return f"({v} : Rat)"
        if isinstance(v, float):
            seg = ast.get_source_segment(self.src, node)
            try:
                f = Fraction(Decimal(seg))
            except Exception:
                raise TranslateError(f"float literal {seg!r}")
            return f"(({f.numerator} : Rat) / {f.denominator})"
        if isinstance(v, str):
            return '"' + v.replace('"', '\\"') + '"'
        raise TranslateError(f"constant {v!r}")

    def expr(self, n):
        text = ast.unparse(n)
        if text in self.env:
            return self.env[text]
        if isinstance(n, ast.Constant):
            return self.num(n)
        if isinstance(n, ast.Name):
            raise TranslateError(f"unbound name {n.id}")
        if isinstance(n, ast.BinOp):
            op = {ast.Add: "+", ast.Sub: "-", ast.Mult: "*", ast.Div: "/"}.get(type(n.op))
            if op is None:
                raise TranslateError(f"operator {type(n.op).__name__}")
            return f"({self.expr(n.left)} {op} {self.expr(n.right)})"
        if isinstance(n, ast.UnaryOp):
            if isinstance(n.op, ast.USub):
                return f"(-{self.expr(n.operand)})"
            if isinstance(n.op, ast.Not):
                return f"(!{self.expr(n.operand)})"
            raise TranslateError("unary op")
        if isinstance(n, ast.BoolOp):
            op = "&&" if isinstance(n.op, ast.And) else "||"
            return "(" + f" {op} ".join(self.expr(v) for v in n.values) + ")"
        if isinstance(n, ast.Compare):
            if len(n.ops) != 1:
                raise TranslateError("chained comparison")
            a, b, op = n.left, n.comparators[0], n.ops[0]
            if isinstance(op, ast.In):
                return f"({self.expr(b)}.contains {self.expr(a)})"
            if isinstance(op, ast.NotIn):
                return f"(!{self.expr(b)}.contains {self.expr(a)})"
            sym = {ast.Lt: "<", ast.LtE: "≤", ast.Gt: ">", ast.GtE: "≥", ast.Eq: "=", ast.NotEq: "≠"}.get(type(op))
            if sym is None:
                raise TranslateError("comparison")
            return f"(decide ({self.expr(a)} {sym} {self.expr(b)}))"
        if isinstance(n, ast.Tuple):
            return "(" + ", ".join(self.expr(e) for e in n.elts) + ")"
        if isinstance(n, ast.Call):
            f = ast.unparse(n.func)
            args = n.args
            if f in self.calls:
                return "(" + " ".join([self.calls[f]] + [self.expr(a) for a in args]) + ")"
            if f in ("math.floor", "np.floor", "floor"):
                return f"((Rat.floor {self.expr(args[0])} : Int) : Rat)"
            if f in ("math.ceil", "np.ceil", "ceil"):
                return f"((Rat.ceil {self.expr(args[0])} : Int) : Rat)"
            if f in ("min", "np.minimum") and len(args) == 2:
                return f"(ElexModel.rmin {self.expr(args[0])} {self.expr(args[1])})"
            if f in ("max", "np.maximum") and len(args) == 2:
                return f"(ElexModel.rmax {self.expr(args[0])} {self.expr(args[1])})"
            if f == "round" and len(args) == 2 and isinstance(args[1], ast.Constant):
                return f"(ElexModel.pyRound {self.expr(args[0])} {int(args[1].value)})"
            if f == "np.where" and len(args) == 3:
                return f"(if {self.expr(args[0])} then {self.expr(args[1])} else {self.expr(args[2])})"
            if f == "np.nan_to_num" and len(args) == 1 and isinstance(args[0], ast.BinOp) and isinstance(args[0].op, ast.Div) \
                    and all(k.arg in ("nan", "posinf", "neginf") and ast.unparse(k.value) == "0" for k in n.keywords):
                return f"(ElexModel.divz {self.expr(args[0].left)} {self.expr(args[0].right)})"
            if f == "np.power" and len(args) == 2 and ast.unparse(args[1]) == "2":
                return f"({self.expr(args[0])} * {self.expr(args[0])})"
            if f == "len" and len(args) == 1:
                return f"(({self.expr(args[0])}.length : Nat) : Rat)"
            raise TranslateError(f"call {f}")
        raise TranslateError(f"expression {text!r}")

    def body(self, fn, want=None):
        """straight-line body -> nested lets; `want` = name of an assigned variable to return instead of `return`"""
        lets = []
        ret = None
        for st in fn.body:
            if isinstance(st, ast.Expr) and isinstance(st.value, ast.Constant) and isinstance(st.value.value, str):
                continue  # docstring
            if isinstance(st, ast.Assign) and len(st.targets) == 1 and isinstance(st.targets[0], ast.Name):
                name = st.targets[0].id
                try:
                    e = self.expr(st.value)
                except TranslateError:
                    if want is None:
                        raise
                    continue  # irrelevant statement on the way to `want`
                lean_name = f"v_{name}"
                lets.append((lean_name, e))
                self.env[name] = lean_name
                if want == name:
                    ret = lean_name
                    break
                continue
            if isinstance(st, ast.Return) and want is None:
                ret = self.expr(st.value)
                break
            if isinstance(st, ast.Expr) and isinstance(st.value, ast.Constant):
                continue
            if want is None:
                raise TranslateError(f"statement {type(st).__name__} in {fn.name}")
        if ret is None:
            raise TranslateError(f"no result in {fn.name}")
        out = ""
        for nme, e in lets:
            out += f"  let {nme} := {e}\n"
        return out + f"  {ret}"



class Flow(Tr):
    """symbolic evaluation of a straight-line statement list (elementwise numpy / pandas arithmetic read as scalar arithmetic):
    `x = e`, `self.x = e` (alias), `x op= e`, `if <leaf>: … else: …` assigning the same names, `e.round(decimals=0)`;
    a statement whose right-hand side is outside the subset *poisons* its targets (using one later is a TranslateError)."""

    def expr(self, n):
        if (isinstance(n, ast.Call) and isinstance(n.func, ast.Attribute) and n.func.attr == "round" and not n.args
                and [(k.arg, ast.unparse(k.value)) for k in n.keywords] == [("decimals", "0")]):
            return f"((ElexModel.rhe {self.expr(n.func.value)} : Int) : Rat)"
        text = ast.unparse(n)
        if text in self.env and self.env[text] is None:
            raise TranslateError(f"{text} depends on an untranslated statement")
        if isinstance(n, ast.Subscript) and getattr(self, "_mask", None) and ast.unparse(n.slice) == self._mask:
            return self.expr(n.value)
        return super().expr(n)

    def _targets(self, st):
        if isinstance(st, ast.Assign):
            return [ast.unparse(t) for t in st.targets]
        if isinstance(st, ast.AugAssign):
            return [ast.unparse(st.target)]
        return []

    def run(self, stmts):
        for st in stmts:
            if isinstance(st, ast.Expr):
                continue
            if isinstance(st, ast.Return):
                self.ret = st.value
                return
            if isinstance(st, ast.If):
                try:
                    test = self.expr(st.test)
                except TranslateError:
                    for sub in ast.walk(st):  # a branch on something outside the subset: whatever it assigns is unknown
                        for t in self._targets(sub):
                            self.env[t] = None
                    continue
                if test in ("true", "false"):
                    self.run(st.body if test == "true" else st.orelse)
                    if getattr(self, "ret", None) is not None:
                        return
                    continue
                a, b = type(self)(self.src, self.env, self.calls), type(self)(self.src, self.env, self.calls)
                a.run(st.body)
                b.run(st.orelse)
                for k in set(a.env) | set(b.env):
                    va, vb = a.env.get(k, self.env.get(k)), b.env.get(k, self.env.get(k))
                    if va == vb:
                        self.env[k] = va
                    elif va is None or vb is None:
                        self.env[k] = None
                    else:
                        self.env[k] = f"(if {test} then {va} else {vb})"
                continue
            if (isinstance(st, ast.Assign) and len(st.targets) == 1 and isinstance(st.targets[0], ast.Subscript)
                    and isinstance(st.targets[0].value, ast.Name) and self.env.get(st.targets[0].value.id) is not None):
                # masked assignment  x[mask] = e   ->   if mask then e else x   (inside e, y[mask] reads y)
                name = st.targets[0].value.id
                self._mask = ast.unparse(st.targets[0].slice)
                try:
                    self.env[name] = f"(if {self.expr(st.targets[0].slice)} then {self.expr(st.value)} else {self.env[name]})"
                except TranslateError:
                    self.env[name] = None
                self._mask = None
                continue
            if isinstance(st, ast.Assign):
                try:
                    v = self.expr(st.value)
                except TranslateError:
                    v = None
                for t in self._targets(st):
                    self.env[t] = v
                continue
            if isinstance(st, ast.AugAssign):
                op = {ast.Add: "+", ast.Sub: "-", ast.Mult: "*", ast.Div: "/"}.get(type(st.op))
                t = ast.unparse(st.target)
                try:
                    if op is None:
                        raise TranslateError("augmented operator")
                    self.env[t] = f"({self.expr(st.target)} {op} {self.expr(st.value)})"
                except TranslateError:
                    self.env[t] = None
                continue
            # anything else (loops, with, try …): poison every name it assigns
            for sub in ast.walk(st):
                for t in self._targets(sub):
                    self.env[t] = None
        self.ret = getattr(self, "ret", None)

    def value(self, node):
        return self.expr(node)


def _is_bool(term):
    return term in ("true", "false") or term.startswith("(decide ") or term.startswith("(!") or term.startswith("(B:")


class NFlow(Flow):
    """Flow + numpy boolean idioms: `~m`, `a & b`, `m.astype(int)` (bool -> 0/1), `x.astype(bool)`, `.flatten()`, a boolean
    compared with 0.5, booleans used in arithmetic.  Boolean leaves are written `(B: name)` in the environment and printed as `name`."""

    def expr(self, n):
        t = self._e(n)
        return t

    def _num(self, term):
        return f"(ElexModel.boolToRat {self._strip(term)})" if _is_bool(term) else term

    @staticmethod
    def _strip(term):
        return term[3:-1].strip() if term.startswith("(B:") else term

    def _e(self, n):
        text = ast.unparse(n)
        if text in self.env:
            if self.env[text] is None:
                raise TranslateError(f"{text} depends on an untranslated statement")
            return self.env[text]
        if isinstance(n, ast.Subscript) and getattr(self, "_mask", None) and ast.unparse(n.slice) == self._mask:
            return self._e(n.value)
        if isinstance(n, ast.Call) and isinstance(n.func, ast.Attribute) and not n.keywords:
            a = n.func.attr
            if (a == "flatten" and not n.args) or (a == "reshape" and [ast.unparse(x) for x in n.args] == ["-1", "1"]):
                return self._e(n.func.value)
            if a == "astype" and len(n.args) == 1:
                inner = self._e(n.func.value)
                ty = ast.unparse(n.args[0])
                if ty == "int":
                    if not _is_bool(inner):
                        raise TranslateError("astype(int) of a non-boolean")
                    return self._num(inner)
                if ty == "bool":
                    return inner if _is_bool(inner) else f"(decide ({inner} ≠ 0))"
        if isinstance(n, ast.UnaryOp) and isinstance(n.op, ast.Invert):
            inner = self._e(n.operand)
            if not _is_bool(inner):
                raise TranslateError("~ of a non-boolean")
            return f"(!{self._strip(inner)})"
        if isinstance(n, ast.BinOp) and isinstance(n.op, (ast.BitAnd, ast.BitOr)):
            l, r = self._e(n.left), self._e(n.right)
            if not (_is_bool(l) and _is_bool(r)):
                raise TranslateError("& / | of non-booleans")
            return f"(B: ({self._strip(l)} {'&&' if isinstance(n.op, ast.BitAnd) else '||'} {self._strip(r)}))"
        if isinstance(n, ast.BinOp):
            op = {ast.Add: "+", ast.Sub: "-", ast.Mult: "*", ast.Div: "/"}.get(type(n.op))
            if op is None:
                raise TranslateError(f"operator {type(n.op).__name__}")
            return f"({self._num(self._e(n.left))} {op} {self._num(self._e(n.right))})"
        if isinstance(n, ast.Compare) and len(n.ops) == 1:
            l = self._e(n.left)
            if _is_bool(l) and isinstance(n.ops[0], ast.Gt) and ast.unparse(n.comparators[0]) == "0.5":
                return l  # a boolean (0/1) exceeds one half iff it is true
            r = self._e(n.comparators[0])
            sym = {ast.Lt: "<", ast.LtE: "≤", ast.Gt: ">", ast.GtE: "≥", ast.Eq: "=", ast.NotEq: "≠"}.get(type(n.ops[0]))
            if sym is None:
                raise TranslateError("comparison")
            return f"(decide ({self._num(l)} {sym} {self._num(r)}))"
        if isinstance(n, ast.Call) and ast.unparse(n.func) in ("np.maximum", "np.minimum", "max", "min") and len(n.args) == 2:
            f = "ElexModel.rmax" if "max" in ast.unparse(n.func) else "ElexModel.rmin"
            return f"({f} {self._num(self._e(n.args[0]))} {self._num(self._e(n.args[1]))})"
        return Flow.expr(self, n)

    def final(self, term):
        """print: boolean leaves without their marker"""
        return term.replace("(B: ", "(")


def _call_args(fn, func_text):
    for n in ast.walk(fn):
        if isinstance(n, ast.Call) and ast.unparse(n.func) == func_text:
            return [ast.unparse(a) for a in n.args] + [f"{k.arg}={ast.unparse(k.value)}" for k in n.keywords]
    raise TranslateError(f"call {func_text} not found in {fn.name}")


def _strlist(name, items):
    return f"def {name} : List String := [" + ", ".join('"' + i.replace('"', "'") + '"' for i in items) + "]\n"


W = "nonreporting_units[f'last_election_results_{estimand}']"
PART = "nonreporting_units[f'results_{estimand}']"


def _unit_pred_def():
    """ConformalElectionModel.get_unit_predictions: un-normalise, floor at the counted votes, round"""
    src, tree = _parse("models/ConformalElectionModel.py")
    fn = _find(tree, "ConformalElectionModel", "get_unit_predictions")
    fl = Flow(src, {"qr.predict(nonreporting_units_features.values).flatten()": "p", W: "w", PART: "part"})
    fl.run(fn.body)
    if fl.ret is None or not isinstance(fl.ret, ast.Tuple):
        raise TranslateError("get_unit_predictions: return")
    return lean_def("unit_pred", [("p", "Rat"), ("w", "Rat"), ("part", "Rat")], "Rat", "  " + fl.value(fl.ret.elts[0]))


def _np_interval_defs():
    """NonparametricElectionModel.get_unit_prediction_intervals as a dataflow"""
    src, tree = _parse("models/NonparametricElectionModel.py")
    fn = _find(tree, "NonparametricElectionModel", "get_unit_prediction_intervals")
    env = {"prediction_intervals.lower": "l", "prediction_intervals.upper": "u", W: "w", PART: "part", "self.robust": "robust",
           "alpha": "alpha", "prediction_intervals.conformalization.shape[0]": "ncal",
           "prediction_intervals.conformalization.lower_bounds": "lb", "prediction_intervals.conformalization.upper_bounds": "ub"}
    calls_as_leaves = {"np.quantile": "npq", "self._compute_population_correction": "pc"}

    class F(Flow):
        def expr(self, n):
            if isinstance(n, ast.Call) and ast.unparse(n.func) in calls_as_leaves:
                return calls_as_leaves[ast.unparse(n.func)]
            return super().expr(n)

    fl = F(src, env)
    fl.run(fn.body)
    if fl.ret is None or not isinstance(fl.ret, ast.Call) or ast.unparse(fl.ret.func) != "PredictionIntervals" or len(fl.ret.args) != 3:
        raise TranslateError("get_unit_prediction_intervals: return PredictionIntervals(lower, upper, conformalization)")
    params = [("l", "Rat"), ("u", "Rat"), ("w", "Rat"), ("part", "Rat"), ("robust", "Bool"), ("npq", "Rat"), ("pc", "Rat")]
    out = [lean_def("final_lower", params, "Rat", "  " + fl.value(fl.ret.args[0])),
           lean_def("final_upper", params, "Rat", "  " + fl.value(fl.ret.args[1])),
           lean_def("applied_correction", [("robust", "Bool"), ("npq", "Rat"), ("pc", "Rat")], "Rat", "  " + fl.env["correction"]),
           lean_def("score", [("lb", "Rat"), ("ub", "Rat")], "Rat", "  " + fl.env["scores"]),
           _strlist("conformalization_returned", [ast.unparse(fl.ret.args[2])]),
           _strlist("quantile_args", _call_args(fn, "np.quantile")),
           _strlist("population_correction_args", _call_args(fn, "self._compute_population_correction"))]
    return out


def gen_C03():
    return [_unit_pred_def()] + _np_interval_defs()[:2] + _gauss_agg_defs()[0] + _results_handler_shape()


def gen_C05():
    """the median solve of get_unit_predictions: what is passed to fit_model, and the closing formula"""
    src, tree = _parse("models/ConformalElectionModel.py")
    fn = _find(tree, "ConformalElectionModel", "get_unit_predictions")
    args = None
    for n in ast.walk(fn):
        if isinstance(n, ast.Call) and ast.unparse(n.func) == "self.fit_model":
            args = [ast.unparse(a) for a in n.args]
    if args is None:
        raise TranslateError("get_unit_predictions: self.fit_model call")
    defs = {}
    for n in ast.walk(fn):
        if isinstance(n, ast.Assign) and len(n.targets) == 1 and ast.unparse(n.targets[0]) in ("weights", "reporting_units_residuals"):
            defs[ast.unparse(n.targets[0])] = ast.unparse(n.value)
    return [_unit_pred_def(), _strlist("median_fit_args", args),
            _strlist("median_fit_weights", [defs.get("weights", "?")]), _strlist("median_fit_target", [defs.get("reporting_units_residuals", "?")])]


def gen_C04():
    out = _np_interval_defs()
    # conformity bounds of the calibration units
    src, tree = _parse("models/ConformalElectionModel.py")
    fn = _find(tree, "ConformalElectionModel", "get_unit_prediction_interval_bounds")
    tr = Tr(src, {"lower_qr.predict(conformalization_data_features.values).flatten()": "fit",
                  "upper_qr.predict(conformalization_data_features.values).flatten()": "fit",
                  "conformalization_data[f'residuals_{estimand}'].values": "r"})
    out.append(lean_def("conf_lower_bound", [("fit", "Rat"), ("r", "Rat")], "Rat",
                        "  " + tr.expr(assigned_expr(fn, "conformalization_lower_bounds"))))
    out.append(lean_def("conf_upper_bound", [("fit", "Rat"), ("r", "Rat")], "Rat",
                        "  " + tr.expr(assigned_expr(fn, "conformalization_upper_bounds"))))
    out.append(_strlist("conf_columns", [ast.unparse(n.targets[0]) + " = " + ast.unparse(n.value) for n in ast.walk(fn)
                                         if isinstance(n, ast.Assign) and ast.unparse(n.targets[0]).startswith("conformalization_data[")]))
    # shape of _compute_population_correction: normalised weights, sort key, cumulative sum, strict query, reduction
    src, tree = _parse("models/NonparametricElectionModel.py")
    fn = _find(tree, "NonparametricElectionModel", "_compute_population_correction")
    shape = []
    for n in ast.walk(fn):
        if isinstance(n, ast.Call):
            f = ast.unparse(n.func)
            if f.endswith(".sort_values") or f.endswith(".query") or f in ("np.min", "np.max", "min", "max") or f.endswith(".cumsum"):
                shape.append(f.split(".")[-1] + "(" + ", ".join([ast.unparse(a) for a in n.args] + [f"{k.arg}={ast.unparse(k.value)}" for k in n.keywords]) + ")")
    w = assigned_expr(fn, "weights")
    shape.append("weights = " + ast.unparse(w))
    out.append(_strlist("population_correction_shape", sorted(shape)))
    return out


def assigned_expr(fn, target_text):
    """the right-hand side of the first assignment (anywhere in fn) whose target unparses to target_text"""
    for node in ast.walk(fn):
        if isinstance(node, ast.Assign) and len(node.targets) == 1 and ast.unparse(node.targets[0]) == target_text:
            return node.value
    raise TranslateError(f"assignment to {target_text} not found in {fn.name}")


def lean_def(name, params, rettype, body):
    ps = " ".join(f"({p} : {t})" for p, t in params)
    return f"def {name} {ps} : {rettype} :=\n{body}\n"


# ----------------------------------------------------------------------------------------------
# anchors


def _parse(rel):
    path = C.SRC / "elexmodel" / rel
    src = path.read_text()
    return src, ast.parse(src)


def gen_C06():
    src, tree = _parse("models/BootstrapElectionModel.py")
    out = []
    fn = _find(tree, "BootstrapElectionModel", "_get_quantiles")
    tr = Tr(src, {"alpha": "alpha", "self.B": "B"})
    out.append(lean_def("get_quantiles", [("alpha", "Rat"), ("B", "Rat")], "Rat × Rat", tr.body(fn)))
    # the +- 0.001 straddle
    fn = _find(tree, "BootstrapElectionModel", "get_aggregate_prediction_intervals")
    tr = Tr(src, {"interval_lower": "lo", "interval_upper": "hi", "aggregate_perc_margin_total": "pred"})
    lo = tr.expr(_nth_assigned(fn, "interval_lower", "np.minimum"))
    hi = tr.expr(_nth_assigned(fn, "interval_upper", "np.maximum"))
    out.append(lean_def("straddle_lower", [("lo", "Rat"), ("pred", "Rat")], "Rat", "  " + lo))
    out.append(lean_def("straddle_upper", [("hi", "Rat"), ("pred", "Rat")], "Rat", "  " + hi))
    return out + _boot_agg_defs() + _nonreporting_bounds_defs() + _clip_stage_defs() + _epsilon_defs()


def _epsilon_defs():
    """BootstrapElectionModel._estimate_epsilon / _estimate_delta: least squares against the contest indicator, the masked reset of
    small contests (mask translated: `count < k` with the source's k, value assigned), and the subtraction that defines delta"""
    src, tree = _parse("models/BootstrapElectionModel.py")
    fe = _find(tree, "BootstrapElectionModel", "_estimate_epsilon")
    stmts = [st for st in fe.body if not (isinstance(st, ast.Expr) and isinstance(st.value, ast.Constant))]
    if len(stmts) != 3 or not isinstance(stmts[2], ast.Return) or ast.unparse(stmts[2].value) != "epsilon_hat":
        raise TranslateError("_estimate_epsilon: expected lstsq, masked reset, return")
    fit, reset = stmts[0], stmts[1]
    if ast.unparse(fit.value) != "np.linalg.lstsq(aggregate_indicator, residuals)":
        raise TranslateError("_estimate_epsilon: " + ast.unparse(fit.value))
    if not (isinstance(reset, ast.Assign) and isinstance(reset.targets[0], ast.Subscript) and ast.unparse(reset.targets[0].value) == "epsilon_hat"):
        raise TranslateError("_estimate_epsilon: masked reset")
    tr = Tr(src, {"aggregate_indicator.sum(axis=0)": "count"})
    out = [lean_def("epsilon_reset_mask", [("count", "Rat")], "Bool", "  " + tr.expr(reset.targets[0].slice)),
           lean_def("epsilon_reset_value", [], "Rat", "  " + tr.expr(reset.value)).replace("epsilon_reset_value  :", "epsilon_reset_value :")]
    fd = _find(tree, "BootstrapElectionModel", "_estimate_delta")
    ret = [st for st in fd.body if isinstance(st, ast.Return)]
    tr2 = Tr(src, {"residuals": "r", "aggregate_indicator @ epsilon_hat": "eps"})
    val = ret[0].value
    if isinstance(val, ast.Call) and isinstance(val.func, ast.Attribute) and val.func.attr == "flatten":
        val = val.func.value
    out.append(lean_def("delta_of", [("r", "Rat"), ("eps", "Rat")], "Rat", "  " + tr2.expr(val)))
    # the stratum distributions: how np.interp is called
    fs = _find(tree, "BootstrapElectionModel", "_estimate_strata_dist")
    lambdas = [ast.unparse(n.body) for n in ast.walk(fs) if isinstance(n, ast.Lambda)]
    creators = [ast.unparse(n) for n in ast.walk(fs) if isinstance(n, ast.Call) and ast.unparse(n.func) in ("ppf_creator", "cdf_creator")]
    out.append(_strlist("strata_interp", lambdas + creators))
    return out


class _BoundsFlow(NFlow):
    """NFlow + `.values`, `x.clip(min=c)` / `x.clip(max=c)` (one-sided clips), `np.isclose(x, c)` read as equality (the tolerance of
    isclose is idealised: the harness treats inputs within it as boundary cases)"""

    def _e(self, n):
        if isinstance(n, ast.Attribute) and n.attr == "values" and ast.unparse(n) not in self.env:
            return self._e(n.value)
        if (isinstance(n, ast.Call) and isinstance(n.func, ast.Attribute) and n.func.attr == "clip" and not n.args
                and len(n.keywords) == 1 and n.keywords[0].arg in ("min", "max")):
            f = "ElexModel.rmax" if n.keywords[0].arg == "min" else "ElexModel.rmin"
            return f"({f} {self._num(self._e(n.func.value))} {self._e(n.keywords[0].value)})"
        if isinstance(n, ast.Call) and ast.unparse(n.func) == "np.isclose" and len(n.args) == 2 and not n.keywords:
            return f"(decide ({self._e(n.args[0])} = {self._e(n.args[1])}))"
        return super()._e(n)


def _nonreporting_bounds_defs():
    """BootstrapElectionModel._generate_nonreporting_bounds: the clip bounds of a nonreporting unit's normalised margin / turnout
    factor as functions of its expected-vote percentage and its partial observation (both branches of the estimand switch)"""
    src, tree = _parse("models/BootstrapElectionModel.py")
    fn = _find(tree, "BootstrapElectionModel", "_generate_nonreporting_bounds")
    out = []
    leaves = {"nonreporting_units.percent_expected_vote.values": "pev", "nonreporting_units[bootstrap_estimand]": "obs",
              "self.y_unobserved_upper_bound": "ub", "self.y_unobserved_lower_bound": "lb", "self.z_unobserved_upper_bound": "ub",
              "self.z_unobserved_lower_bound": "lb", "self.percent_expected_vote_error_bound": "eb"}
    tests = [ast.unparse(n.test) for n in ast.walk(fn) if isinstance(n, ast.If)]
    want = ["bootstrap_estimand == 'results_normalized_margin'", "bootstrap_estimand == 'turnout_factor'"]
    if tests != want:
        raise TranslateError("_generate_nonreporting_bounds: estimand switch " + repr(tests))
    for k, (tag, params) in enumerate((("y", [("pev", "Rat"), ("obs", "Rat"), ("lb", "Rat"), ("ub", "Rat")]),
                                       ("z", [("pev", "Rat"), ("obs", "Rat"), ("eb", "Rat"), ("lb", "Rat"), ("ub", "Rat")]))):
        env = dict(leaves)
        for j, t in enumerate(want):
            env[t] = "true" if j == k else "false"
        fl = _BoundsFlow(src, env)
        fl.run(fn.body)
        if fl.ret is None or not isinstance(fl.ret, ast.Tuple) or len(fl.ret.elts) != 2:
            raise TranslateError("_generate_nonreporting_bounds: return (lower, upper)")
        out.append(lean_def(f"{tag}_lower_bound", params, "Rat", "  " + fl.final(fl.value(fl.ret.elts[0]))))
        out.append(lean_def(f"{tag}_upper_bound", params, "Rat", "  " + fl.final(fl.value(fl.ret.elts[1]))))
    return out


class _ClipFlow(_BoundsFlow):
    """_BoundsFlow + two-sided `x.clip(min=a, max=b)` (numpy: `minimum(maximum(x, a), b)`), tuple / subscript assignment targets poison
    the names they touch, `x.mean(axis=1)` of a translated per-draw term is a named leaf (the skeleton `ClipStage` in Props/C06 takes the
    mean over the draws), and a poisoned name that is the receiver of a two-sided clip is read as a fresh universally quantified leaf
    (whatever the statements before did to it, the clip bounds it)."""

    FRESH = {"y_test_pred_B": "yPre"}
    MEANS = {}

    def _targets(self, st):
        ts = []
        raw = st.targets if isinstance(st, ast.Assign) else [st.target] if isinstance(st, ast.AugAssign) else []
        for t in raw:
            for e in (t.elts if isinstance(t, ast.Tuple) else [t]):
                while isinstance(e, ast.Subscript):
                    e = e.value
                ts.append(ast.unparse(e))
        return ts

    def run(self, stmts):
        for st in stmts:
            # subscripted / tuple targets: poison the base names (the parent class would only handle plain names)
            if isinstance(st, (ast.Assign, ast.AugAssign)):
                tg = st.targets[0] if isinstance(st, ast.Assign) else st.target
                if isinstance(tg, (ast.Tuple, ast.Subscript)) and not (isinstance(tg, ast.Subscript) and isinstance(st, ast.Assign)
                                                                         and self.env.get(ast.unparse(tg.value)) is not None):
                    for t in self._targets(st):
                        self.env[t] = None
                    continue
            if (isinstance(st, ast.Assign) and isinstance(st.value, ast.Call) and isinstance(st.value.func, ast.Attribute)
                    and st.value.func.attr == "clip" and isinstance(st.value.func.value, ast.Name)
                    and st.value.func.value.id in self.FRESH and self.env.get(st.value.func.value.id) is None
                    and sorted(k.arg for k in st.value.keywords) == ["max", "min"]):
                self.env[st.value.func.value.id] = self.FRESH[st.value.func.value.id]
            Flow.run(self, [st])
            if getattr(self, "ret", None) is not None:
                return

    def _e(self, n):
        if (isinstance(n, ast.Call) and isinstance(n.func, ast.Attribute) and n.func.attr == "clip" and not n.args
                and sorted(k.arg for k in n.keywords) == ["max", "min"]):
            kw = {k.arg: k.value for k in n.keywords}
            return f"(ElexModel.rmin (ElexModel.rmax {self._num(self._e(n.func.value))} {self._e(kw['min'])}) {self._e(kw['max'])})"
        if (isinstance(n, ast.Call) and isinstance(n.func, ast.Attribute) and n.func.attr == "mean" and not n.args
                and [(k.arg, ast.unparse(k.value)) for k in n.keywords] == [("axis", "1")]):
            inner = self._e(n.func.value)
            if inner not in self.MEANS:
                raise TranslateError("mean over the draws of an unexpected term: " + ast.unparse(n))
            return self.MEANS[inner]
        return super()._e(n)


def _clip_stage_defs():
    """the tail of BootstrapElectionModel.compute_bootstrap_errors, from the clipped turnout-factor draws to the six arrays the model
    keeps: per unit and draw, as functions of the raw draws (`zRaw`, `yPre`: whatever the statements before the last clip computed), the
    unit's clip bounds, its weight, the means over the draws (`yBar`, `zBar`) and the sampled residuals (`ry`, `rz`)"""
    src, tree = _parse("models/BootstrapElectionModel.py")
    fn = _find(tree, "BootstrapElectionModel", "compute_bootstrap_errors")
    start = [i for i, st in enumerate(fn.body) if isinstance(st, ast.Assign) and ast.unparse(st.targets[0]) == "z_test_pred_B"]
    if len(start) != 1:
        raise TranslateError("compute_bootstrap_errors: z_test_pred_B is assigned %d times" % len(start))
    leaves = {"ols_z_B.predict(x_test) + aggregate_indicator_test @ epsilon_z_hat_B": "zRaw",
              "y_partial_reporting_lower": "yl", "y_partial_reporting_upper": "yu", "z_partial_reporting_lower": "zl",
              "z_partial_reporting_upper": "zu", "weights_test": "w", "y_test_pred_B": None}
    fl = _ClipFlow(src, leaves)
    yclip = "(ElexModel.rmin (ElexModel.rmax yPre yl) yu)"
    zclip = "(ElexModel.rmin (ElexModel.rmax zRaw zl) zu)"
    fl.MEANS = {yclip: "yBar", zclip: "zBar"}
    body = list(fn.body[start[0]:])
    # the residuals come from one call whose results are leaves
    for st in body:
        if isinstance(st, ast.Assign) and isinstance(st.targets[0], ast.Tuple) and ast.unparse(st.targets[0]) == "(test_residuals_y, test_residuals_z)":
            if not ast.unparse(st.value).startswith("self._sample_test_errors("):
                raise TranslateError("compute_bootstrap_errors: test residuals come from " + ast.unparse(st.value)[:60])
            body[body.index(st)] = ast.parse("test_residuals_y = RY\ntest_residuals_z = RZ").body
    flat = []
    for st in body:
        flat.extend(st if isinstance(st, list) else [st])
    fl.env.update({"RY": "ry", "RZ": "rz"})
    fl.run(flat)
    want = {"self.errors_B_1": [("yPre", "Rat"), ("zRaw", "Rat")], "self.errors_B_2": [("yBar", "Rat"), ("zBar", "Rat"), ("ry", "Rat"), ("rz", "Rat")],
            "self.errors_B_3": [("zRaw", "Rat")], "self.errors_B_4": [("zBar", "Rat"), ("rz", "Rat")],
            "self.weighted_yz_test_pred": [("yBar", "Rat"), ("zBar", "Rat")], "self.weighted_z_test_pred": [("zBar", "Rat")]}
    common = [("yl", "Rat"), ("yu", "Rat"), ("zl", "Rat"), ("zu", "Rat"), ("w", "Rat")]
    out = []
    for k, ps in want.items():
        if fl.env.get(k) is None:
            raise TranslateError("compute_bootstrap_errors: " + k + " is outside the translated subset")
        out.append(lean_def("clip_" + k.split(".")[1], ps + common, "Rat", "  " + fl.final(fl.env[k])))
    for k, nm in (("y_test_pred_B", "clip_y_draw"), ("z_test_pred_B", "clip_z_draw")):
        if fl.env.get(k) is None:
            raise TranslateError("compute_bootstrap_errors: " + k)
    out.append(lean_def("clip_y_draw", [("yPre", "Rat"), ("yl", "Rat"), ("yu", "Rat")], "Rat", "  " + fl.final(fl.env["y_test_pred_B"])))
    out.append(lean_def("clip_z_draw", [("zRaw", "Rat"), ("zl", "Rat"), ("zu", "Rat")], "Rat", "  " + fl.final(fl.env["z_test_pred_B"])))
    # where the bounds and the weights come from
    out.append(_strlist("clip_bounds_from", [ast.unparse(assigned_expr(fn, "(y_partial_reporting_lower, y_partial_reporting_upper)")),
                                             ast.unparse(assigned_expr(fn, "(z_partial_reporting_lower, z_partial_reporting_upper)")),
                                             ast.unparse(assigned_expr(fn, "weights_test"))]))
    return out


def _boot_agg_defs():
    """bootstrap aggregate formulas with the indicator-matrix products as leaves"""
    src, tree = _parse("models/BootstrapElectionModel.py")
    out = []
    gi = _find(tree, "BootstrapElectionModel", "get_aggregate_prediction_intervals")
    leaves = {"aggregate_indicator_unexpected.T @ turnout_unexpected": "zU", "aggregate_indicator_unexpected.T @ margin_unexpected": "yzU",
              "aggregate_indicator_train.T @ (weights_train * z_train)": "zT", "aggregate_indicator_train.T @ (weights_train * yz_train)": "yzT",
              "aggregate_indicator_test.T @ self.errors_B_1": "e1", "aggregate_indicator_test.T @ self.errors_B_2": "e2",
              "aggregate_indicator_test.T @ self.errors_B_3": "e3", "aggregate_indicator_test.T @ self.errors_B_4": "e4",
              "aggregate_indicator_test.T @ self.weighted_z_test_pred": "zN", "aggregate_indicator_test.T @ self.weighted_yz_test_pred": "yzN",
              "self._is_top_level_aggregate(aggregate)": "(B: top)", "self.aggregate_pred_margin": "reported"}
    fl = NFlow(src, leaves)
    fl.run([s for s in gi.body if not isinstance(s, ast.Return)])
    for k in ("error_diff", "aggregate_perc_margin_total", "aggregate_z_total", "divided_error_B_1", "divided_error_B_2"):
        if fl.env.get(k) is None:
            raise TranslateError("get_aggregate_prediction_intervals: " + k)
    ps = [("zU", "Rat"), ("yzU", "Rat"), ("zT", "Rat"), ("yzT", "Rat"), ("e1", "Rat"), ("e2", "Rat"), ("e3", "Rat"), ("e4", "Rat")]
    out.append(lean_def("error_diff", ps, "Rat", "  " + fl.final(fl.env["error_diff"])))
    out.append(lean_def("interval_centre", [("top", "Bool"), ("reported", "Rat"), ("zU", "Rat"), ("yzU", "Rat"), ("zT", "Rat"), ("yzT", "Rat"),
                                            ("zN", "Rat"), ("yzN", "Rat")], "Rat", "  " + fl.final(fl.env["aggregate_perc_margin_total"])))
    # the draws the national summary reads are stored for top-level aggregates only
    stores = [ast.unparse(n.test) + ": " + "; ".join(ast.unparse(s) for s in n.body) for n in gi.body if isinstance(n, ast.If)
              and any("self.divided_error_B_1" in ast.unparse(s) for s in n.body)]
    out.append(_strlist("draws_stored", stores))
    gp = _find(tree, "BootstrapElectionModel", "get_aggregate_predictions")
    leaves2 = {"aggregate_indicator_unexpected.T @ turnout_unexpected": "zU", "aggregate_indicator_train.T @ (weights_train * z_train)": "zT",
               "aggregate_indicator_test.T @ self.weighted_z_test_pred": "zN", "raw_margin_df.pred_margin": "predSum",
               "raw_margin_df.results_margin": "resSum"}
    fl2 = NFlow(src, leaves2)
    fl2.run([s for s in gp.body if not isinstance(s, (ast.Return, ast.If))])
    if fl2.env.get("aggregate_z_total") is None:
        raise TranslateError("get_aggregate_predictions: aggregate_z_total")
    out.append(lean_def("pred_turnout", [("zU", "Rat"), ("zT", "Rat"), ("zN", "Rat")], "Rat", "  " + fl2.final(fl2.env["aggregate_z_total"])))
    for col, nm, arg in (("raw_margin_df['pred_margin']", "pred_margin", "predSum"), ("raw_margin_df['results_margin']", "results_margin", "resSum")):
        if fl2.env.get(col) is None:
            raise TranslateError("get_aggregate_predictions: " + col)
        out.append(lean_def(nm, [(arg, "Rat"), ("zU", "Rat"), ("zT", "Rat"), ("zN", "Rat")], "Rat", "  " + fl2.final(fl2.env[col])))
    out.append(_strlist("pred_turnout_column", [ast.unparse(fl2_t) for fl2_t in [assigned_expr(gp, "raw_margin_df['pred_turnout']")]]))
    out.append(_strlist("raw_sums", [ast.unparse(assigned_expr(gp, "raw_margin_df"))]))
    return out


def _nth_assigned(fn, target, func_prefix):
    for node in ast.walk(fn):
        if (
            isinstance(node, ast.Assign)
            and len(node.targets) == 1
            and ast.unparse(node.targets[0]) == target
            and isinstance(node.value, ast.Call)
            and ast.unparse(node.value.func) == func_prefix
        ):
            return node.value
    raise TranslateError(f"{target} = {func_prefix}(...) not found in {fn.name}")


def gen_C07():
    src, tree = _parse("models/BootstrapElectionModel.py")
    out = []
    init = _find(tree, "BootstrapElectionModel", "__init__")
    tr = Tr(src, {})
    out.append(lean_def("lhs_called_threshold", [], "Rat", "  " + tr.expr(assigned_expr(init, "self.lhs_called_threshold"))))
    out.append(lean_def("rhs_called_threshold", [], "Rat", "  " + tr.expr(assigned_expr(init, "self.rhs_called_threshold"))))
    fn = _find(tree, "BootstrapElectionModel", "_is_top_level_aggregate")
    tr = Tr(src, {"aggregate": "aggregate"})
    out.append(lean_def("is_top_level_aggregate", [("aggregate", "List String")], "Bool", tr.body(fn)))
    # _adjust_called_contests: masked maximum / minimum
    fn = _find(tree, "BootstrapElectionModel", "_adjust_called_contests")
    fl = NFlow(src, {"to_call.copy()": "pred", "to_call": "pred", "np.isclose(called_contests, 1)": "(B: isLhs)",
                     "np.isclose(called_contests, 0)": "(B: isRhs)", "self.lhs_called_threshold": "lhsT", "self.rhs_called_threshold": "rhsT"})
    fl.run(fn.body)
    if fl.ret is None:
        raise TranslateError("_adjust_called_contests: return")
    cp = [("pred", "Rat"), ("isLhs", "Bool"), ("isRhs", "Bool"), ("lhsT", "Rat"), ("rhsT", "Rat")]
    out.append(lean_def("adjust_called", cp, "Rat", "  " + fl.final(fl.value(fl.ret))))
    # the overrides of get_aggregate_prediction_intervals (top-level branch): called contests, then the stop list
    fn = _find(tree, "BootstrapElectionModel", "get_aggregate_prediction_intervals")
    tops = [n for n in fn.body if isinstance(n, ast.If) and ast.unparse(n.test) == "self._is_top_level_aggregate(aggregate)"]
    if not tops or not isinstance(fn.body[-1], ast.Return) or fn.body[-2] is not tops[-1]:
        raise TranslateError("get_aggregate_prediction_intervals: the race-call block must be the last statement before the return")
    fmt_stop = "self._format_called_contests(stop_model_call, [], contests, True, None, False).reshape(-1, 1)"
    fl = NFlow(src, {"interval_lower": "lo", "interval_upper": "hi", "np.isclose(self.called_contests, 1)": "(B: isLhs)",
                     "np.isclose(self.called_contests, 0)": "(B: isRhs)", fmt_stop: "(B: stop)",
                     "self.lhs_called_threshold": "lhsT", "self.rhs_called_threshold": "rhsT"})
    fl.run(tops[-1].body)
    ip = [("lo", "Rat"), ("hi", "Rat"), ("isLhs", "Bool"), ("isRhs", "Bool"), ("stop", "Bool"), ("lhsT", "Rat"), ("rhsT", "Rat")]
    for nm in ("interval_lower", "interval_upper"):
        if fl.env.get(nm) is None:
            raise TranslateError(f"get_aggregate_prediction_intervals: {nm}")
    out.append(lean_def("override_lower", ip, "Rat", "  " + fl.final(fl.env["interval_lower"])))
    out.append(lean_def("override_upper", ip, "Rat", "  " + fl.final(fl.env["interval_upper"])))
    out.append(_strlist("interval_returned", [ast.unparse(fn.body[-1].value)]))
    out.append(_strlist("format_calls", [ast.unparse(n) for n in ast.walk(tops[-1]) if isinstance(n, ast.Call)
                                         and ast.unparse(n.func) == "self._format_called_contests"]))
    out.append(_strlist("state_written", sorted({ast.unparse(t) for n in ast.walk(tops[-1]) if isinstance(n, ast.Assign)
                                                 for t in n.targets if ast.unparse(t).startswith("self.")})))
    return out


def gen_C14():
    out = []
    src, tree = _parse("models/NonparametricElectionModel.py")
    fn = _find(tree, "NonparametricElectionModel", "get_minimum_reporting_units")
    out.append(lean_def("np_min_units", [("alpha", "Rat")], "Rat", Tr(src, {"alpha": "alpha"}).body(fn)))
    fn = _find(tree, "NonparametricElectionModel", "_compute_conf_frac")
    out.append(lean_def("np_conf_frac", [("n", "Rat"), ("alpha", "Rat")], "Rat",
                        Tr(src, {"alpha": "alpha", "n_reporting_units": "n"}).body(fn)))
    fn = _find(tree, "NonparametricElectionModel", "get_unit_prediction_intervals")
    tr = Tr(src, {"alpha": "alpha", "prediction_intervals.conformalization.shape[0]": "ncal"})
    out.append(lean_def("correction_quantile", [("alpha", "Rat"), ("ncal", "Rat")], "Rat",
                        "  " + tr.expr(assigned_expr(fn, "correction_quantile"))))
    src, tree = _parse("models/ConformalElectionModel.py")
    fn = _find(tree, "ConformalElectionModel", "get_unit_prediction_interval_bounds")
    tr = Tr(src, {"self.n_train": "n", "conf_frac": "cf", "alpha": "alpha"})
    out.append(lean_def("train_rows", [("n", "Rat"), ("cf", "Rat")], "Rat", "  " + tr.expr(assigned_expr(fn, "train_rows"))))
    out.append(lean_def("upper_tau", [("alpha", "Rat")], "Rat", "  " + tr.expr(assigned_expr(fn, "upper_bound"))))
    out.append(lean_def("lower_tau", [("alpha", "Rat")], "Rat", "  " + tr.expr(assigned_expr(fn, "lower_bound"))))
    src, tree = _parse("models/GaussianElectionModel.py")
    fn = _find(tree, "GaussianElectionModel", "_compute_conf_frac")
    out.append(lean_def("gauss_conf_frac", [], "Rat", Tr(src, {}).body(fn)))
    fn = _find(tree, "GaussianElectionModel", "get_minimum_reporting_units")
    out.append(lean_def("gauss_min_units", [("alpha", "Rat")], "Rat",
                        Tr(src, {"alpha": "alpha"}, calls={"self._compute_conf_frac": "gauss_conf_frac"}).body(fn)))
    src, tree = _parse("models/BaseElectionModel.py")
    fn = _find(tree, "BaseElectionModel", "get_minimum_reporting_units")
    out.append(lean_def("base_min_units", [("alpha", "Rat")], "Rat", Tr(src, {"alpha": "alpha"}).body(fn)))
    src, tree = _parse("models/BootstrapElectionModel.py")
    fn = _find(tree, "BootstrapElectionModel", "get_minimum_reporting_units")
    out.append(lean_def("boot_min_units", [("alpha", "Rat")], "Rat", Tr(src, {"alpha": "alpha"}).body(fn)))
    return out


def gen_C20():
    """the try / except structure of ConformalElectionModel.fit_model: arguments of the first solve and of the retry, exceptions caught"""
    src, tree = _parse("models/ConformalElectionModel.py")
    fn = _find(tree, "ConformalElectionModel", "fit_model")
    tries = [n for n in ast.walk(fn) if isinstance(n, ast.Try)]
    if len(tries) != 1 or len(tries[0].handlers) != 1:
        raise TranslateError("fit_model: expected exactly one try with one except clause")
    t = tries[0]

    def fit_call(stmts):
        calls = [n for st in stmts for n in ast.walk(st) if isinstance(n, ast.Call) and ast.unparse(n.func) == "model.fit"]
        if len(calls) != 1:
            raise TranslateError("fit_model: expected exactly one model.fit call per branch")
        c = calls[0]
        return [ast.unparse(a) for a in c.args], sorted((k.arg, ast.unparse(k.value)) for k in c.keywords)

    a1, k1 = fit_call(t.body)
    a2, k2 = fit_call(t.handlers[0].body)
    h = t.handlers[0].type
    caught = sorted(ast.unparse(e) for e in (h.elts if isinstance(h, ast.Tuple) else [h]))
    filt = [ast.unparse(n) for n in tree.body if isinstance(n, ast.Expr) and isinstance(n.value, ast.Call)
            and ast.unparse(n.value.func) == "warnings.filterwarnings"]

    def strs(l):
        return "[" + ", ".join('"' + x.replace('"', "'") + '"' for x in l) + "]"

    def pairs(l):
        return "[" + ", ".join(f'("{a}", "{b}")' for a, b in l) + "]"

    return [
        f"def first_args : List String := {strs(a1)}\n",
        f"def first_kw : List (String × String) := {pairs(k1)}\n",
        f"def retry_args : List String := {strs(a2)}\n",
        f"def retry_kw : List (String × String) := {pairs(k2)}\n",
        f"def caught : List String := {strs(caught)}\n",
        f"def warning_filters : List String := {strs(filt)}\n",
    ]


def fstring_components(node, env, suffix=""):
    """an f-string key template -> Lean list of path components (split at '/' at translation time)"""
    if isinstance(node, ast.Constant) and isinstance(node.value, str):
        parts = [("lit", node.value)]
    elif isinstance(node, ast.JoinedStr):
        parts = []
        for v in node.values:
            if isinstance(v, ast.Constant):
                parts.append(("lit", v.value))
            elif isinstance(v, ast.FormattedValue) and v.format_spec is None and v.conversion == -1:
                t = ast.unparse(v.value)
                if t not in env:
                    raise TranslateError(f"key template uses {t}")
                parts.append(("var", env[t]))
            else:
                raise TranslateError("key template: unsupported formatted value")
    else:
        raise TranslateError("key template is not a string")
    if suffix:
        parts.append(("lit", suffix))
    comps, cur = [], []
    for kind, v in parts:
        if kind == "var":
            cur.append(v)
        else:
            segs = v.split("/")
            for i, sg in enumerate(segs):
                if i > 0:
                    comps.append(cur)
                    cur = []
                if sg:
                    cur.append('"' + sg.replace('"', '\\"') + '"')
    comps.append(cur)
    return "[" + ", ".join(" ++ ".join(c) if c else '""' for c in comps) + "]"


def _assigned_in(fn, name, nth=0):
    found = [n for n in ast.walk(fn) if isinstance(n, ast.Assign) and len(n.targets) == 1 and ast.unparse(n.targets[0]) == name]
    found.sort(key=lambda n: n.lineno)
    if len(found) <= nth:
        raise TranslateError(f"assignment #{nth} to {name} not found in {fn.name}")
    return found[nth].value


def gen_C18():
    out = []
    env = {"S3_FILE_PATH": "root", "election_id": "eid", "office": "office", "self.geographic_unit_type": "utype",
           "geographic_unit_type": "utype", "key": "table", "estimand": "est", "aggregate_string": "lvl", "alpha": "alpha"}
    P4 = [("root", "String"), ("eid", "String"), ("office", "String"), ("utype", "String")]
    src, tree = _parse("handlers/data/CombinedData.py")
    fn = _find(tree, "CombinedDataHandler", "write_data")
    out.append(lean_def("live_key", P4, "List String", "  " + fstring_components(_assigned_in(fn, "path", 0), env)))
    out.append(lean_def("live_counties_key", P4, "List String", "  " + fstring_components(_assigned_in(fn, "path", 1), env)))
    src, tree = _parse("handlers/data/ModelResults.py")
    fn = _find(tree, "ModelResultsHandler", "write_data")
    out.append(lean_def("prediction_key", P4 + [("table", "String")], "List String",
                        "  " + fstring_components(_assigned_in(fn, "path", 0), env)))
    src, tree = _parse("distributions/GaussianModel.py")
    P7 = P4 + [("est", "String"), ("lvl", "String"), ("alpha", "String")]
    fn = _find(tree, "GaussianModel", "_write_conformalization_data")
    out.append(lean_def("gauss_conf_key", P7, "List String", "  " + fstring_components(_assigned_in(fn, "path", 0), env, ".csv")))
    fn = _find(tree, "GaussianModel", "_write_gaussian_bounds")
    out.append(lean_def("gauss_bounds_key", P7, "List String", "  " + fstring_components(_assigned_in(fn, "path", 0), env, ".csv")))
    # the guard of the gaussian writes
    fn = _find(tree, "GaussianModel", "fit")
    guards = [n for n in ast.walk(fn) if isinstance(n, ast.If) and "_write_conformalization_data" in ast.unparse(n)]
    if len(guards) != 1:
        raise TranslateError("GaussianModel.fit: write guard not found")
    tr = Tr(src, {"top_level": "top_level", "aggregate": "aggregate_nonempty", "self.save_conformalization": "save_conf"})
    out.append(lean_def("gauss_write_guard", [("top_level", "Bool"), ("aggregate_nonempty", "Bool"), ("save_conf", "Bool")], "Bool",
                        "  " + tr.expr(guards[0].test)))
    # client: flags, guards and the position of the live-results write relative to the gate
    src, tree = _parse("client.py")
    fn = _find(tree, "ModelClient", "get_estimates")
    tr = Tr(src, {})
    default = _assigned_in(fn, "save_output", 0)
    if not (isinstance(default, ast.Call) and ast.unparse(default.func) == "kwargs.get" and len(default.args) == 2):
        raise TranslateError("save_output default")
    dl = default.args[1]
    if not isinstance(dl, ast.List):
        raise TranslateError("save_output default is not a list")
    out.append("def save_output_default : List String := [" + ", ".join(tr.expr(e) for e in dl.elts) + "]\n")
    tr = Tr(src, {"save_output": "save_output"})
    for name, target in (("flag_results", "self.save_results"), ("flag_data", "save_data"), ("flag_config", "save_config"),
                         ("flag_conformalization", "save_conformalization")):
        out.append(lean_def(name, [("save_output", "List String")], "Bool", "  " + tr.expr(_assigned_in(fn, target, 0))))
    ifs = [n for n in fn.body if isinstance(n, ast.If)]
    live = [n for n in ifs if "data.write_data" in ast.unparse(n)]
    final = [n for n in ifs if "self.results_handler.write_data" in ast.unparse(n)]
    gate = [n for n in ifs if "ModelNotEnoughSubunitsException" in ast.unparse(n)]
    if len(live) != 1 or len(final) != 1 or len(gate) != 1:
        raise TranslateError("get_estimates: write / gate statements not found at top level")
    trg = Tr(src, {"APP_ENV != 'local'": "(!is_local)", "self.save_results": "save_results"})
    for name, node in (("live_guard", live[0]), ("final_guard", final[0])):
        out.append(lean_def(name, [("is_local", "Bool"), ("save_results", "Bool")], "Bool", "  " + trg.expr(node.test)))
    out.append(f"def live_before_gate : Bool := {'true' if live[0].lineno < gate[0].lineno else 'false'}\n")
    out.append(f"def final_after_gate : Bool := {'true' if final[0].lineno > gate[0].lineno else 'false'}\n")
    # what "local" means: the module-level reading of the environment (no default: an unset APP_ENV is not "local")
    src, tree = _parse("utils/file_utils.py")
    envs = [ast.unparse(n.value) for n in tree.body if isinstance(n, ast.Assign) and ast.unparse(n.targets[0]) == "APP_ENV"]
    out.append(_strlist("app_env_source", envs))
    # S3Util.put: an unacknowledged put raises (and nothing in get_estimates catches it)
    src, tree = _parse("handlers/s3.py")
    fn = _find(tree, "S3Util", "put")
    last = fn.body[-1]
    if isinstance(last, ast.If) and last.orelse:
        shape = [ast.unparse(last.test), type(last.orelse[-1]).__name__]
    else:
        shape = [type(last).__name__, ast.unparse(last)[:80]]
    out.append(_strlist("put_ack_shape", shape))
    src, tree = _parse("client.py")
    fn = _find(tree, "ModelClient", "get_estimates")
    out.append(f"def client_catches : Nat := {sum(isinstance(n, ast.Try) for n in ast.walk(fn))}\n")
    return out


def gen_C10():
    """the masking of historical results of units that are not yet reporting (HistoricalModelClient._format_historical_current_data)"""
    src, tree = _parse("client.py")
    fn = _find(tree, "HistoricalModelClient", "_format_historical_current_data")
    wheres = [n for n in ast.walk(fn) if isinstance(n, ast.Call) and ast.unparse(n.func) == "np.where"]
    if len(wheres) != 1:
        raise TranslateError("_format_historical_current_data: expected exactly one np.where")
    tr = Tr(src, {"x.percent_expected_vote": "pev", "percent_reporting_threshold": "thr", "x[column_name]": "v"})
    return [lean_def("hist_mask", [("pev", "Rat"), ("thr", "Rat"), ("v", "Rat")], "Rat", "  " + tr.expr(wheres[0]))]


def gen_C12():
    """every source of randomness reachable from an estimate run, with whether it is seeded from a setting; AGGREGATE_ORDER"""
    files = ["client.py", "models/BaseElectionModel.py", "models/ConformalElectionModel.py", "models/NonparametricElectionModel.py",
             "models/GaussianElectionModel.py", "models/BootstrapElectionModel.py", "distributions/GaussianModel.py",
             "utils/math_utils.py", "handlers/data/CombinedData.py", "handlers/data/Featurizer.py", "handlers/data/Estimandizer.py",
             "handlers/data/ModelResults.py"]
    sites = []
    for rel in files:
        src, tree = _parse(rel)
        for n in ast.walk(tree):
            if not isinstance(n, ast.Call):
                continue
            f = ast.unparse(n.func)
            kws = {k.arg: ast.unparse(k.value) for k in n.keywords if k.arg}
            kind = None
            recv = f.rsplit(".", 1)[0] if "." in f else ""
            attr = f.rsplit(".", 1)[-1]
            if f.endswith(".sample") and ("frac" in kws or "n" in kws):
                kind = "DataFrame.sample"
            elif f == "bootstrap" or f.endswith(".bootstrap"):
                kind = "scipy.stats.bootstrap"
            elif f in ("np.random.default_rng", "default_rng"):
                kind = "default_rng"
            elif f.startswith("np.random.") or f.startswith("random."):
                kind = f
            elif attr == "rvs":
                kind = "scipy rvs"  # a frozen scipy distribution: draws from numpy's global generator unless random_state is given
            elif recv in ("self.rng", "rng") and attr in ("normal", "choice", "shuffle", "multivariate_normal", "uniform", "integers",
                                                           "permutation", "random", "standard_normal", "permuted"):
                kind = "generator." + attr  # a draw from the model's own generator (itself a seeded default_rng site)
            if kind is None:
                continue
            if kind == "default_rng":
                seed = kws.get("seed") or (ast.unparse(n.args[0]) if n.args else None)
            elif kind.startswith("generator."):
                seed = recv
            else:
                seed = kws.get("random_state") or kws.get("seed") or kws.get("rng")
            seeded = seed is not None and seed != "None"
            sites.append((f"{rel}:{kind}", seeded, seed or ""))
    src, tree = _parse("utils/constants.py")
    order = None
    for n in tree.body:
        if isinstance(n, ast.Assign) and ast.unparse(n.targets[0]) == "AGGREGATE_ORDER" and isinstance(n.value, ast.List):
            order = [e.value for e in n.value.elts]
    if order is None:
        raise TranslateError("AGGREGATE_ORDER")
    # the module-level generator pattern: a generator created outside any function
    module_level = []
    for rel in files:
        src, tree = _parse(rel)
        for n in tree.body:
            if isinstance(n, (ast.Assign, ast.Expr)) and any(isinstance(c, ast.Call) and "random" in ast.unparse(c.func) for c in ast.walk(n)):
                module_level.append(rel)
    # client state: what persists on the client (set in __init__) and what every estimate call sets anew before it is read
    src, tree = _parse("client.py")
    init = _find(tree, "ModelClient", "__init__")
    ge = _find(tree, "ModelClient", "get_estimates")
    persistent = sorted({ast.unparse(t) for n in ast.walk(init) if isinstance(n, ast.Assign) for t in n.targets if ast.unparse(t).startswith("self.")})
    per_call = []
    for n in ast.walk(ge):
        if isinstance(n, ast.Assign):
            for t in n.targets:
                tt = ast.unparse(t)
                if tt.startswith("self.") and "[" not in tt:
                    v = ast.unparse(n.value).replace("\n", " ")
                    per_call.append(f"{tt} = {v.split('(')[0] + '(…)' if '(' in v else v}")
    seen_pc = []
    for x in per_call:
        if x not in seen_pc:
            seen_pc.append(x)
    # a model object also holds a generator: where it is created
    src2, tree2 = _parse("models/BootstrapElectionModel.py")
    gens = []
    for cls_node in tree2.body:
        if isinstance(cls_node, ast.ClassDef):
            for fn_ in cls_node.body:
                if isinstance(fn_, ast.FunctionDef):
                    for n in ast.walk(fn_):
                        if isinstance(n, ast.Assign) and any(ast.unparse(t) == "self.rng" for t in n.targets):
                            gens.append(f"{cls_node.name}.{fn_.name}: self.rng = {ast.unparse(n.value)}")
    # buffers whose content is whatever the allocator hands back: np.empty / np.empty_like / np.ndarray(shape), and ufunc calls that
    # write only `where=` a mask is true into such a buffer (or into none)
    uninit = []
    for rel in files + ["handlers/data/VersionedData.py", "handlers/data/LiveData.py", "handlers/data/PreprocessedData.py"]:
        src_u, tree_u = _parse(rel)
        for n in ast.walk(tree_u):
            if not isinstance(n, ast.Call):
                continue
            f = ast.unparse(n.func)
            kws = {k.arg: ast.unparse(k.value) for k in n.keywords if k.arg}
            if f in ("np.empty", "np.empty_like", "numpy.empty", "numpy.empty_like", "np.ndarray"):
                uninit.append(f"{rel}:{f}")
            elif "where" in kws and f.startswith("np.") and ("out" not in kws or "empty" in kws["out"]):
                uninit.append(f"{rel}:{f}(where=) without an initialised out=")
    out = [_strlist("uninitialised_buffers", uninit)]
    out += ["def random_sites : List (String × Bool) := [" + ", ".join(f'("{a}", {"true" if b else "false"})' for a, b, _ in sites) + "]\n",
           "def seed_expressions : List String := [" + ", ".join('"' + c.replace('"', "'") + '"' for _, _, c in sites) + "]\n",
           "def module_level_generators : List String := [" + ", ".join(f'"{m}"' for m in module_level) + "]\n",
           "def aggregate_order : List String := [" + ", ".join(f'"{o}"' for o in order) + "]\n",
           _strlist("client_persistent_state", persistent), _strlist("client_set_per_call", seen_pc), _strlist("generator_created", gens)]
    return out


def gen_C08():
    """get_national_summary_estimates in the default mode (hard threshold, perfect correlation), per contest"""
    src, tree = _parse("models/BootstrapElectionModel.py")
    fn = _find(tree, "BootstrapElectionModel", "get_national_summary_estimates")
    env = {"self.hard_threshold": "true", "self.national_summary_correlation": "true", "self.called_contests is not None": "true",
           "self.stop_model_call is not None": "true", "nat_sum_data_dict is None": "false",
           "len(nat_sum_data_dict) != self.divided_error_B_1.shape[0]": "false",
           "self.aggregate_pred_margin": "pred", "lower_q": "lq", "base_to_add": "base",
           "np.mean(agg_pred_margin_dist > 0, axis=1)": "fracPos", "np.mean(agg_pred_margin_dist < 0, axis=1)": "fracNeg",
           "np.isclose(self.called_contests.flatten(), -1)": "(B: uncalled)", "self.stop_model_call.flatten()": "(B: stop)",
           "np.sum(nat_sum_data_dict_sorted_vals * aggregate_dem_probs_total)": "vp",
           "np.sum(nat_sum_data_dict_sorted_vals.flatten() * potential_losses)": "sumLoss",
           "np.sum(nat_sum_data_dict_sorted_vals.flatten() * potential_gains)": "sumGain",
           "nat_sum_data_dict_sorted_vals": "w"}
    fl = NFlow(src, env)
    fl.run(fn.body)
    need = ["pred_states", "potential_losses", "potential_gains", "agg_pred", "agg_lower", "agg_upper"]
    for k in need:
        if fl.env.get(k) is None:
            raise TranslateError(f"get_national_summary_estimates: {k}")
    cp = [("pred", "Rat"), ("fracPos", "Rat"), ("fracNeg", "Rat"), ("lq", "Rat"), ("uncalled", "Bool"), ("stop", "Bool")]
    out = [lean_def("pred_state", [("pred", "Rat")], "Rat", "  " + fl.final(fl.env["pred_states"])),
           lean_def("potential_loss", cp, "Rat", "  " + fl.final(fl.env["potential_losses"])),
           lean_def("potential_gain", cp, "Rat", "  " + fl.final(fl.env["potential_gains"])),
           lean_def("agg_pred", [("vp", "Rat"), ("base", "Rat")], "Rat", "  " + fl.final(fl.env["agg_pred"])),
           lean_def("agg_lower", [("vp", "Rat"), ("sumLoss", "Rat"), ("base", "Rat")], "Rat", "  " + fl.final(fl.env["agg_lower"])),
           lean_def("agg_upper", [("vp", "Rat"), ("sumGain", "Rat"), ("base", "Rat")], "Rat", "  " + fl.final(fl.env["agg_upper"]))]
    tr = Tr(src, {"self.aggregate_pred_margin": "pred", "self.divided_error_B_1": "d1", "self.divided_error_B_2": "d2"})
    out.append(lean_def("pred_margin_draw", [("pred", "Rat"), ("d1", "Rat"), ("d2", "Rat")], "Rat",
                        "  " + tr.expr(assigned_expr(fn, "agg_pred_margin_dist"))))
    if fl.ret is None:
        raise TranslateError("get_national_summary_estimates: return")
    # the independent-contests mode (national_summary_correlation = False): the states of the two quantile realisations are leaves
    env2 = dict(env)
    env2["self.national_summary_correlation"] = "false"
    env2["lower_states"] = "(B: lowS)"
    env2["upper_states"] = "(B: upS)"
    fl2 = NFlow(src, env2)
    fl2.run(fn.body)
    for k in ("potential_losses", "potential_gains"):
        if fl2.env.get(k) is None:
            raise TranslateError(f"get_national_summary_estimates (independent contests): {k}")
    cp2 = [("pred", "Rat"), ("lowS", "Bool"), ("upS", "Bool"), ("uncalled", "Bool"), ("stop", "Bool")]
    out.append(lean_def("potential_loss_independent", cp2, "Rat", "  " + fl2.final(fl2.env["potential_losses"])))
    out.append(lean_def("potential_gain_independent", cp2, "Rat", "  " + fl2.final(fl2.env["potential_gains"])))
    out.append(_strlist("returned", [ast.unparse(assigned_expr(fn, "national_summary_estimates"))]))
    out.append(_strlist("weights_matching", [ast.unparse(assigned_expr(fn, "nat_sum_data_dict_sorted")),
                                             ast.unparse(assigned_expr(fn, "nat_sum_data_dict_sorted_vals"))]))
    size_tests = [ast.unparse(n.test) for n in fn.body if isinstance(n, ast.If) and any(isinstance(s, ast.Raise) for s in n.body)]
    out.append(_strlist("size_check", size_tests))
    # what the summary reads from the model object, and where those attributes are written
    reads = sorted({ast.unparse(n) for n in ast.walk(fn) if isinstance(n, ast.Attribute) and isinstance(n.value, ast.Name)
                    and n.value.id == "self" and not isinstance(n.ctx, ast.Store)} - {"self._get_quantiles"})
    out.append(_strlist("state_read", reads))
    return out


def _mask_of(fn, target, nth=0):
    """the boolean mask `frame[mask]` on the right-hand side of the nth assignment to `target` (looking through .reset_index / .copy)"""
    k = 0
    for n in ast.walk(fn):
        if isinstance(n, ast.Assign) and len(n.targets) == 1 and ast.unparse(n.targets[0]) == target:
            v = n.value
            while isinstance(v, ast.Call) and isinstance(v.func, ast.Attribute) and v.func.attr in ("reset_index", "copy"):
                v = v.func.value
            if isinstance(v, ast.Subscript):
                if k == nth:
                    return v.slice
                k += 1
    raise TranslateError(f"{fn.name}: mask of {target} #{nth}")


def _units_defs():
    src, tree = _parse("handlers/data/CombinedData.py")
    gu = _find(tree, "CombinedDataHandler", "get_units")
    nm = _find(tree, "CombinedDataHandler", "_get_non_modeled_units")
    out = []
    fl = NFlow(src, {"self.data.percent_expected_vote": "pev", "percent_reporting_threshold": "thr"})
    out.append(lean_def("is_reporting", [("pev", "Rat"), ("thr", "Rat")], "Bool", "  " + fl.final(fl.expr(_mask_of(gu, "reporting_units")))))
    out.append(lean_def("is_nonreporting", [("pev", "Rat"), ("thr", "Rat")], "Bool", "  " + fl.final(fl.expr(_mask_of(gu, "nonreporting_units")))))
    fl = NFlow(src, {"reporting_units.turnout_factor": "tf", "turnout_factor_lower": "lo", "turnout_factor_upper": "hi"})
    out.append(lean_def("strange_turnout_factor", [("tf", "Rat"), ("lo", "Rat"), ("hi", "Rat")], "Bool",
                        "  " + fl.final(fl.expr(_mask_of(nm, "units_with_strange_turnout_factor")))))
    fl = NFlow(src, {"self.data['geographic_unit_fips'].isin(unit_blocklist)": "(B: inUnitList)",
                     "self.data['postal_code'].isin(postal_code_blocklist)": "(B: inStateList)"})
    out.append(lean_def("blocklisted", [("inUnitList", "Bool"), ("inStateList", "Bool")], "Bool",
                        "  " + fl.final(fl.expr(_mask_of(nm, "units_blocklisted")))))
    tr = Tr(src, {"reporting_units[f'results_{estimand}']": "res", "reporting_units[f'last_election_results_{estimand}']": "last"})
    out.append(lean_def("residual", [("res", "Rat"), ("last", "Rat")], "Rat", "  " + tr.expr(assigned_expr(gu, "reporting_units[f'residuals_{estimand}']"))))
    # concatenation order of the non-modelled frames (drop_duplicates keeps the first) and their categories
    order = [e.id for e in assigned_expr(nm, "non_modeled_units_list").elts]
    cats = []
    for n in ast.walk(nm):
        if isinstance(n, ast.Call) and ast.unparse(n.func) == "non_modeled_units_list.append":
            order.append(ast.unparse(n.args[0]))
    for fn in (nm, gu, _find(tree, "CombinedDataHandler", "_get_unexpected_units")):
        for n in ast.walk(fn):
            if isinstance(n, ast.Assign) and ast.unparse(n.targets[0]).endswith("['unit_category']") and isinstance(n.value, ast.Constant):
                cats.append(ast.unparse(n.targets[0]).split("[")[0] + " -> " + n.value.value)
    out.append(_strlist("non_modeled_order", order))
    out.append(_strlist("categories", cats))
    out.append(_strlist("non_modeled_combined", [ast.unparse(assigned_expr(nm, "non_modeled_units"))]))
    out.append(_strlist("zero_baseline", [ast.unparse(_find(tree, "CombinedDataHandler", "_get_units_with_baseline_of_zero").body[-1].value),
                                          ast.unparse(assigned_expr(nm, "units_with_zero_baseline"))]))
    gates = [ast.unparse(n.test) for n in ast.walk(nm) if isinstance(n, ast.If)]
    out.append(_strlist("outlier_gates", gates))
    out.append(_strlist("outlier_input", [ast.unparse(assigned_expr(nm, "reporting_units"))]))
    seq = [ast.unparse(n.targets[0]) + " = " + ast.unparse(n.value) for n in gu.body
           if isinstance(n, ast.Assign) and ast.unparse(n.targets[0]) in ("reporting_units", "nonreporting_units", "unexpected_units", "all_unexpected_units")]
    out.append(_strlist("get_units_sequence", seq))
    out.append(_strlist("get_units_returned", [ast.unparse(gu.body[-1].value)]))
    ue = _find(tree, "CombinedDataHandler", "_get_unexpected_units")
    out.append(_strlist("unexpected_units", [ast.unparse(assigned_expr(ue, "unexpected_units")), ast.unparse(assigned_expr(ue, "expected_geographic_units"))]))
    init = _find(tree, "CombinedDataHandler", "__init__")
    out.append(_strlist("merge", [ast.unparse(assigned_expr(init, "data"))]))
    pol = []
    for n in ast.walk(init):
        if isinstance(n, ast.If) and "handle_unreporting" in ast.unparse(n.test):
            pol.append(ast.unparse(n.test) + " : " + " ; ".join(ast.unparse(s) for s in n.body))
    out.append(_strlist("unreporting_policy", pol))
    # a feed row without an expected vote figure: what the handler makes of it before the frames are split
    miss = []
    for n in init.body:
        if isinstance(n, ast.If) and "percent_expected_vote" in ast.unparse(n.test):
            miss.append(ast.unparse(n.test) + " : " + " ; ".join(ast.unparse(s) for s in n.body))
        elif isinstance(n, ast.Assign) and "percent_expected_vote" in ast.unparse(n.targets[0]):
            miss.append(ast.unparse(n))
    out.append(_strlist("missing_expected_vote", miss))
    return out


def _estimandizer_defs():
    """Estimandizer: two-party weights, margin, normalised margin, turnout factor, the +1 of the baseline"""
    src, tree = _parse("handlers/data/Estimandizer.py")
    fn = _find(tree, None, "margin")
    names = {}
    for st in fn.body:
        if isinstance(st, ast.Assign) and isinstance(st.targets[0], ast.Name) and isinstance(st.value, ast.JoinedStr):
            names[st.targets[0].id] = ast.unparse(st.value)

    class F(Flow):
        def _targets(self, st):
            out = []
            for t in (st.targets if isinstance(st, ast.Assign) else [st.target] if isinstance(st, ast.AugAssign) else []):
                if isinstance(t, ast.Subscript) and isinstance(t.slice, ast.Name) and t.slice.id in names:
                    out.append(f"{ast.unparse(t.value)}[{names[t.slice.id]}]")
                else:
                    out.append(ast.unparse(t))
            return out

    fl = F(src, {"data_df[f'{col_prefix}dem']": "dem", "data_df[f'{col_prefix}gop']": "gop"})
    fl.run(fn.body)
    cols = {"weights": "data_df[f'{col_prefix}weights']", "margin": "data_df[f'{col_prefix}margin']",
            "normalized_margin": "data_df[f'{col_prefix}normalized_margin']"}
    out = []
    for nm, key in cols.items():
        if fl.env.get(key) is None:
            raise TranslateError("Estimandizer.margin: " + key)
        out.append(lean_def("est_" + nm, [("dem", "Rat"), ("gop", "Rat")], "Rat", "  " + fl.env[key]))
    cls = "Estimandizer"
    tf = _find(tree, cls, "add_turnout_factor")
    tr = Tr(src, {"data_df.results_weights": "rw", "data_df.baseline_weights": "bw"})
    out.append(lean_def("turnout_factor", [("rw", "Rat"), ("bw", "Rat")], "Rat", "  " + tr.expr(assigned_expr(tf, "data_df['turnout_factor']"))))
    ab = _find(tree, cls, "add_estimand_baselines")
    v = assigned_expr(ab, "data_df[f'last_election_results_{estimand}']")
    if not (isinstance(v, ast.BinOp) and isinstance(v.op, ast.Add) and ast.unparse(v.left) == "data_df[baseline_col].copy()"):
        raise TranslateError("add_estimand_baselines: last_election_results")
    out.append(lean_def("last_election_results", [("b", "Rat")], "Rat", "  " + Tr(src, {"data_df[baseline_col].copy()": "b"}).expr(v)))
    # when a derived baseline estimand is (re)computed: every time its generating function exists (fix F-19) - a frame that has been
    # through here before already has the column, and `margin` is also what sets the two-party weights
    guards = [ast.unparse(n.test) for n in ast.walk(ab) if isinstance(n, ast.If) and "baseline_col" in ast.unparse(n.test)]
    out.append(_strlist("derived_baseline_guard", guards))
    out.append(_strlist("baseline_weights_reset", [ast.unparse(s_) for s_ in ab.body if isinstance(s_, ast.Assign) and "add_weights" in ast.unparse(s_)]))
    aw = _find(tree, cls, "add_weights")
    out.append(_strlist("default_weights", [ast.unparse(s) for s in aw.body if isinstance(s, ast.Assign)]))
    return out


def _results_handler_shape():
    """ModelResultsHandler: which column of which frame receives what; the unit table; how estimands are joined"""
    src, tree = _parse("handlers/data/ModelResults.py")
    cls = "ModelResultsHandler"
    cols = []
    for fname in ("add_unit_predictions", "add_unit_turnout_predictions", "add_unit_intervals", "add_agg_predictions"):
        fn = _find(tree, cls, fname)
        for n in ast.walk(fn):
            if isinstance(n, ast.Assign) and isinstance(n.targets[0], ast.Subscript) and not ast.unparse(n.targets[0]).startswith("self.unit_data"):
                cols.append(f"{fname}: {ast.unparse(n.targets[0])} = {ast.unparse(n.value)}"[:220])
    fn = _find(tree, cls, "add_unit_intervals")
    ut = [ast.unparse(n.value).replace("\n", " ") for n in ast.walk(fn) if isinstance(n, ast.Assign) and ast.unparse(n.targets[0]) == "self.unit_data[estimand]"]
    pf = _find(tree, cls, "process_final_results")
    merges = [ast.unparse(n).replace("\n", " ")[:200] for n in ast.walk(pf) if isinstance(n, ast.Assign) and ast.unparse(n.targets[0]) in ("merge_on", "agg_df")]
    merges += [ast.unparse(n.value).replace("\n", " ")[:200] for n in ast.walk(pf) if isinstance(n, ast.Assign) and "unit_data" in ast.unparse(n.targets[0])]
    return [_strlist("results_handler_columns", cols), _strlist("unit_table", ut), _strlist("final_joins", merges)]


def gen_C09():
    return _units_defs() + _estimandizer_defs()


UNITS = {"reporting_units": "rep", "unexpected_units": "unexp", "nonreporting_units": "nonrep"}

def gen_C02(parse=None):
    from harness import relx as R

    parse = parse or _parse
    out = []
    src, tree = parse("models/BaseElectionModel.py")
    fn = _find(tree, "BaseElectionModel", "_get_reporting_aggregate_votes")
    ctx = R.Ctx()
    rel = R.Rel(ctx, UNITS)
    votes = rel.run(fn.body)
    if votes is None:
        raise TranslateError("_get_reporting_aggregate_votes: " + "; ".join(getattr(rel, "errors", ["no frame returned"])))
    out.append(R.emit("votes_keys", ctx, votes.keys, "List Nat", False)[0])
    for c in ("results_{estimand}", "reporting"):
        out.append(R.emit("votes_" + R.san(c), ctx, votes.col(c), "Rat", True)[0])
    fn2 = _find(tree, "BaseElectionModel", "_get_nonreporting_aggregate_votes")
    fn3 = _find(tree, "BaseElectionModel", "get_aggregate_predictions")

    def make(ctx):
        def votes_leaf(call):
            args = [ast.unparse(a) for a in call.args]
            if args != ["reporting_units", "unexpected_units", "aggregate", "estimand"]:
                raise TranslateError("arguments of _get_reporting_aggregate_votes: " + ", ".join(args))
            f = R.Frame(ctx, ctx.param("avK", "List Nat"), leaf="av", is_sorted=True)
            return R.Frame(ctx, f.keys, {c: f.col(c) for c in ("results_{estimand}", "reporting")}, None, (), (), True)

        def nonrep_leaf(call):
            args = [ast.unparse(a) for a in call.args]
            if args != ["nonreporting_units", "aggregate"]:
                raise TranslateError("arguments of _get_nonreporting_aggregate_votes: " + ", ".join(args))
            return R.Rel(ctx, UNITS).run(fn2.body)
        return {"self._get_reporting_aggregate_votes": votes_leaf, "self._get_nonreporting_aggregate_votes": nonrep_leaf}

    ctx = R.Ctx()
    rel = R.Rel(ctx, UNITS, calls=make(ctx))
    agg = rel.run(fn3.body)
    if agg is None:
        raise TranslateError("get_aggregate_predictions: " + "; ".join(getattr(rel, "errors", ["no frame returned"])))
    if not agg.sorted:
        raise TranslateError("get_aggregate_predictions: result not sorted by the aggregate keys")
    out.append(R.emit("agg_keys", ctx, agg.keys, "List Nat", False)[0])
    for c in ("pred_{estimand}", "results_{estimand}", "reporting"):
        out.append(R.emit("agg_" + R.san(c), ctx, agg.col(c), "Rat", True)[0])
    # nonparametric aggregate intervals
    src, tree = parse("models/NonparametricElectionModel.py")
    fn4 = _find(tree, "NonparametricElectionModel", "get_aggregate_prediction_intervals")
    ctx = R.Ctx()
    rel = R.Rel(ctx, UNITS, calls=make(ctx))
    rel.run([s for s in fn4.body if not isinstance(s, ast.Return)])
    ad = rel.env.get("aggregate_data")
    if ad is None:
        raise TranslateError("NP get_aggregate_prediction_intervals: " + "; ".join(getattr(rel, "errors", ["aggregate_data"])))
    if not ad.sorted:
        raise TranslateError("NP aggregate intervals: not sorted by the aggregate keys")
    ret = fn4.body[-1]
    want = "PredictionIntervals(aggregate_data.lower.round(decimals=0), aggregate_data.upper.round(decimals=0))"
    if not isinstance(ret, ast.Return) or ast.unparse(ret.value) != want:
        raise TranslateError("NP aggregate intervals: return " + ast.unparse(ret)[:120])
    out.append(R.emit("np_keys", ctx, ad.keys, "List Nat", False)[0])
    out.append(R.emit("np_lower", ctx, f"(ElexModel.rhe {ad.col('lower')})", "Int", True)[0])
    out.append(R.emit("np_upper", ctx, f"(ElexModel.rhe {ad.col('upper')})", "Int", True)[0])
    out.append(_strlist("np_unit_columns", [ctx.strings.get("lower_string", "?"), ctx.strings.get("upper_string", "?")]))
    return out


def gen_C13():
    """the loop nest of ModelClient.get_estimates as a trace of cache writes (unit intervals) and reads (aggregate intervals)"""
    src, tree = _parse("client.py")
    fn = _find(tree, "ModelClient", "get_estimates")
    tops = [n for n in fn.body if isinstance(n, ast.For) and ast.unparse(n.iter) == "estimands"]
    if len(tops) != 1:
        raise TranslateError("get_estimates: expected exactly one `for estimand in estimands` loop")
    lists = {"estimands": "ests", "prediction_intervals": "alphas", "self.results_handler.aggregates": "levels"}

    def block(stmts, scope, alias):
        parts = []
        alias = dict(alias)
        for st in stmts:
            if isinstance(st, ast.For):
                it = ast.unparse(st.iter)
                if it not in lists or not isinstance(st.target, ast.Name):
                    raise TranslateError("loop over " + it)
                v = st.target.id
                parts.append(f"({lists[it]}.flatMap fun {v} => {block(st.body, scope | {v}, alias)})")
                continue
            if isinstance(st, ast.Assign) and len(st.targets) == 1 and isinstance(st.targets[0], ast.Name) and isinstance(st.value, ast.Call) \
                    and ast.unparse(st.value.func) == "self.get_aggregate_list" and len(st.value.args) == 2 and isinstance(st.value.args[1], ast.Name):
                alias[st.targets[0].id] = st.value.args[1].id
            for n in ast.walk(st) if not isinstance(st, (ast.For,)) else []:
                if isinstance(n, ast.Call) and ast.unparse(n.func) == "self.model.get_unit_prediction_intervals":
                    a = n.args
                    if len(a) != 4 or not all(isinstance(x, ast.Name) and x.id in scope for x in a[2:]):
                        raise TranslateError("arguments of get_unit_prediction_intervals: " + ast.unparse(n)[:160])
                    key = None
                    if isinstance(st, ast.Assign) and isinstance(st.targets[0], ast.Subscript):
                        key = ast.unparse(st.targets[0])
                    if key != f"alpha_to_unit_prediction_intervals[{a[2].id}]":
                        raise TranslateError("unit intervals are not stored under their own level: " + str(key))
                    parts.append(f"[ElexModel.Loops.Op.write {a[2].id} {a[3].id}]")
                if isinstance(n, ast.Call) and ast.unparse(n.func) == "self.model.get_aggregate_prediction_intervals":
                    a = n.args
                    if len(a) != 7 or not (isinstance(a[3], ast.Name) and alias.get(a[3].id) in scope and isinstance(a[4], ast.Name)
                                           and a[4].id in scope and isinstance(a[6], ast.Name) and a[6].id in scope):
                        raise TranslateError("arguments of get_aggregate_prediction_intervals: " + ast.unparse(n)[:200])
                    if ast.unparse(a[5]) != f"alpha_to_unit_prediction_intervals[{a[4].id}]":
                        raise TranslateError("aggregate intervals do not receive the unit intervals of their own level: " + ast.unparse(a[5]))
                    parts.append(f"[ElexModel.Loops.Op.read {a[4].id} {a[6].id} {alias[a[3].id]}]")
        return "(" + " ++ ".join(parts or ["[]"]) + ")"

    body = block([tops[0]], set(), {})
    out = [f"def client_trace (ests levels alphas : List Nat) : List ElexModel.Loops.Op :=\n  {body}\n"]
    # what is handed to the results handler for each cell, and the per-call reset of the handler
    adds = [ast.unparse(n)[:200] for n in ast.walk(tops[0]) if isinstance(n, ast.Call) and ast.unparse(n.func).startswith("self.results_handler.add_")]
    out.append(_strlist("results_handler_adds", adds))
    # the gaussian model's caches: which key they are written / read under
    src, tree = _parse("models/GaussianElectionModel.py")
    uses = []
    for fname in ("get_unit_prediction_intervals", "get_aggregate_prediction_intervals"):
        g = _find(tree, "GaussianElectionModel", fname)
        for n in ast.walk(g):
            if isinstance(n, ast.Subscript) and ast.unparse(n.value).startswith("self.alpha_to_"):
                uses.append(f"{fname}: {'store' if isinstance(n.ctx, ast.Store) else 'load'} {ast.unparse(n)}")
    out.append(_strlist("gaussian_cache_uses", sorted(set(uses))))
    return out


def gen_C19():
    """S3VersionUtil: the paging decision, the two window filters, the sampling slice, the failure handling"""
    src, tree = _parse("handlers/s3.py")
    lv = _find(tree, "S3VersionUtil", "list_versions")
    ifs = [n for n in lv.body if isinstance(n, ast.If)]
    rec = [n for n in ifs if any(isinstance(c, ast.Call) and ast.unparse(c.func) == "self.list_versions" for c in ast.walk(n))]
    if len(rec) != 1:
        raise TranslateError("list_versions: expected exactly one recursive branch")
    fl = NFlow(src, {"response['IsTruncated']": "(B: truncated)", "len(versions)": "n", "self.start_date is None": "(B: startNone)",
                     "versions[-1]['LastModified']": "lastTs", "self.start_date": "start"})
    out = [lean_def("continue_cond", [("truncated", "Bool"), ("n", "Rat"), ("startNone", "Bool"), ("lastTs", "Rat"), ("start", "Rat")],
                    "Bool", "  " + fl.final(fl.expr(rec[0].test)))]
    call = next(c for c in ast.walk(rec[0]) if isinstance(c, ast.Call) and ast.unparse(c.func) == "self.list_versions")
    out.append(_strlist("recursive_call", [ast.unparse(a) for a in call.args] + [f"{k.arg}={ast.unparse(k.value)}" for k in call.keywords]))
    out.append(_strlist("recursive_combination", [ast.unparse(s) for s in rec[0].body]))
    filt = []
    for n in ifs:
        if n is rec[0] or "is not None" not in ast.unparse(n.test):
            continue
        lam = [x for x in ast.walk(n) if isinstance(x, ast.Lambda)]
        if len(lam) != 1:
            raise TranslateError("list_versions: filter branch")
        filt.append((ast.unparse(n.test), lam[0], ast.unparse(n.body[0])))
    if [t for t, _, _ in filt] != ["self.start_date is not None", "self.end_date is not None"]:
        raise TranslateError("list_versions: window filters " + str([t for t, _, _ in filt]))
    tr = Tr(src, {"v['LastModified']": "ts", "self.start_date": "bound", "self.end_date": "bound"})
    out.append(lean_def("keep_after_start", [("ts", "Rat"), ("bound", "Rat")], "Bool", "  " + tr.expr(filt[0][1].body)))
    out.append(lean_def("keep_before_end", [("ts", "Rat"), ("bound", "Rat")], "Bool", "  " + tr.expr(filt[1][1].body)))
    out.append(_strlist("filter_statements", [s for _, _, s in filt]))
    out.append(_strlist("list_statements", [ast.unparse(s).replace("\n", " ")[:160] for s in lv.body
                                            if not isinstance(s, ast.Expr) and s is not rec[0] and "is not None" not in ast.unparse(getattr(s, "test", ast.Constant(0)))]))
    g = _find(tree, "S3VersionUtil", "get")
    out.append(_strlist("sampling", [ast.unparse(n.iter) for n in ast.walk(g) if isinstance(n, ast.For)][:2]))
    empty = [ast.unparse(n.test) + " -> " + ast.unparse(n.body[-1]) for n in g.body if isinstance(n, ast.If)]
    out.append(_strlist("empty_listing", empty[:1]))
    out.append(_strlist("queue_put", [ast.unparse(n) for n in ast.walk(g) if isinstance(n, ast.Call) and ast.unparse(n.func) == "q.put"]))
    w = _find(tree, "S3VersionUtil", "wait_for_versions")
    tries = [n for n in ast.walk(w) if isinstance(n, ast.Try)]
    if len(tries) != 1:
        raise TranslateError("wait_for_versions: try")
    t = tries[0]
    out.append(_strlist("wait_try", [ast.unparse(s) for s in t.body]))
    out.append(_strlist("wait_except", [ast.unparse(h.type) if h.type else "bare" for h in t.handlers]
                        + ["reraises" if any(isinstance(x, ast.Raise) for h in t.handlers for x in ast.walk(h)) else "swallows"]))
    out.append(_strlist("wait_loop", [ast.unparse(n.test) for n in ast.walk(w) if isinstance(n, ast.While)]
                        + [ast.unparse(s) for n in ast.walk(w) if isinstance(n, ast.While) for s in n.body if not isinstance(s, ast.Try)]))
    return out


def _lambda_of(call, name):
    for k in call.keywords:
        if k.arg == name and isinstance(k.value, ast.Lambda):
            return k.value.body
    raise TranslateError(f"assign({name}=lambda …) not found")


def _gauss_agg_defs():
    """GaussianElectionModel.get_aggregate_prediction_intervals: un-residualise, floor at the partial counts, add counted votes, round"""
    src, tree = _parse("models/GaussianElectionModel.py")
    fn = _find(tree, "GaussianElectionModel", "get_aggregate_prediction_intervals")
    api = assigned_expr(fn, "aggregate_prediction_intervals")
    assigns = [n for n in ast.walk(api) if isinstance(n, ast.Call) and isinstance(n.func, ast.Attribute) and n.func.attr == "assign"]
    if len(assigns) != 1:
        raise TranslateError("aggregate_prediction_intervals: assign")
    env = {"x[f'last_election_results_{estimand}']": "last", "x.lb": "b", "x.ub": "b",
           "aggregate_nonreporting_votes[f'results_{estimand}']": "part"}
    out = []
    tr = Tr(src, env)
    out.append(lean_def("predicted_lower", [("last", "Rat"), ("b", "Rat"), ("part", "Rat")], "Rat", "  " + tr.expr(_lambda_of(assigns[0], "predicted_lower"))))
    out.append(lean_def("predicted_upper", [("last", "Rat"), ("b", "Rat"), ("part", "Rat")], "Rat", "  " + tr.expr(_lambda_of(assigns[0], "predicted_upper"))))
    ad = assigned_expr(fn, "aggregate_data")
    assigns2 = [n for n in ast.walk(ad) if isinstance(n, ast.Call) and isinstance(n.func, ast.Attribute) and n.func.attr == "assign"]
    if len(assigns2) != 1:
        raise TranslateError("aggregate_data: assign")
    tr = Tr(src, {"x.predicted_lower": "p", "x.predicted_upper": "p", "x[f'results_{estimand}']": "counted"})
    out.append(lean_def("total_lower", [("p", "Rat"), ("counted", "Rat")], "Rat", "  " + tr.expr(_lambda_of(assigns2[0], "lower"))))
    out.append(lean_def("total_upper", [("p", "Rat"), ("counted", "Rat")], "Rat", "  " + tr.expr(_lambda_of(assigns2[0], "upper"))))

    def chain_shape(node):
        shape = []
        while True:
            if isinstance(node, ast.Call) and isinstance(node.func, ast.Attribute):
                if node.func.attr != "assign":
                    shape.append(node.func.attr + "(" + ", ".join([ast.unparse(a) for a in node.args] + [f"{k.arg}={ast.unparse(k.value)}" for k in node.keywords]) + ")")
                else:
                    shape.append("assign(" + ", ".join(k.arg or "**" for k in node.keywords) + ")")
                node = node.func.value
            elif isinstance(node, ast.Subscript):
                shape.append("[" + ast.unparse(node.slice) + "]")
                node = node.value
            else:
                shape.append(ast.unparse(node))
                break
        return shape[::-1]

    out.append(_strlist("unresidualize_chain", chain_shape(api)))
    out.append(_strlist("total_chain", chain_shape(ad)))
    out.append(_strlist("gauss_returned", [ast.unparse(fn.body[-1].value)]))
    out.append(_strlist("no_nonreporting", [ast.unparse(n.test) + " -> " + ast.unparse(n.body[-1]) for n in fn.body if isinstance(n, ast.If)]))
    return out, fn, src


def gen_C15():
    out, fn, src = _gauss_agg_defs()
    tr = Tr(src, {"alpha": "alpha"})
    out.append(lean_def("gauss_quantile", [("alpha", "Rat")], "Rat", "  " + tr.expr(assigned_expr(fn, "quantile"))))
    # the matching loop
    loops = [n for n in fn.body if isinstance(n, ast.For)]
    if len(loops) != 1:
        raise TranslateError("get_aggregate_prediction_intervals: matching loop")
    lp = loops[0]
    shape = ["for " + ast.unparse(lp.target) + " in " + ast.unparse(lp.iter)]
    for st in lp.body:
        if isinstance(st, ast.Assign):
            shape.append(ast.unparse(st).replace("\n", " "))
        elif isinstance(st, ast.If):
            shape.append("if " + ast.unparse(st.test) + ": " + " ; ".join(ast.unparse(s) for s in st.body if not isinstance(s, ast.Assert))
                         + " else: " + " ; ".join(ast.unparse(s) for s in st.orelse))
        elif isinstance(st, ast.Expr) and isinstance(st.value, ast.Call):
            shape.append(ast.unparse(st))
    out.append(_strlist("matching_loop", shape))
    out.append(_strlist("first_match", [ast.unparse(assigned_expr(fn, "modeled_bounds"))]))
    fit_call = next(n for n in ast.walk(fn) if isinstance(n, ast.Call) and ast.unparse(n.func) == "GaussianModel(self.model_settings).fit")
    out.append(_strlist("fit_call", [ast.unparse(a) for a in fit_call.args] + [f"{k.arg}={ast.unparse(k.value)}" for k in fit_call.keywords]))
    # GaussianModel.fit: threshold, recursion test, large-group query, the two recursive calls, their concatenation
    src2, tree2 = _parse("distributions/GaussianModel.py")
    fit = _find(tree2, "GaussianModel", "fit")
    tr = Tr(src2, {"n_conformalization_data": "n"})
    out.append(lean_def("model_threshold", [("n", "Rat")], "Rat", "  " + tr.expr(assigned_expr(fit, "MODEL_THRESHOLD"))))
    rec = [n for n in fit.body if isinstance(n, ast.If) and "MODEL_THRESHOLD" in ast.unparse(n.test)]
    if len(rec) != 1:
        raise TranslateError("GaussianModel.fit: recursion test")
    tr = Tr(src2, {"np.min(counts['n'])": "minCount", "MODEL_THRESHOLD": "thr"})
    out.append(lean_def("falls_back", [("minCount", "Rat"), ("thr", "Rat")], "Bool", "  " + tr.expr(rec[0].test)))
    calls = [n for n in ast.walk(rec[0]) if isinstance(n, ast.Call) and ast.unparse(n.func) == "self.fit"]
    out.append(_strlist("recursive_fits", ["; ".join([ast.unparse(a) for a in c.args] + [f"{k.arg}={ast.unparse(k.value)}" for k in c.keywords]) for c in calls]))
    q = [ast.unparse(n.args[0]) for n in ast.walk(rec[0]) if isinstance(n, ast.Call) and isinstance(n.func, ast.Attribute) and n.func.attr == "query"]
    out.append(_strlist("large_group_query", q))
    out.append(_strlist("combine", [ast.unparse(assigned_expr(rec[0], "x"))] + [ast.unparse(s) for s in rec[0].orelse]))
    out.append(_strlist("empty_calibration", [ast.unparse(n.test) + " -> " + ast.unparse(n.body[-1]) for n in fit.body
                                              if isinstance(n, ast.If) and "n_conformalization_data == 0" in ast.unparse(n.test)]))
    src3, tree3 = _parse("utils/math_utils.py")
    ci = _find(tree3, None, "compute_inflate")
    out.append(lean_def("compute_inflate", [("sumSq", "Rat"), ("total", "Rat")], "Rat",
                        Tr(src3, {"np.sum(np.power(x, 2))": "sumSq", "np.sum(x)": "total"}).body(ci)))
    wm = _find(tree3, None, "weighted_median")
    out.append(_strlist("weighted_median_steps", [ast.unparse(s).replace("\n", " ")[:200] for s in wm.body if not isinstance(s, ast.Expr)]))
    fitfn = _find(tree2, "GaussianModel", "_fit")
    stats = [ast.unparse(n).replace("\n", " ")[:260] for n in ast.walk(fitfn) if isinstance(n, ast.Call)
             and ast.unparse(n.func) in ("math_utils.weighted_median", "math_utils.compute_inflate", "math_utils.boot_sigma")]
    out.append(_strlist("calibration_statistics", stats))
    cnt = _find(tree2, "GaussianModel", "_get_n_units_per_group")
    out.append(_strlist("group_counts", [ast.unparse(s).replace("\n", " ")[:300] for s in cnt.body if not isinstance(s, ast.Expr)]))
    return out


def gen_C16():
    """Featurizer: the value given to an unseen level, which level is dropped, what counts as a fitting row, the column order"""
    src, tree = _parse("handlers/data/Featurizer.py")
    cls = "Featurizer"
    gh = _find(tree, cls, "generate_holdout_data")
    vals = [n for n in ast.walk(gh) if isinstance(n, ast.Assign) and ast.unparse(n.targets[0]).startswith("df.loc[rows_w_inactive_fixed_effects")]
    if len(vals) != 1:
        raise TranslateError("generate_holdout_data: the unseen-level assignment")
    tr = Tr(src, {"len(fe_active_fixed_effects)": "nActive"})
    out = [lean_def("unseen_value", [("nActive", "Rat")], "Rat", "  " + tr.expr(vals[0].value))]
    out.append(_strlist("unseen_target", [ast.unparse(vals[0].targets[0])]))
    keep = ("inactive_fixed_effects", "fe_active_fixed_effects", "fe_inactive_fixed_effects", "rows_w_inactive_fixed_effects")
    out.append(_strlist("holdout_steps", [ast.unparse(n).replace("\n", " ") for n in ast.walk(gh) if isinstance(n, ast.Assign)
                                          and ast.unparse(n.targets[0]) in keep] + [ast.unparse(gh.body[-1])]))
    pd_ = _find(tree, cls, "prepare_data")
    keep = ("all_expanded_fixed_effects", "df_fitting", "active_fixed_effect_boolean_df", "all_active_fixed_effects", "fe_fixed_effect_filter",
            "self.active_fixed_effects", "self.intercept_column", "self.expanded_fixed_effects", "self.complete_features", "self.active_features")
    steps = []
    for n in ast.walk(pd_):
        if isinstance(n, (ast.Assign, ast.AugAssign)):
            t = ast.unparse(n.targets[0] if isinstance(n, ast.Assign) else n.target)
            if t in keep or t.startswith("df[self.features]"):
                steps.append(ast.unparse(n).replace("\n", " ")[:260])
        if isinstance(n, ast.Call) and ast.unparse(n.func) in ("active_fixed_effects.extend", "intercept_column.append"):
            steps.append(ast.unparse(n))
    out.append(_strlist("prepare_steps", steps))
    out.append(_strlist("prepare_returned", [ast.unparse(pd_.body[-1])]))
    ex = _find(tree, cls, "_expand_fixed_effects")
    out.append(_strlist("pooling", [ast.unparse(n).replace("\n", " ") for n in ast.walk(ex) if isinstance(n, ast.If)]
                        + [ast.unparse(n).replace("\n", " ")[:200] for n in ast.walk(ex) if isinstance(n, ast.Call) and ast.unparse(n.func) == "pd.get_dummies"]))
    sf = _find(tree, cls, "_sort_features")
    out.append(_strlist("sort_features", [ast.unparse(s).replace("\n", " ") for s in sf.body if not isinstance(s, ast.Expr)]))
    out.append(_strlist("categories_for_fe", [ast.unparse(_find(tree, cls, "_get_categories_for_fe").body[-1])]))
    out.append(_strlist("filter_to_active", [ast.unparse(_find(tree, cls, "filter_to_active_features").body[-1])]))
    return out


def gen_C17():
    """scalar formulas and tests of VersionedDataHandler.compute_versioned_margin_estimate (inner compute_estimated_margin)"""
    src, tree = _parse("handlers/data/VersionedData.py")
    outer = _find(tree, "VersionedDataHandler", "compute_versioned_margin_estimate")
    fn = next((n for n in ast.walk(outer) if isinstance(n, ast.FunctionDef) and n.name == "compute_estimated_margin"), None)
    if fn is None:
        raise TranslateError("compute_estimated_margin")
    out = []
    tr = Tr(src, {"np.diff(results_dem, append=results_dem[-1])": "dd", "np.diff(results_gop, append=results_gop[-1])": "dg",
                  "np.diff(results_weights, append=results_weights[-1])": "dw"})
    out.append(lean_def("batch_margin", [("dd", "Rat"), ("dg", "Rat"), ("dw", "Rat")], "Rat", "  " + tr.expr(assigned_expr(fn, "batch_margin"))))
    tr = Tr(src, {"perc_expected_vote_corr": "corr", "percent_expected_vote[-1]": "pevLast"})
    out.append(lean_def("rescaled_percent", [("corr", "Rat"), ("pevLast", "Rat")], "Rat",
                        "  " + tr.expr(assigned_expr(fn, "df['percent_expected_vote']"))))
    env = {"obs_indices": "oi", "percent_vote[clipped_indices]": "pv", "norm_margin[0]": "nm0", "norm_margin[clipped_indices]": "nmc",
           "batch_margin[clipped_indices]": "bc"}
    tr = Tr(src, env)
    for name, params in (("observed_vote", ["oi", "pv"]), ("observed_norm_margin", ["oi", "nm0", "nmc"]),
                         ("observed_batch_margin", ["oi", "nm0", "bc"])):
        out.append(lean_def(name, [(q, "Rat") for q in params], "Rat", "  " + tr.expr(assigned_expr(fn, name))))
    tr = Tr(src, {"observed_norm_margin": "onm", "observed_vote": "ov", "observed_batch_margin": "obm", "percs": "perc"})
    out.append(lean_def("est_numerator", [("onm", "Rat"), ("ov", "Rat"), ("obm", "Rat"), ("perc", "Rat")], "Rat",
                        "  " + tr.expr(assigned_expr(fn, "est_margins"))))
    # the returned frames: error kinds in order, and the columns of the normal frame
    kinds, normal = [], None
    for n in ast.walk(fn):
        if isinstance(n, ast.Return) and isinstance(n.value, ast.Call) and n.value.args and isinstance(n.value.args[0], ast.Dict):
            d = {ast.literal_eval(k): v for k, v in zip(n.value.args[0].keys, n.value.args[0].values)}
            et = ast.literal_eval(d["error_type"])
            kinds.append((n.lineno, et))
            if et == "none":
                normal = d
    if normal is None:
        raise TranslateError("normal frame")
    tr = Tr(src, {"norm_margin[-1]": "nmLast", "est_margins": "e"})
    out.append(lean_def("est_correction", [("nmLast", "Rat"), ("e", "Rat")], "Rat", "  " + tr.expr(normal["est_correction"])))
    out.append(_strlist("error_kinds", [k for _, k in sorted(kinds)]))
    out.append(_strlist("nearest_observed", [ast.unparse(normal["nearest_observed_vote"])]))
    tests = [ast.unparse(n.test) for n in ast.walk(fn) if isinstance(n, ast.If)]
    out.append(_strlist("tests", tests))
    shape = []
    for n in ast.walk(fn):
        if isinstance(n, ast.Call) and ast.unparse(n.func) in ("np.searchsorted", "np.clip", "np.arange", "np.divide"):
            shape.append(ast.unparse(n).replace("\n", " "))
        if isinstance(n, ast.Assign) and ast.unparse(n.targets[0]) in ("max_perc", "batch_margin[np.isnan(batch_margin)]", "obs_indices"):
            shape.append(ast.unparse(n))
    out.append(_strlist("shape", sorted(set(shape))))
    return out


GENERATORS = {"C02": gen_C02, "C03": gen_C03, "C08": gen_C08, "C09": gen_C09, "C04": gen_C04, "C05": gen_C05, "C06": gen_C06, "C07": gen_C07, "C10": gen_C10, "C12": gen_C12, "C13": gen_C13, "C14": gen_C14, "C15": gen_C15, "C16": gen_C16, "C17": gen_C17, "C18": gen_C18, "C19": gen_C19, "C20": gen_C20}

EXTRA_IMPORTS = {"C02": "import ElexModel.Core.Table\n", "C13": "import ElexModel.Core.Loops\n"}

HEADER = """import ElexModel.Core.Num
{extra}/-! GENERATED by harness/extract.py from /repo/src on every check run. Do not edit. -/
set_option linter.unusedVariables false
namespace ElexModel.Gen.{prop}

"""


def generate(prop):
    """(re)write lean/ElexModel/Gen/<prop>.lean; returns list of broken anchors (strings)"""
    broken = []
    defs = []
    try:
        defs = GENERATORS[prop]()
    except TranslateError as e:
        broken.append(f"translator anchor for {prop}: {e}")
    except (OSError, SyntaxError) as e:
        broken.append(f"translator cannot read source for {prop}: {e}")
    text = HEADER.format(prop=prop, extra=EXTRA_IMPORTS.get(prop, "")) + "\n".join(defs) + f"\nend ElexModel.Gen.{prop}\n"
    path = C.LEAN / "ElexModel" / "Gen" / f"{prop}.lean"
    if not broken:
        if not path.exists() or path.read_text() != text:
            path.write_text(text)
    return broken


if __name__ == "__main__":
    import sys

    for p in sys.argv[1:] or sorted(GENERATORS):
        print(p, generate(p))
