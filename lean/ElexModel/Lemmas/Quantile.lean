import ElexModel.Core.Quantile
import ElexModel.Lemmas.Num
import Mathlib.Order.Monotone.Basic

/-! numpy's linear quantile: sortedness, permutation invariance, monotonicity in the level. -/

namespace ElexModel

theorem insertR_perm (a : ℚ) (l : List ℚ) : (insertR a l).Perm (a :: l) := by
  induction l with
  | nil => simp [insertR]
  | cons b t ih =>
    unfold insertR
    split
    · exact List.Perm.refl _
    · exact (List.Perm.cons b ih).trans (List.Perm.swap a b t)

theorem insertR_pairwise (a : ℚ) (l : List ℚ) (h : l.Pairwise (· ≤ ·)) : (insertR a l).Pairwise (· ≤ ·) := by
  induction l with
  | nil => simp [insertR]
  | cons b t ih =>
    unfold insertR
    have hb := List.pairwise_cons.mp h
    split
    · rename_i hab
      refine List.pairwise_cons.mpr ⟨?_, h⟩
      intro x hx
      rcases List.mem_cons.mp hx with rfl | hx
      · exact hab
      · exact le_trans hab (hb.1 x hx)
    · rename_i hab
      refine List.pairwise_cons.mpr ⟨?_, ih hb.2⟩
      intro x hx
      have := (insertR_perm a t).mem_iff.mp hx
      rcases List.mem_cons.mp this with rfl | hx
      · exact le_of_lt (not_le.mp hab)
      · exact hb.1 x hx

theorem sortR_pairwise (xs : List ℚ) : (sortR xs).Pairwise (· ≤ ·) := by
  unfold sortR
  induction xs with
  | nil => simp
  | cons a t ih => simp only [List.foldr_cons]; exact insertR_pairwise a _ ih

theorem sortR_perm (xs : List ℚ) : (sortR xs).Perm xs := by
  unfold sortR
  induction xs with
  | nil => simp
  | cons a t ih => simp only [List.foldr_cons]; exact (insertR_perm a _).trans (List.Perm.cons a ih)

@[simp] theorem sortR_length (xs : List ℚ) : (sortR xs).length = xs.length := (sortR_perm xs).length_eq

/-- the sorted sample does not depend on the order of the draws -/
theorem sortR_of_perm {xs ys : List ℚ} (h : xs.Perm ys) : sortR xs = sortR ys := by
  apply List.Perm.eq_of_pairwise (le := fun a b => a ≤ b)
  · intro a b _ _ hab hba; exact le_antisymm hab hba
  · exact sortR_pairwise xs
  · exact sortR_pairwise ys
  · exact (sortR_perm xs).trans (h.trans (sortR_perm ys).symm)

theorem pairwise_getD_mono {s : List ℚ} (hs : s.Pairwise (· ≤ ·)) {i j : ℕ} (hij : i ≤ j)
    (hj : j < s.length) : s.getD i 0 ≤ s.getD j 0 := by
  rcases Nat.lt_or_eq_of_le hij with h | h
  · have hi : i < s.length := lt_trans h hj
    rw [← List.getElem_eq_getD (h := hi) 0, ← List.getElem_eq_getD (h := hj) 0]
    exact List.pairwise_iff_getElem.mp hs i j hi hj h
  · subst h; exact le_refl _

/-- clipped access into a sorted sample is monotone in the position -/
theorem clipGet_mono {s : List ℚ} (hs : s.Pairwise (· ≤ ·)) (hne : s ≠ []) : Monotone (clipGet s) := by
  intro i j hij
  unfold clipGet
  have hlen : 0 < s.length := List.length_pos_iff.mpr hne
  apply pairwise_getD_mono hs
  · exact min_le_min_right _ hij
  · omega

theorem lerpAt_between (x : ℕ → ℚ) (hx : Monotone x) (h : ℚ) (h0 : 0 ≤ h) :
    x ⌊h⌋.toNat ≤ lerpAt x h ∧ lerpAt x h ≤ x (⌊h⌋.toNat + 1) := by
  have hi0 : 0 ≤ ⌊h⌋ := Int.floor_nonneg.mpr h0
  have hcast : ((⌊h⌋.toNat : ℕ) : ℚ) = (⌊h⌋ : ℚ) := by
    have : ((⌊h⌋.toNat : ℕ) : ℤ) = ⌊h⌋ := Int.toNat_of_nonneg hi0
    exact_mod_cast this
  have hf0 : 0 ≤ h - (⌊h⌋.toNat : ℚ) := by rw [hcast]; linarith [Int.floor_le h]
  have hf1 : h - (⌊h⌋.toNat : ℚ) < 1 := by rw [hcast]; linarith [Int.lt_floor_add_one h]
  have hstep : x ⌊h⌋.toNat ≤ x (⌊h⌋.toNat + 1) := hx (Nat.le_succ _)
  unfold lerpAt
  simp only [ratFloor_eq]
  constructor
  · nlinarith
  · nlinarith

theorem lerpAt_mono (x : ℕ → ℚ) (hx : Monotone x) (h h' : ℚ) (h0 : 0 ≤ h) (hh : h ≤ h') :
    lerpAt x h ≤ lerpAt x h' := by
  have h0' : 0 ≤ h' := le_trans h0 hh
  have hfl : ⌊h⌋ ≤ ⌊h'⌋ := Int.floor_le_floor hh
  have hi0 : 0 ≤ ⌊h⌋ := Int.floor_nonneg.mpr h0
  have hi0' : 0 ≤ ⌊h'⌋ := Int.floor_nonneg.mpr h0'
  rcases lt_or_eq_of_le hfl with hlt | heq
  · have hnat : ⌊h⌋.toNat + 1 ≤ ⌊h'⌋.toNat := by omega
    calc lerpAt x h ≤ x (⌊h⌋.toNat + 1) := (lerpAt_between x hx h h0).2
      _ ≤ x ⌊h'⌋.toNat := hx hnat
      _ ≤ lerpAt x h' := (lerpAt_between x hx h' h0').1
  · unfold lerpAt
    simp only [ratFloor_eq, heq]
    have hstep : x ⌊h'⌋.toNat ≤ x (⌊h'⌋.toNat + 1) := hx (Nat.le_succ _)
    nlinarith

/-- **quantile monotone in the level** (numpy "linear" method, any non-empty sample) -/
theorem npQuantile_mono (xs : List ℚ) (hne : xs ≠ []) (q q' : ℚ) (hq : 0 ≤ q) (hqq : q ≤ q') :
    npQuantile xs q ≤ npQuantile xs q' := by
  unfold npQuantile
  simp only []
  have hne' : sortR xs ≠ [] := by
    intro h; have := congrArg List.length h; simp at this; exact hne this
  have hlen : (1:ℚ) ≤ ((sortR xs).length : ℚ) := by
    have : 1 ≤ (sortR xs).length := List.length_pos_iff.mpr hne'
    exact_mod_cast this
  have hn' : (0:ℚ) ≤ ((sortR xs).length : ℚ) - 1 := by linarith
  exact lerpAt_mono _ (clipGet_mono (sortR_pairwise xs) hne') _ _ (mul_nonneg hq hn')
    (mul_le_mul_of_nonneg_right hqq hn')

/-- **quantile invariant under permutation of the draws** -/
theorem npQuantile_perm {xs ys : List ℚ} (h : xs.Perm ys) (q : ℚ) : npQuantile xs q = npQuantile ys q := by
  unfold npQuantile; rw [sortR_of_perm h]

/-- the quantile lies between the smallest and the largest draw … stated via the sorted sample -/
theorem npQuantile_ge_first (xs : List ℚ) (hne : xs ≠ []) (q : ℚ) (hq : 0 ≤ q) :
    clipGet (sortR xs) 0 ≤ npQuantile xs q := by
  have hne' : sortR xs ≠ [] := by
    intro h; have := congrArg List.length h; simp at this; exact hne this
  have hlen : (1:ℚ) ≤ ((sortR xs).length : ℚ) := by
    have : 1 ≤ (sortR xs).length := List.length_pos_iff.mpr hne'
    exact_mod_cast this
  have hm := clipGet_mono (sortR_pairwise xs) hne'
  have := (lerpAt_between _ hm (q * (((sortR xs).length : ℚ) - 1)) (mul_nonneg hq (by linarith))).1
  exact le_trans (hm (Nat.zero_le _)) this

end ElexModel
