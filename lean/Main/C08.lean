import ElexModel.Driver.NatSum
def main : IO Unit := ElexModel.Driver.mainWith ElexModel.Driver.NatSum.run
