"""Translator: python `ast` of /repo/src  ->  Lean definitions (lean/ElexModel/Gen/Cxx.lean).

Exact-subset only: arithmetic `+ - * /`, unary minus, comparisons, and/or/not, min/max, round(x, k),
floor/ceil (math / numpy), numeric literals (a decimal literal becomes the exact rational it denotes:
0.9 -> 9/10), `len`, `in` on lists of strings, names bound to parameters, attribute chains listed in
the anchor's environment, straight-line `name = expr` bodies ending in `return`.
Anything else raises TranslateError, which the check reports as a broken obligation.
"""
import ast
import re
from decimal import Decimal
from fractions import Fraction
from pathlib import Path

from harness import common as C


class TranslateError(Exception):
    pass


def _find(tree, cls, func):
    for node in tree.body:
        if cls is None and isinstance(node, (ast.FunctionDef,)) and node.name == func:
            return node
        if isinstance(node, ast.ClassDef) and node.name == cls:
            for sub in node.body:
                if isinstance(sub, ast.FunctionDef) and sub.name == func:
                    return sub
    raise TranslateError(f"anchor {cls}.{func} not found")


class Tr:
    def __init__(self, src, env, calls=None):
        self.src = src
        self.env = dict(env)  # python source text of a name / attribute chain -> lean term
        self.calls = calls or {}  # python call text (e.g. "self._compute_conf_frac") -> lean function name

    def num(self, node):
        v = node.value
        if isinstance(v, bool):
            return "true" if v else "false"
        if isinstance(v, int):
            return f"({v} : Rat)"
        if isinstance(v, float):
            seg = ast.get_source_segment(self.src, node)
            try:
                f = Fraction(Decimal(seg))
            except Exception:
                raise TranslateError(f"float literal {seg!r}")
            return f"(({f.numerator} : Rat) / {f.denominator})"
        if isinstance(v, str):
            return '"' + v.replace('"', '\\"') + '"'
        raise TranslateError(f"constant {v!r}")

    def expr(self, n):
        text = ast.unparse(n)
        if text in self.env:
            return self.env[text]
        if isinstance(n, ast.Constant):
            return self.num(n)
        if isinstance(n, ast.Name):
            raise TranslateError(f"unbound name {n.id}")
        if isinstance(n, ast.BinOp):
            op = {ast.Add: "+", ast.Sub: "-", ast.Mult: "*", ast.Div: "/"}.get(type(n.op))
            if op is None:
                raise TranslateError(f"operator {type(n.op).__name__}")
            return f"({self.expr(n.left)} {op} {self.expr(n.right)})"
        if isinstance(n, ast.UnaryOp):
            if isinstance(n.op, ast.USub):
                return f"(-{self.expr(n.operand)})"
            if isinstance(n.op, ast.Not):
                return f"(!{self.expr(n.operand)})"
            raise TranslateError("unary op")
        if isinstance(n, ast.BoolOp):
            op = "&&" if isinstance(n.op, ast.And) else "||"
            return "(" + f" {op} ".join(self.expr(v) for v in n.values) + ")"
        if isinstance(n, ast.Compare):
            if len(n.ops) != 1:
                raise TranslateError("chained comparison")
            a, b, op = n.left, n.comparators[0], n.ops[0]
            if isinstance(op, ast.In):
                return f"({self.expr(b)}.contains {self.expr(a)})"
            if isinstance(op, ast.NotIn):
                return f"(!{self.expr(b)}.contains {self.expr(a)})"
            sym = {ast.Lt: "<", ast.LtE: "≤", ast.Gt: ">", ast.GtE: "≥", ast.Eq: "=", ast.NotEq: "≠"}.get(type(op))
            if sym is None:
                raise TranslateError("comparison")
            return f"(decide ({self.expr(a)} {sym} {self.expr(b)}))"
        if isinstance(n, ast.Tuple):
            return "(" + ", ".join(self.expr(e) for e in n.elts) + ")"
        if isinstance(n, ast.Call):
            f = ast.unparse(n.func)
            args = n.args
            if f in self.calls:
                return "(" + " ".join([self.calls[f]] + [self.expr(a) for a in args]) + ")"
            if f in ("math.floor", "np.floor", "floor"):
                return f"((Rat.floor {self.expr(args[0])} : Int) : Rat)"
            if f in ("math.ceil", "np.ceil", "ceil"):
                return f"((Rat.ceil {self.expr(args[0])} : Int) : Rat)"
            if f in ("min", "np.minimum") and len(args) == 2:
                return f"(ElexModel.rmin {self.expr(args[0])} {self.expr(args[1])})"
            if f in ("max", "np.maximum") and len(args) == 2:
                return f"(ElexModel.rmax {self.expr(args[0])} {self.expr(args[1])})"
            if f == "round" and len(args) == 2 and isinstance(args[1], ast.Constant):
                return f"(ElexModel.pyRound {self.expr(args[0])} {int(args[1].value)})"
            if f == "np.where" and len(args) == 3:
                return f"(if {self.expr(args[0])} then {self.expr(args[1])} else {self.expr(args[2])})"
            if f == "len" and len(args) == 1:
                return f"(({self.expr(args[0])}.length : Nat) : Rat)"
            raise TranslateError(f"call {f}")
        raise TranslateError(f"expression {text!r}")

    def body(self, fn, want=None):
        """straight-line body -> nested lets; `want` = name of an assigned variable to return instead of `return`"""
        lets = []
        ret = None
        for st in fn.body:
            if isinstance(st, ast.Expr) and isinstance(st.value, ast.Constant) and isinstance(st.value.value, str):
                continue  # docstring
            if isinstance(st, ast.Assign) and len(st.targets) == 1 and isinstance(st.targets[0], ast.Name):
                name = st.targets[0].id
                try:
                    e = self.expr(st.value)
                except TranslateError:
                    if want is None:
                        raise
                    continue  # irrelevant statement on the way to `want`
                lean_name = f"v_{name}"
                lets.append((lean_name, e))
                self.env[name] = lean_name
                if want == name:
                    ret = lean_name
                    break
                continue
            if isinstance(st, ast.Return) and want is None:
                ret = self.expr(st.value)
                break
            if isinstance(st, ast.Expr) and isinstance(st.value, ast.Constant):
                continue
            if want is None:
                raise TranslateError(f"statement {type(st).__name__} in {fn.name}")
        if ret is None:
            raise TranslateError(f"no result in {fn.name}")
        out = ""
        for nme, e in lets:
            out += f"  let {nme} := {e}\n"
        return out + f"  {ret}"


def assigned_expr(fn, target_text):
    """the right-hand side of the first assignment (anywhere in fn) whose target unparses to target_text"""
    for node in ast.walk(fn):
        if isinstance(node, ast.Assign) and len(node.targets) == 1 and ast.unparse(node.targets[0]) == target_text:
            return node.value
    raise TranslateError(f"assignment to {target_text} not found in {fn.name}")


def lean_def(name, params, rettype, body):
    ps = " ".join(f"({p} : {t})" for p, t in params)
    return f"def {name} {ps} : {rettype} :=\n{body}\n"


# ----------------------------------------------------------------------------------------------
# anchors


def _parse(rel):
    path = C.SRC / "elexmodel" / rel
    src = path.read_text()
    return src, ast.parse(src)


def gen_C06():
    src, tree = _parse("models/BootstrapElectionModel.py")
    out = []
    fn = _find(tree, "BootstrapElectionModel", "_get_quantiles")
    tr = Tr(src, {"alpha": "alpha", "self.B": "B"})
    out.append(lean_def("get_quantiles", [("alpha", "Rat"), ("B", "Rat")], "Rat × Rat", tr.body(fn)))
    # the +- 0.001 straddle
    fn = _find(tree, "BootstrapElectionModel", "get_aggregate_prediction_intervals")
    tr = Tr(src, {"interval_lower": "lo", "interval_upper": "hi", "aggregate_perc_margin_total": "pred"})
    lo = tr.expr(_nth_assigned(fn, "interval_lower", "np.minimum"))
    hi = tr.expr(_nth_assigned(fn, "interval_upper", "np.maximum"))
    out.append(lean_def("straddle_lower", [("lo", "Rat"), ("pred", "Rat")], "Rat", "  " + lo))
    out.append(lean_def("straddle_upper", [("hi", "Rat"), ("pred", "Rat")], "Rat", "  " + hi))
    return out


def _nth_assigned(fn, target, func_prefix):
    for node in ast.walk(fn):
        if (
            isinstance(node, ast.Assign)
            and len(node.targets) == 1
            and ast.unparse(node.targets[0]) == target
            and isinstance(node.value, ast.Call)
            and ast.unparse(node.value.func) == func_prefix
        ):
            return node.value
    raise TranslateError(f"{target} = {func_prefix}(...) not found in {fn.name}")


def gen_C07():
    src, tree = _parse("models/BootstrapElectionModel.py")
    out = []
    init = _find(tree, "BootstrapElectionModel", "__init__")
    tr = Tr(src, {})
    out.append(lean_def("lhs_called_threshold", [], "Rat", "  " + tr.expr(assigned_expr(init, "self.lhs_called_threshold"))))
    out.append(lean_def("rhs_called_threshold", [], "Rat", "  " + tr.expr(assigned_expr(init, "self.rhs_called_threshold"))))
    fn = _find(tree, "BootstrapElectionModel", "_is_top_level_aggregate")
    tr = Tr(src, {"aggregate": "aggregate"})
    out.append(lean_def("is_top_level_aggregate", [("aggregate", "List String")], "Bool", tr.body(fn)))
    return out


def gen_C14():
    out = []
    src, tree = _parse("models/NonparametricElectionModel.py")
    fn = _find(tree, "NonparametricElectionModel", "get_minimum_reporting_units")
    out.append(lean_def("np_min_units", [("alpha", "Rat")], "Rat", Tr(src, {"alpha": "alpha"}).body(fn)))
    fn = _find(tree, "NonparametricElectionModel", "_compute_conf_frac")
    out.append(lean_def("np_conf_frac", [("n", "Rat"), ("alpha", "Rat")], "Rat",
                        Tr(src, {"alpha": "alpha", "n_reporting_units": "n"}).body(fn)))
    fn = _find(tree, "NonparametricElectionModel", "get_unit_prediction_intervals")
    tr = Tr(src, {"alpha": "alpha", "prediction_intervals.conformalization.shape[0]": "ncal"})
    out.append(lean_def("correction_quantile", [("alpha", "Rat"), ("ncal", "Rat")], "Rat",
                        "  " + tr.expr(assigned_expr(fn, "correction_quantile"))))
    src, tree = _parse("models/ConformalElectionModel.py")
    fn = _find(tree, "ConformalElectionModel", "get_unit_prediction_interval_bounds")
    tr = Tr(src, {"self.n_train": "n", "conf_frac": "cf", "alpha": "alpha"})
    out.append(lean_def("train_rows", [("n", "Rat"), ("cf", "Rat")], "Rat", "  " + tr.expr(assigned_expr(fn, "train_rows"))))
    out.append(lean_def("upper_tau", [("alpha", "Rat")], "Rat", "  " + tr.expr(assigned_expr(fn, "upper_bound"))))
    out.append(lean_def("lower_tau", [("alpha", "Rat")], "Rat", "  " + tr.expr(assigned_expr(fn, "lower_bound"))))
    src, tree = _parse("models/GaussianElectionModel.py")
    fn = _find(tree, "GaussianElectionModel", "_compute_conf_frac")
    out.append(lean_def("gauss_conf_frac", [], "Rat", Tr(src, {}).body(fn)))
    fn = _find(tree, "GaussianElectionModel", "get_minimum_reporting_units")
    out.append(lean_def("gauss_min_units", [("alpha", "Rat")], "Rat",
                        Tr(src, {"alpha": "alpha"}, calls={"self._compute_conf_frac": "gauss_conf_frac"}).body(fn)))
    src, tree = _parse("models/BaseElectionModel.py")
    fn = _find(tree, "BaseElectionModel", "get_minimum_reporting_units")
    out.append(lean_def("base_min_units", [("alpha", "Rat")], "Rat", Tr(src, {"alpha": "alpha"}).body(fn)))
    src, tree = _parse("models/BootstrapElectionModel.py")
    fn = _find(tree, "BootstrapElectionModel", "get_minimum_reporting_units")
    out.append(lean_def("boot_min_units", [("alpha", "Rat")], "Rat", Tr(src, {"alpha": "alpha"}).body(fn)))
    return out


def gen_C20():
    """the try / except structure of ConformalElectionModel.fit_model: arguments of the first solve and of the retry, exceptions caught"""
    src, tree = _parse("models/ConformalElectionModel.py")
    fn = _find(tree, "ConformalElectionModel", "fit_model")
    tries = [n for n in ast.walk(fn) if isinstance(n, ast.Try)]
    if len(tries) != 1 or len(tries[0].handlers) != 1:
        raise TranslateError("fit_model: expected exactly one try with one except clause")
    t = tries[0]

    def fit_call(stmts):
        calls = [n for st in stmts for n in ast.walk(st) if isinstance(n, ast.Call) and ast.unparse(n.func) == "model.fit"]
        if len(calls) != 1:
            raise TranslateError("fit_model: expected exactly one model.fit call per branch")
        c = calls[0]
        return [ast.unparse(a) for a in c.args], sorted((k.arg, ast.unparse(k.value)) for k in c.keywords)

    a1, k1 = fit_call(t.body)
    a2, k2 = fit_call(t.handlers[0].body)
    h = t.handlers[0].type
    caught = sorted(ast.unparse(e) for e in (h.elts if isinstance(h, ast.Tuple) else [h]))
    filt = [ast.unparse(n) for n in tree.body if isinstance(n, ast.Expr) and isinstance(n.value, ast.Call)
            and ast.unparse(n.value.func) == "warnings.filterwarnings"]

    def strs(l):
        return "[" + ", ".join('"' + x.replace('"', "'") + '"' for x in l) + "]"

    def pairs(l):
        return "[" + ", ".join(f'("{a}", "{b}")' for a, b in l) + "]"

    return [
        f"def first_args : List String := {strs(a1)}\n",
        f"def first_kw : List (String × String) := {pairs(k1)}\n",
        f"def retry_args : List String := {strs(a2)}\n",
        f"def retry_kw : List (String × String) := {pairs(k2)}\n",
        f"def caught : List String := {strs(caught)}\n",
        f"def warning_filters : List String := {strs(filt)}\n",
    ]


def fstring_components(node, env, suffix=""):
    """an f-string key template -> Lean list of path components (split at '/' at translation time)"""
    if isinstance(node, ast.Constant) and isinstance(node.value, str):
        parts = [("lit", node.value)]
    elif isinstance(node, ast.JoinedStr):
        parts = []
        for v in node.values:
            if isinstance(v, ast.Constant):
                parts.append(("lit", v.value))
            elif isinstance(v, ast.FormattedValue) and v.format_spec is None and v.conversion == -1:
                t = ast.unparse(v.value)
                if t not in env:
                    raise TranslateError(f"key template uses {t}")
                parts.append(("var", env[t]))
            else:
                raise TranslateError("key template: unsupported formatted value")
    else:
        raise TranslateError("key template is not a string")
    if suffix:
        parts.append(("lit", suffix))
    comps, cur = [], []
    for kind, v in parts:
        if kind == "var":
            cur.append(v)
        else:
            segs = v.split("/")
            for i, sg in enumerate(segs):
                if i > 0:
                    comps.append(cur)
                    cur = []
                if sg:
                    cur.append('"' + sg.replace('"', '\\"') + '"')
    comps.append(cur)
    return "[" + ", ".join(" ++ ".join(c) if c else '""' for c in comps) + "]"


def _assigned_in(fn, name, nth=0):
    found = [n for n in ast.walk(fn) if isinstance(n, ast.Assign) and len(n.targets) == 1 and ast.unparse(n.targets[0]) == name]
    found.sort(key=lambda n: n.lineno)
    if len(found) <= nth:
        raise TranslateError(f"assignment #{nth} to {name} not found in {fn.name}")
    return found[nth].value


def gen_C18():
    out = []
    env = {"S3_FILE_PATH": "root", "election_id": "eid", "office": "office", "self.geographic_unit_type": "utype",
           "geographic_unit_type": "utype", "key": "table", "estimand": "est", "aggregate_string": "lvl", "alpha": "alpha"}
    P4 = [("root", "String"), ("eid", "String"), ("office", "String"), ("utype", "String")]
    src, tree = _parse("handlers/data/CombinedData.py")
    fn = _find(tree, "CombinedDataHandler", "write_data")
    out.append(lean_def("live_key", P4, "List String", "  " + fstring_components(_assigned_in(fn, "path", 0), env)))
    out.append(lean_def("live_counties_key", P4, "List String", "  " + fstring_components(_assigned_in(fn, "path", 1), env)))
    src, tree = _parse("handlers/data/ModelResults.py")
    fn = _find(tree, "ModelResultsHandler", "write_data")
    out.append(lean_def("prediction_key", P4 + [("table", "String")], "List String",
                        "  " + fstring_components(_assigned_in(fn, "path", 0), env)))
    src, tree = _parse("distributions/GaussianModel.py")
    P7 = P4 + [("est", "String"), ("lvl", "String"), ("alpha", "String")]
    fn = _find(tree, "GaussianModel", "_write_conformalization_data")
    out.append(lean_def("gauss_conf_key", P7, "List String", "  " + fstring_components(_assigned_in(fn, "path", 0), env, ".csv")))
    fn = _find(tree, "GaussianModel", "_write_gaussian_bounds")
    out.append(lean_def("gauss_bounds_key", P7, "List String", "  " + fstring_components(_assigned_in(fn, "path", 0), env, ".csv")))
    # the guard of the gaussian writes
    fn = _find(tree, "GaussianModel", "fit")
    guards = [n for n in ast.walk(fn) if isinstance(n, ast.If) and "_write_conformalization_data" in ast.unparse(n)]
    if len(guards) != 1:
        raise TranslateError("GaussianModel.fit: write guard not found")
    tr = Tr(src, {"top_level": "top_level", "aggregate": "aggregate_nonempty", "self.save_conformalization": "save_conf"})
    out.append(lean_def("gauss_write_guard", [("top_level", "Bool"), ("aggregate_nonempty", "Bool"), ("save_conf", "Bool")], "Bool",
                        "  " + tr.expr(guards[0].test)))
    # client: flags, guards and the position of the live-results write relative to the gate
    src, tree = _parse("client.py")
    fn = _find(tree, "ModelClient", "get_estimates")
    tr = Tr(src, {})
    default = _assigned_in(fn, "save_output", 0)
    if not (isinstance(default, ast.Call) and ast.unparse(default.func) == "kwargs.get" and len(default.args) == 2):
        raise TranslateError("save_output default")
    dl = default.args[1]
    if not isinstance(dl, ast.List):
        raise TranslateError("save_output default is not a list")
    out.append("def save_output_default : List String := [" + ", ".join(tr.expr(e) for e in dl.elts) + "]\n")
    tr = Tr(src, {"save_output": "save_output"})
    for name, target in (("flag_results", "self.save_results"), ("flag_data", "save_data"), ("flag_config", "save_config"),
                         ("flag_conformalization", "save_conformalization")):
        out.append(lean_def(name, [("save_output", "List String")], "Bool", "  " + tr.expr(_assigned_in(fn, target, 0))))
    ifs = [n for n in fn.body if isinstance(n, ast.If)]
    live = [n for n in ifs if "data.write_data" in ast.unparse(n)]
    final = [n for n in ifs if "self.results_handler.write_data" in ast.unparse(n)]
    gate = [n for n in ifs if "ModelNotEnoughSubunitsException" in ast.unparse(n)]
    if len(live) != 1 or len(final) != 1 or len(gate) != 1:
        raise TranslateError("get_estimates: write / gate statements not found at top level")
    trg = Tr(src, {"APP_ENV != 'local'": "(!is_local)", "self.save_results": "save_results"})
    for name, node in (("live_guard", live[0]), ("final_guard", final[0])):
        out.append(lean_def(name, [("is_local", "Bool"), ("save_results", "Bool")], "Bool", "  " + trg.expr(node.test)))
    out.append(f"def live_before_gate : Bool := {'true' if live[0].lineno < gate[0].lineno else 'false'}\n")
    out.append(f"def final_after_gate : Bool := {'true' if final[0].lineno > gate[0].lineno else 'false'}\n")
    return out


def gen_C10():
    """the masking of historical results of units that are not yet reporting (HistoricalModelClient._format_historical_current_data)"""
    src, tree = _parse("client.py")
    fn = _find(tree, "HistoricalModelClient", "_format_historical_current_data")
    wheres = [n for n in ast.walk(fn) if isinstance(n, ast.Call) and ast.unparse(n.func) == "np.where"]
    if len(wheres) != 1:
        raise TranslateError("_format_historical_current_data: expected exactly one np.where")
    tr = Tr(src, {"x.percent_expected_vote": "pev", "percent_reporting_threshold": "thr", "x[column_name]": "v"})
    return [lean_def("hist_mask", [("pev", "Rat"), ("thr", "Rat"), ("v", "Rat")], "Rat", "  " + tr.expr(wheres[0]))]


def gen_C12():
    """every source of randomness reachable from an estimate run, with whether it is seeded from a setting; AGGREGATE_ORDER"""
    files = ["client.py", "models/BaseElectionModel.py", "models/ConformalElectionModel.py", "models/NonparametricElectionModel.py",
             "models/GaussianElectionModel.py", "models/BootstrapElectionModel.py", "distributions/GaussianModel.py",
             "utils/math_utils.py", "handlers/data/CombinedData.py", "handlers/data/Featurizer.py", "handlers/data/Estimandizer.py",
             "handlers/data/ModelResults.py"]
    sites = []
    for rel in files:
        src, tree = _parse(rel)
        for n in ast.walk(tree):
            if not isinstance(n, ast.Call):
                continue
            f = ast.unparse(n.func)
            kws = {k.arg: ast.unparse(k.value) for k in n.keywords if k.arg}
            kind = None
            if f.endswith(".sample") and ("frac" in kws or "n" in kws):
                kind = "DataFrame.sample"
            elif f == "bootstrap" or f.endswith(".bootstrap"):
                kind = "scipy.stats.bootstrap"
            elif f in ("np.random.default_rng", "default_rng"):
                kind = "default_rng"
            elif f.startswith("np.random.") or f.startswith("random."):
                kind = f
            if kind is None:
                continue
            if kind == "default_rng":
                seed = kws.get("seed") or (ast.unparse(n.args[0]) if n.args else None)
            else:
                seed = kws.get("random_state") or kws.get("seed") or kws.get("rng")
            seeded = seed is not None and seed != "None"
            sites.append((f"{rel}:{kind}", seeded, seed or ""))
    src, tree = _parse("utils/constants.py")
    order = None
    for n in tree.body:
        if isinstance(n, ast.Assign) and ast.unparse(n.targets[0]) == "AGGREGATE_ORDER" and isinstance(n.value, ast.List):
            order = [e.value for e in n.value.elts]
    if order is None:
        raise TranslateError("AGGREGATE_ORDER")
    # the module-level generator pattern: a generator created outside any function
    module_level = []
    for rel in files:
        src, tree = _parse(rel)
        for n in tree.body:
            if isinstance(n, (ast.Assign, ast.Expr)) and any(isinstance(c, ast.Call) and "random" in ast.unparse(c.func) for c in ast.walk(n)):
                module_level.append(rel)
    out = ["def random_sites : List (String × Bool) := [" + ", ".join(f'("{a}", {"true" if b else "false"})' for a, b, _ in sites) + "]\n",
           "def seed_expressions : List String := [" + ", ".join('"' + c.replace('"', "'") + '"' for _, _, c in sites) + "]\n",
           "def module_level_generators : List String := [" + ", ".join(f'"{m}"' for m in module_level) + "]\n",
           "def aggregate_order : List String := [" + ", ".join(f'"{o}"' for o in order) + "]\n"]
    return out


GENERATORS = {"C06": gen_C06, "C07": gen_C07, "C10": gen_C10, "C12": gen_C12, "C14": gen_C14, "C18": gen_C18, "C20": gen_C20}

HEADER = """import ElexModel.Core.Num
/-! GENERATED by harness/extract.py from /repo/src on every check run. Do not edit. -/
set_option linter.unusedVariables false
namespace ElexModel.Gen.{prop}

"""


def generate(prop):
    """(re)write lean/ElexModel/Gen/<prop>.lean; returns list of broken anchors (strings)"""
    broken = []
    defs = []
    try:
        defs = GENERATORS[prop]()
    except TranslateError as e:
        broken.append(f"translator anchor for {prop}: {e}")
    except (OSError, SyntaxError) as e:
        broken.append(f"translator cannot read source for {prop}: {e}")
    text = HEADER.format(prop=prop) + "\n".join(defs) + f"\nend ElexModel.Gen.{prop}\n"
    path = C.LEAN / "ElexModel" / "Gen" / f"{prop}.lean"
    if not broken:
        if not path.exists() or path.read_text() != text:
            path.write_text(text)
    return broken


if __name__ == "__main__":
    import sys

    for p in sys.argv[1:] or sorted(GENERATORS):
        print(p, generate(p))
