import ElexModel.Driver.Util
import ElexModel.Core.Featurizer

open Lean ElexModel.Driver

namespace ElexModel.Driver.Feat
open ElexModel ElexModel.Feat

def rowOfJson (j : Json) : Except String (Bool × Option Nat) := do
  match ← arrOfJson j with
  | [f, l] => pure (← boolOfJson f, ← optOf natOfJson l)
  | _ => throw "row = [fitting, level|null]"

def run (op : String) (j : Json) : Except String Json := do
  match op with
  | "feat.effect" =>
    let rows0 ← listOf rowOfJson (← field j "rows")
    let sel ← optOf (listOf natOfJson) (fieldD j "sel" Json.null)
    let other ← natOfJson (fieldD j "other" (Json.num 0))
    let queries ← listOf (optOf natOfJson) (← field j "queries")
    let rows := rows0.map (fun r => (r.1, pool sel other r.2))
    pure (Json.mkObj [
      ("present", listToJson natToJson (present rows)),
      ("active", listToJson natToJson (active rows)),
      ("dropped", optToJson natToJson (dropped rows)),
      ("activeCols", listToJson natToJson (activeCols rows)),
      ("expandedCols", listToJson natToJson (expandedCols rows)),
      ("pooled", listToJson (optToJson natToJson) (rows.map (·.2))),
      ("holdout", listToJson (fun q => listToJson ratToJson (holdout rows (pool sel other q))) queries)])
  | "feat.centre" =>
    let xs ← listOf ratOfJson (← field j "xs")
    pure (listToJson ratToJson (centre xs))
  | "feat.sort" =>
    let cls ← listOf natOfJson (← field j "classes")
    let idx := (List.range cls.length).zip cls |>.map (fun p => (p.2, p.1))
    pure (listToJson (fun p => natToJson p.2) (sortFeatures idx))
  | _ => throw s!"unknown op {op}"

end ElexModel.Driver.Feat
