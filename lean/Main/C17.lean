import ElexModel.Driver.Versioned
def main : IO Unit := ElexModel.Driver.mainWith ElexModel.Driver.Versioned.run
