import ElexModel.Driver.Util
import ElexModel.Core.Retry
import ElexModel.Gen.C20

open Lean ElexModel.Driver

namespace ElexModel.Driver.Retry
open ElexModel ElexModel.Retry

def argsOfJson (j : Json) : Except String Args := do
  match ← arrOfJson j with
  | [d, t, l, i] => pure ⟨← natOfJson d, ← natOfJson t, ← natOfJson l, ← boolOfJson i, true⟩
  | _ => throw "fit = [data,tau,lambda,intercept]"

def argsToJson (a : Args) : Json :=
  Json.arr #[natToJson a.data, natToJson a.tau, natToJson a.lambda, Json.bool a.intercept, Json.bool a.normalize]

/-- all solver calls of a run, in order, and whether the run completes -/
def trace (solve : Solver) : Nat → List Args → List Args × Bool
  | _, [] => ([], true)
  | n, a :: rest =>
    match fitModel solve n a with
    | (.ok _, calls, n') => let r := trace solve n' rest; (calls ++ r.1, r.2)
    | (_, calls, _) => (calls, false)

def run (op : String) (j : Json) : Except String Json := do
  match op with
  | "retry.trace" =>
    let fits ← listOf argsOfJson (← field j "fits")
    let k ← optOf natOfJson (fieldD j "k" Json.null)
    let kind ← strOfJson (fieldD j "kind" (Json.str "solverError"))
    let f : Outcome := if kind == "solverError" then .solverError else if kind == "inaccurate" then .inaccurate else .other 0
    let solve : Solver := fun i x => if some i = k then f else .ok (x.data * 1000003 + x.tau * 7 + (if x.normalize then 1 else 0))
    let r := trace solve 0 fits
    pure (Json.mkObj [("calls", listToJson argsToJson r.1), ("completes", Json.bool r.2)])
  | "retry.gen" =>
    pure (Json.mkObj [
      ("first_args", listToJson Json.str Gen.C20.first_args), ("retry_args", listToJson Json.str Gen.C20.retry_args),
      ("first_kw", listToJson (fun p => Json.arr #[Json.str p.1, Json.str p.2]) Gen.C20.first_kw),
      ("retry_kw", listToJson (fun p => Json.arr #[Json.str p.1, Json.str p.2]) Gen.C20.retry_kw),
      ("caught", listToJson Json.str Gen.C20.caught)])
  | _ => throw s!"unknown op {op}"

end ElexModel.Driver.Retry
