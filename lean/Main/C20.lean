import ElexModel.Driver.Retry
def main : IO Unit := ElexModel.Driver.mainWith ElexModel.Driver.Retry.run
