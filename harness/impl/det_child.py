"""child process for C12: one history of calls under a given PYTHONHASHSEED; prints the digest of every output"""
import json
import os
import sys

cfg = json.loads(sys.stdin.read())
os.environ.setdefault("APP_ENV", "local")
os.environ.setdefault("DATA_ENV", "local")
os.environ.setdefault("MODEL_S3_BUCKET", "b")
os.environ.setdefault("MODEL_S3_PATH_ROOT", "r")
sys.path.insert(0, cfg["verif"])
sys.path.insert(0, cfg["src"])
import warnings  # noqa: E402

warnings.filterwarnings("ignore", append=True)
import random  # noqa: E402

from harness import common as C  # noqa: E402
from harness.props import c12  # noqa: E402

out = c12.run_history(cfg["history"], cfg["seed"])
print(json.dumps({"digests": out, "hashseed": os.environ.get("PYTHONHASHSEED")}))
