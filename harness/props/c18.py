"""C18 - nothing is persisted unless asked; results are saved before a too-few-units error.

Every configuration runs in its own process (the environment is read by elexmodel at import time) with boto3.client replaced by a
recorder before the import and the working directory in a scratch directory: save_output subsets x {local, dev} x estimators x gate
{pass, fail}, plus two-call histories on one client (options must not leak from an earlier call).  The ordered list of put_object
keys and the local files created are compared with lean/ElexModel/Core/Persist.lean (`effects`), whose key templates, flags and
guards are re-translated from source on every run.
"""
import itertools
import json
import os
import subprocess
import sys
from concurrent.futures import ThreadPoolExecutor

from harness import common as C
from harness import extract as X

PROP = "C18"
MODULES = ["ElexModel.Props.C18"]
DRIVER_TARGETS = ["ElexModel.Driver.Persist"]
TRUSTED = [
    "the S3 client is replaced by a recorder (boto3.client) before elexmodel is imported; local files are observed in a scratch cwd",
    "S3CsvUtil.put appends '.csv' to a key that lacks it (modelled in the key templates)",
]
ASSUMPTIONS = ["caller-supplied names (root, election id, office, unit type, estimands) contain no whitespace"]
RULE = (
    "all 16 subsets of save_output (+ the default) x {local, dev} x {nonparametric, gaussian, bootstrap} x gate {pass, fail}, sampled; "
    "two-call histories where the second call names fewer options; non-trivial = at least one option set; distinct = configuration"
)
OPTS = ["results", "data", "config", "conformalization"]
LABEL = {"postal_code": "state_data", "county_fips": "county_data", "county_classification": "classification_data"}
CHILD = str(C.VERIF / "harness" / "impl" / "persist_child.py")


def extract(run):
    return X.generate("C18")


def child(cfg):
    env = dict(os.environ)
    for k in ("APP_ENV", "DATA_ENV", "MODEL_S3_BUCKET", "MODEL_S3_PATH_ROOT"):
        env.pop(k, None)
    p = subprocess.run(["/venv/bin/python", CHILD], input=json.dumps(cfg), capture_output=True, text=True, timeout=600, env=env)
    lines = [l for l in p.stdout.splitlines() if l.startswith("{")]
    if p.returncode != 0 or not lines:
        return {"child_error": (p.stderr or p.stdout)[-800:]}
    return json.loads(lines[-1])


def gen_cfgs(rng, n):
    cfgs = []
    subsets = [list(s) for k in range(5) for s in itertools.combinations(OPTS, k)]
    for i in range(n):
        pi = ["nonparametric", "gaussian", "bootstrap", "gaussian"][i % 4]
        so = rng.choice(subsets) if rng.random() < 0.9 else None
        gate = rng.random() < 0.7 and i % 5 != 0
        aggs = rng.choice([["postal_code", "unit"], ["postal_code"], ["postal_code", "county_fips", "unit"], ["unit", "postal_code"]])
        calls = [{"aggregates": aggs, "save_output": so}]
        if rng.random() < 0.3:
            first = rng.choice(subsets[5:])
            calls = [{"aggregates": aggs, "save_output": first}, {"aggregates": aggs, "save_output": so}]
            gate = True  # the first call must complete for the history to continue
        est = ["margin"] if pi == "bootstrap" else rng.choice([["turnout"], ["dem", "turnout"]])
        cfgs.append({
            "app_env": rng.choice(["local", "dev", "prod"]), "data_env": rng.choice(["dev", "prod"]), "bucket": "verif-bucket",
            "root": "verif-root", "verif": str(C.VERIF), "src": str(C.SRC), "seed": rng.randint(0, 10**6),
            "n_reporting": (rng.choice([22, 25]) if gate else rng.choice([2, 5])), "pi": pi, "estimands": est,
            "alphas": rng.choice([[0.7], [0.7, 0.9]]), "save_output": so, "calls": calls,
            "params": ({"B": 5, "lambda_": 1.0} if pi == "bootstrap" else {}),
            "features": (["baseline_normalized_margin"] if pi == "bootstrap" else []),
            # the baseline is not handed over in memory: the client reads it from remote storage (reading is not persisting)
            "pre_from_s3": (i % 3 == 1) or rng.random() < 0.2,
            # a feed without rows yet (zero-row frame / header-only list of lists): too few units, the live results are still saved
            "feed": (["empty-frame", "header-only"][i % 2] if (not gate and (i % 5 == 0 or rng.random() < 0.3)) else "full"),
        })
        c = cfgs[-1]
        if i % 7 == 3:
            c["app_env"] = None          # APP_ENV not set at all: not the local environment
        # a storage service that does not acknowledge one put (single-call configurations that write remotely)
        if len(calls) == 1 and i % 4 in (1, 2) and c["app_env"] != "local" and "results" in (so if so is not None else ["results"]):
            c["nack_put"] = rng.choice([0, 1, 2, 3]) if gate else rng.choice([0, 1])
    return cfgs


def model_ops(cfg, out, call, default):
    so = call["save_output"] if call["save_output"] is not None else default
    levels = [[a, LABEL[a]] for a in call["aggregates"] if a != "unit"]
    return {
        "op": "persist.effects", "save_output": so, "is_local": cfg["app_env"] == "local", "gaussian": cfg["pi"] == "gaussian",
        "gate_pass": None, "root": f"{cfg['root']}-{cfg['data_env']}", "eid": out["election_id"], "office": out["office"],
        "utype": out["unit_type"], "estimands": cfg["estimands"], "alphas": [str(a) for a in cfg["alphas"]], "levels": levels,
        "unit_table": "unit" in call["aggregates"],
    }


def explore(run, driver, budget):
    run.info["rule"] = RULE
    n = {"quick": 28, "thorough": 600, "search": 120}[budget]
    cfgs = gen_cfgs(run.rng, n)
    with ThreadPoolExecutor(max_workers=8) as ex:
        outs = list(ex.map(child, cfgs))
    default = ["results"]
    if driver is not None:
        default = driver.run([{"op": "persist.effects", "save_output": [], "is_local": True, "gaussian": False, "gate_pass": True,
                               "root": "r", "eid": "e", "office": "o", "utype": "u", "estimands": [], "alphas": [], "levels": [],
                               "unit_table": False}])[0]["default"]
    for cfg, out in zip(cfgs, outs):
        case = {k: v for k, v in cfg.items() if k not in ("verif", "src")}
        run.case(case, any(c["save_output"] for c in cfg["calls"]))
        run.count("env " + str(cfg["app_env"] or "APP_ENV not set"))
        run.count(cfg["pi"])
        run.count("feed " + cfg.get("feed", "full"))
        run.count("baseline " + ("read from remote storage" if cfg.get("pre_from_s3") else "passed in memory"))
        if "child_error" in out:
            run.broken.append("child process failed: " + out["child_error"][-300:])
            continue
        # split the recorded puts per call
        per_call, cur = [], None
        for p in out["puts"]:
            if "marker" in p:
                cur = []
                per_call.append(cur)
            else:
                cur.append(p)
        if cfg.get("nack_put") is not None:
            run.count("storage fault injected")
            fault_case(run, driver, cfg, out, case, default)
            continue
        gate_pass = out["outcome"] == "completed"
        if out["outcome"] not in ("completed", "ModelNotEnoughSubunitsException"):
            run.violation("run ended with " + out["outcome"], input=case, impl=out["outcome"], predicate="effects",
                          signature="C18:raise")
            continue
        run.count("gate " + ("pass" if gate_pass else "fail"))
        root = f"{cfg['root']}-{cfg['data_env']}/{out['election_id']}/"
        all_local = set()
        for ci, call in enumerate(cfg["calls"]):
            so = call["save_output"] if call["save_output"] is not None else default
            keys = [p["key"] for p in per_call[ci]] if ci < len(per_call) else []
            last = ci == len(cfg["calls"]) - 1
            this_gate = gate_pass or not last
            # --- the property, directly
            nonlocal_results = cfg["app_env"] != "local" and "results" in so
            live = [k for k in keys if "/results/" in k]
            pred = [k for k in keys if "/predictions/" in k]
            gauss = [k for k in keys if "/gaussian/" in k]
            bad = None
            if not so and keys:
                bad = "with no save option something was written remotely"
            elif (live or pred) and not nonlocal_results:
                bad = "results written although 'results' was not requested or the environment is local"
            elif nonlocal_results and len(live) != 2:
                bad = "live results not written (two objects expected) although 'results' is requested outside local"
            elif nonlocal_results and keys[:2] != live:
                bad = "live results are not the first remote objects (they must be saved before the too-few-units check)"
            elif gauss and not ("conformalization" in so and cfg["pi"] == "gaussian"):
                bad = "conformalization data written although not requested"
            elif any((not k.startswith(root)) or any(ch.isspace() for ch in k) for k in keys):
                bad = "a remote key is not a whitespace-free path under root/election id"
            elif not this_gate and (pred or gauss):
                bad = "prediction / gaussian objects written although the run ended in the too-few-units error"
            if bad:
                run.violation(bad, input=case, call=ci, impl=keys, predicate="results_only_nonlocal / conformalization_only_if_asked / "
                              "saved_before_gate / keys_under_root", signature="C18:rule")
                break
            if "data" in so:
                all_local.add(f"data/{out['election_id']}/{out['office']}/data_{out['unit_type']}.csv")
            if "config" in so:
                all_local.add(f"config/{out['election_id']}.json")
            # --- diff against the model
            if driver is not None:
                op = model_ops(cfg, out, call, default)
                op["gate_pass"] = this_gate
                m = driver.run([op])[0]
                mkeys = [e["put"] for e in m["effects"] if "put" in e]
                if mkeys != keys:
                    run.diff("ordered remote keys: model vs implementation", input=case, call=ci, impl=keys, model=mkeys)
                run.traces += 1
        else:
            if set(out["files"]) != all_local:
                run.violation("local files created differ from what 'data' / 'config' name", input=case, impl=out["files"],
                              expected=sorted(all_local), predicate="data_config_local_only", signature="C18:local")


def fault_case(run, driver, cfg, out, case, default):
    """one put of the call was not acknowledged by the storage service"""
    puts = [p for p in out["puts"] if "marker" not in p]
    acked = {p["key"] for p in puts if p.get("ack", True)}
    nacked = [p["key"] for p in puts if not p.get("ack", True) and p["key"] not in acked]     # never stored, not even by a second attempt
    call = cfg["calls"][0]
    # the property: a run that returns its tables, or ends in the too-few-units error, has saved what it owes
    if nacked and out["outcome"] in ("completed", "ModelNotEnoughSubunitsException"):
        run.violation("the run ended with " + out["outcome"] + " although the storage service did not acknowledge a put: the object was "
                      "never saved", input=case, impl={"outcome": out["outcome"], "not_saved": nacked, "puts": [p["key"] for p in puts]},
                      predicate="ends_normally_all_stored / not_enough_still_saved", signature="C18:unacknowledged")
        return
    if driver is None:
        return
    # the gate outcome of this election, from its twin without the fault: n_reporting decides
    gate_pass = cfg["n_reporting"] >= 20 and cfg.get("feed", "full") == "full"
    op = model_ops(cfg, out, call, default)
    op.update({"op": "persist.fault", "gate_pass": gate_pass, "nack": cfg["nack_put"]})
    m = driver.run([op])[0]
    got = {"attempted": [p["key"] for p in puts], "stored": [p["key"] for p in puts if p.get("ack", True)], "outcome": out["outcome"]}
    want = {"attempted": [e["put"] for e in m["attempted"]], "stored": [e["put"] for e in m["stored"]], "outcome": m["outcome"]}
    if got != want:
        run.diff("a put that is not acknowledged: attempted / stored keys and outcome, model vs implementation", input=case, impl=got, model=want)
    run.traces += 1


def replay(run, driver, payload):
    # the generators are driven by the seed and pass recorded in the replay file (set by main): the same pass is re-run
    explore(run, driver, run.budget)
