"""C13 - what is reported for one request does not depend on what else was requested.

Pair runs through ModelClient on elections with complete feeds: a full request R (2-3 estimands x 2-3 levels x 2-4 aggregate
levels) against sub-requests and permutations of R; every cell present in both outputs must be bit-identical, and every table must
carry the same key / category columns (no `_x` / `_y` suffixes) whatever the number of estimands.  The Lean model is the loop nest of
get_estimates with the gaussian model's alpha-keyed cache: `cell_independent` proves that every read in the (estimand, level, alpha)
cell returns what was written for the same estimand.
"""
import itertools

from harness import common as C
from harness import election as E
from harness import pairs as P

PROP = "C13"
MODULES = ["ElexModel.Props.C13"]
DRIVER_TARGETS = ["ElexModel.Driver.Loops"]
TRUSTED = [
    "the numerical core is an oracle; bit-identity is observed on one machine / BLAS build",
    "the loop nest and the alpha-keyed cache are modelled (lean/ElexModel/Core/Loops.lean); the trace of cache writes / reads of the real "
    "GaussianElectionModel is recorded and compared with the model's",
]
ASSUMPTIONS = ["complete feeds", "alphas pairwise distinct"]
RULE = (
    "elections with >= 22 reporting units (so that 0.9 is admissible), incl. district elections; full request vs single estimand / single "
    "level / fewer aggregates / permuted orders; 3 estimators; every pair is non-trivial; distinct = (election, estimator, requests)"
)
BAD_SUFFIX = ("_x", "_y")


def extract(run):
    from harness import extract as X

    return X.generate("C13")


def request_variants(rng, full):
    E_, A_, L_ = full["estimands"], full["alphas"], full["aggregates"]
    out = []
    out.append({"estimands": [rng.choice(E_)], "alphas": A_, "aggregates": L_})
    out.append({"estimands": E_, "alphas": [rng.choice(A_)], "aggregates": L_})
    sub = [l for l in L_ if rng.random() < 0.5] or [L_[0]]
    out.append({"estimands": E_, "alphas": A_, "aggregates": sub})
    out.append({"estimands": list(reversed(E_)), "alphas": list(reversed(A_)), "aggregates": list(reversed(L_))})
    out.append({"estimands": [E_[0]], "alphas": [A_[-1]], "aggregates": [L_[-1]]})
    return out


def run_req(e, pi, req, feats, params):
    return E.run_client(e, estimands=req["estimands"], alphas=req["alphas"], pi_method=pi, aggregates=req["aggregates"],
                        features=feats, params=params)


def record_cache(run, driver, e, pi, req):
    """trace of writes / reads of GaussianElectionModel's alpha-keyed caches, compared with the model's loop nest"""
    if pi != "gaussian" or driver is None:
        return
    C.use_repo()
    from elexmodel.models import GaussianElectionModel as G

    trace = []
    cur = {"e": None}
    o_unit = G.GaussianElectionModel.get_unit_prediction_intervals
    o_agg = G.GaussianElectionModel.get_aggregate_prediction_intervals

    def unit(self, rep, nonrep, alpha, estimand):
        r = o_unit(self, rep, nonrep, alpha, estimand)
        trace.append(["w", float(alpha), estimand])
        self._verif_owner = getattr(self, "_verif_owner", {})
        self._verif_owner[alpha] = estimand
        return r

    def agg(self, rep, nonrep, unexp, aggregate, alpha, upi, estimand, **kw):
        owner = getattr(self, "_verif_owner", {}).get(alpha)
        trace.append(["r", float(alpha), estimand, aggregate[-1], owner])
        return o_agg(self, rep, nonrep, unexp, aggregate, alpha, upi, estimand, **kw)

    G.GaussianElectionModel.get_unit_prediction_intervals = unit
    G.GaussianElectionModel.get_aggregate_prediction_intervals = agg
    try:
        run_req(e, pi, req, [], {})
    finally:
        G.GaussianElectionModel.get_unit_prediction_intervals = o_unit
        G.GaussianElectionModel.get_aggregate_prediction_intervals = o_agg
    levels = [a for a in req["aggregates"] if a != "unit"]
    lastkey = {"postal_code": "district" if e.office == "H" else "postal_code", "district": "district",
               "county_classification": "county_classification", "county_fips": "county_fips"}
    m = driver.run([{"op": "loops.trace", "estimands": list(range(len(req["estimands"]))), "alphas": list(range(len(req["alphas"]))),
                     "levels": list(range(len(levels)))}])[0]
    impl = []
    for t in trace:
        if t[0] == "w":
            impl.append(["w", req["alphas"].index(t[1]), req["estimands"].index(t[2])])
        else:
            impl.append(["r", req["alphas"].index(t[1]), req["estimands"].index(t[2]),
                         None if t[4] is None else req["estimands"].index(t[4])])
    model = [[x[0], x[1], x[2]] if x[0] == "w" else ["r", x[1], x[2], x[3]] for x in m["trace"]]
    impl_c = [x if x[0] == "w" else [x[0], x[1], x[2], x[3]] for x in impl]
    model_c = [x for x in model]
    # the model lists reads per (level) as well: drop the level index for the comparison of owners
    model_c = [x if x[0] == "w" else [x[0], x[1], x[2], x[3]] for x in model_c]
    if impl_c != model_c:
        run.diff("cache write / read trace of the gaussian model vs the loop-nest model", input={"request": req}, impl=impl_c[:12],
                 model=model_c[:12])
    for x in impl:
        if x[0] == "r" and x[3] != x[2]:
            run.violation("an aggregate interval reads unit bounds written for another estimand", input={"request": req},
                          impl=x, predicate="cell_independent", signature="C13:cache")
            break
    run.traces += 1


def explore(run, driver, budget):
    run.info["rule"] = RULE
    n = {"quick": 7, "thorough": 200, "search": 40}[budget]
    rng = run.rng
    for i in range(n):
        pi = ["gaussian", "nonparametric", "bootstrap", "gaussian"][i % 4]
        # the second case of every pass: a district election asked for counties but not for districts (the client adds the district
        # key to every table of such an office; counties are split between districts)
        dedicated = i == 1
        district = dedicated or rng.random() < 0.3
        e = E.gen_election(rng, size="medium", district=district, min_reporting=24,
                           roles=["reporting"] * 12 + ["partial"] * 6 + ["zero-dem-baseline", "third-party-heavy"])
        levels = ["postal_code", "county_fips", "county_classification", "unit"] + (["district"] if district else [])
        L_ = rng.sample(levels, rng.randint(2, len(levels)))
        if dedicated:
            L_ = ["postal_code", "county_fips", "unit"]
        if "postal_code" not in L_ and pi == "bootstrap":
            L_.append("postal_code")
        if pi == "bootstrap":
            full = {"estimands": ["margin"], "alphas": rng.sample([0.5, 0.7, 0.9], rng.choice([2, 3])), "aggregates": L_}
            feats, params = ["baseline_normalized_margin"], E.boot_params(B=6)
        else:
            full = {"estimands": rng.sample(["dem", "gop", "turnout"], rng.choice([2, 3])),
                    "alphas": rng.sample([0.5, 0.7, 0.9], rng.choice([2, 3])), "aggregates": L_}
            feats, params = rng.choice([[], ["x1"]]), {}
        case = {"election": e.describe(), "pi_method": pi, "full": full}
        base = run_req(e, pi, full, feats, params)
        run.case(case, True)
        run.count(pi)
        if "raises" in base:
            run.violation("full request failed: " + base["raises"], input=case, impl=base, predicate="columns_stable",
                          signature="C13:raise", election=e.to_json())
            continue
        # column stability
        bad = {t: [c for c in df.columns if c.endswith(BAD_SUFFIX)] for t, df in base["tables"].items()}
        bad = {t: v for t, v in bad.items() if v}
        if bad:
            run.violation("tables carry suffixed duplicate key / category columns", input=case, impl=bad,
                          predicate="columns_stable", signature="C13:columns", election=e.to_json())
            continue
        if len(full["estimands"]) >= 2 and budget != "search":
            record_cache(run, driver, e, pi, full)
        for req in request_variants(rng, full):
            got = run_req(e, pi, req, feats, params)
            run.evaluations += 1
            if "raises" in got:
                run.violation("sub-request failed: " + got["raises"], input=case, request=req, impl=got,
                              predicate="cell_independent", signature="C13:raise", election=e.to_json())
                break
            mism = None
            for t, df in got["tables"].items():
                if t not in base["tables"]:
                    mism = (t, "table only in the sub-request")
                    break
                full_df = base["tables"][t]
                if P.keys_of(df) != P.keys_of(full_df) or any(c.endswith(BAD_SUFFIX) for c in df.columns):
                    mism = (t, "key columns differ", list(df.columns)[:8], list(full_df.columns)[:8])
                    break
                ra, rb = P.rows_by_key(df), P.rows_by_key(full_df)
                if set(ra) != set(rb):
                    mism = (t, "row keys differ")
                    break
                for k in ra:
                    for c, v in ra[k].items():
                        if c in rb[k] and rb[k][c] != v:
                            mism = (t, list(k), c, v, rb[k][c])
                            break
                    if mism:
                        break
                if mism:
                    break
            if mism:
                run.violation("a cell differs between the full request and a sub-request / permutation", input=case, request=req,
                              impl=mism, predicate="cell_independent / order_irrelevant", signature="C13:cell", election=e.to_json())
                break


def replay(run, driver, payload):
    # the generators are driven by the seed and pass recorded in the replay file (set by main): the same pass is re-run
    explore(run, driver, run.budget)
