"""Regenerate MANIFEST.json from the registry below (python3 harness/mkmanifest.py)."""
import json
from pathlib import Path

VERIF = Path(__file__).resolve().parent.parent

# property -> (technique, level text, level note, design ref)
CLAIMED = {
    "C19": (
        "Lean 4 theorems (induction over pages) about a hand-written model of list_versions/get + differential correspondence against a scripted paging service",
        "Theorems list_exact / get_skips_failures / get_none_when_empty prove, for every newest-first history, page size, window, "
        "sampling step and failing subset, that the paged listing with early stop equals the window filter and that retrieval is the "
        "sampled listing minus failures. The model is tied to the code by running S3VersionUtil and the Lean model on the same "
        "generated histories and diffing; the property predicate is also evaluated on every implementation output.",
        "Trusted: Lean kernel + {propext, Classical.choice, Quot.sound}; the scripted service (newest-first, single key, no delete "
        "markers); FIFO consumption of the download queue; harness canonicalisation.",
        "DESIGN.md section 5 C19",
    ),
    "C06": (
        "Lean 4 theorems over Rat (floor/ceil rank arithmetic, monotone linear quantile, straddle) + bridge lemmas to definitions regenerated from source + differential correspondence at stage level",
        "ranks_valid / quantile_levels_valid / ranks_mono / npQuantile_mono / unit_ordered / unit_nested / agg_straddle / agg_nested / "
        "margin_bounded are proved for every B >= 2, every level in (0,1), every list of draws and every group. _get_quantiles and the "
        "+-0.001 lines are re-translated from /repo/src on every run and tied to the model by bridge lemmas (rfl); the aggregation and "
        "interval construction are tied by running the real methods and the Lean model on generated frames with assigned draws.",
        "Trusted: Lean kernel + standard axioms; compute_bootstrap_errors is an oracle (only its clip invariant is assumed and "
        "range-checked); float vs exact handled by 1e-9 tolerance and a counted boundary rule.",
        "DESIGN.md section 5 C06",
    ),
    "C07": (
        "Lean 4 theorems (case analysis on the override functions, list membership for the validation) + bridge lemmas to thresholds / "
        "_is_top_level_aggregate regenerated from source + differential correspondence at stage level",
        "called_lhs_pred/lower, called_rhs_pred/upper, stopped_uncalled_contains_zero, uncalled_unstopped_unchanged, format_error_iff, "
        "format_positions hold for arbitrary rational predictions, draws, levels and lists. The thresholds and the top-level test are "
        "re-translated from source each run; race-call arithmetic and _format_called_contests are diffed against the model.",
        "Trusted: as C06; contest identity is string equality as in pandas.get_dummies.",
        "DESIGN.md section 5 C07",
    ),
}

PENDING_REASON = "check not built yet in this session (model and correspondence in progress); not claimed until it is"


def main():
    props = [json.loads(l) for l in (VERIF / "properties.jsonl").read_text().splitlines() if l.strip()]
    checks = []
    na = []
    for p in props:
        pid = p["id"]
        if pid in CLAIMED:
            tech, text, note, ref = CLAIMED[pid]
            checks.append(
                {
                    "property_id": pid,
                    "quick_cmd": f"./check {pid} --tier quick",
                    "thorough_cmd": f"./check {pid} --tier thorough",
                    "evidence_file": f"/verif/evidence/{pid}.json",
                    "replay_cmd_template": f"./check {pid} --replay {{path}}",
                    "engine": "lean4-model+correspondence",
                    "level_claimed": {"category": "proof", "text": text, "design_ref": ref},
                    "level_note": note,
                    "technique": tech,
                }
            )
        else:
            na.append({"property_id": pid, "reason": NA.get(pid, PENDING_REASON)})
    man = {
        "version": 1,
        "setup_cmd": "/venv/bin/python -m harness.extract && cd lean && lake build",
        "hooks": {
            "guard": "ELEX_LIVE_MODEL_VERIF",
            "enable": "no source hooks are needed: the harness wraps library entry points in-process; checks export ELEX_LIVE_MODEL_VERIF=1 for symmetry",
            "baseline_off_cmd": "cd /repo && /venv/bin/python -m pytest -ra -q -p no:cacheprovider --timeout=900 --continue-on-collection-errors",
            "source_commits": [],
            "add_only": True,
        },
        "engines": [
            {
                "name": "lean4-model+correspondence",
                "path": "/verif/lean",
                "serves_properties": sorted(CLAIMED),
                "kind_free_text": "Lean 4.33 model (lean/ElexModel/Core), property theorems (lean/ElexModel/Props), translator "
                "(harness/extract.py -> lean/ElexModel/Gen), JSON-lines driver (lean/Main), python correspondence harness (harness/)",
            }
        ],
        "checks": checks,
        "not_applicable": na,
        "notes": "Every check: regenerate Gen from /repo/src, lake build the property's theorems, audit axioms, run corpus + "
        "generated cases through the real code and the Lean model, evaluate the property on the real outputs. "
        "Exit 0 / 1 (VIOLATION line) / 2 (the check itself failed; never a verdict). known_findings.json lists recorded defects.",
    }
    (VERIF / "MANIFEST.json").write_text(json.dumps(man, indent=1) + "\n")
    print(f"claimed {len(checks)}, not claimed {len(na)}")


NA = {}

if __name__ == "__main__":
    main()
