"""C04 - nonparametric intervals are conformally calibrated.

(a) `_compute_population_correction` driven directly with adversarial score / weight lists (ties, negative corrections, running
    share hitting the level exactly in dyadic arithmetic, single unit) against the Lean `popCorrection`;
(b) `get_unit_prediction_intervals` end to end on frames produced by the real CombinedDataHandler: the conformalization frame and
    the unadjusted bounds (observables named in the property) go to the model, the final lower / upper are compared exactly;
the calibration statement itself (share of baseline weight inside the widened interval exceeds the level, no smaller correction
does, robust clause) is evaluated on every implementation output with exact fractions.
"""
import math
from fractions import Fraction

import numpy as np
import pandas as pd

from harness import common as C
from harness import election as E
from harness import extract as X

PROP = "C04"
MODULES = ["ElexModel.Props.C04"]
DRIVER_TARGETS = ["ElexModel.Driver.Conformal"]
TRUSTED = [
    "the two quantile regressions (lower / upper) are an oracle: their predictions enter through the conformalization frame and the "
    "unadjusted bounds",
    "exchangeability of calibration and unreported units is an explicit assumption of the probabilistic clause; no finite run can "
    "exhibit a probability, so that clause is carried by the counting statements proved in Lean plus this assumption",
    "binary64 vs exact rationals: decisions within 1e-9 of a boundary (cumulative share vs level, rounding ties) are skipped and counted",
]
ASSUMPTIONS = ["weights (baseline + 1) are positive", "0 < alpha < 1 and n_cal large enough that the level is < 1 (C14)"]
RULE = (
    "(a) 1-40 calibration units, scores dyadic with ties and negatives, integer weights (half of the cases with a power-of-two total so "
    "that cumulative shares are exact and can hit the level exactly), levels dyadic or alpha(1+1/n); (b) generated elections through "
    "the real split, features none / one / two, both robust settings; (c) n + 1 scores with equal weights, each left out in turn "
    "(order-statistic and covered-count statements); non-trivial = at least two distinct scores; distinct = sha1"
)
EPS = Fraction(1, 10**9)

_M = None


def np_model(**settings):
    global _M
    C.use_repo()
    from elexmodel.models.NonparametricElectionModel import NonparametricElectionModel

    return NonparametricElectionModel(settings)


def spec_pop(sw, q):
    """the property, literally: the smallest score c such that the weight of {score <= c} exceeds q * total"""
    tot = sum(w for _, w in sw)
    for c in sorted({s for s, _ in sw}):
        if sum(w for s, w in sw if s <= c) > q * tot:
            return c
    return None


def exact_quantile(xs, q):
    s = sorted(xs)
    h = q * (len(s) - 1)
    i = math.floor(h)
    j = min(i + 1, len(s) - 1)
    return s[i] + (h - i) * (s[j] - s[i])


def share_boundary(sw, q):
    tot = sum(w for _, w in sw)
    acc = Fraction(0)
    for s, w in sorted(sw, key=lambda p: p[0]):
        acc += w
        d = abs(acc / tot - q)
        if 0 < d < EPS:
            return True
    return False


def direct(run, driver, n):
    model = np_model()
    rng = run.rng
    ops, meta = [], []
    for _ in range(n):
        k = rng.choice([1, 2, 3, 4, 5, 8, 13, 20, 40])
        pow2 = rng.random() < 0.5
        if pow2:
            total = 2 ** rng.randint(max(1, k.bit_length()), 12)
            cuts = sorted(rng.sample(range(1, total), k - 1)) if total > k else list(range(1, k))
            ws = [b - a for a, b in zip([0] + cuts, cuts + [total])]
        else:
            ws = [rng.randint(1, 5000) for _ in range(k)]
        scores = [Fraction(rng.randint(-40, 40), rng.choice([1, 2, 4, 8, 16])) for _ in range(k)]
        if rng.random() < 0.4 and k > 2:
            for i in rng.sample(range(k), k // 2):
                scores[i] = scores[0]  # ties
        if pow2 and rng.random() < 0.6:
            # a level that a cumulative share (in score order) hits exactly
            order = sorted(range(k), key=lambda i: scores[i])
            j = rng.randrange(k)
            q = Fraction(sum(ws[i] for i in order[: j + 1]), sum(ws))
            if q >= 1:
                q = Fraction(rng.randint(1, 15), 16)
        else:
            a = rng.choice([0.5, 0.75, 0.7, 0.9, 0.6])
            q = C.frac(a * (1 + 1 / k)) if a * (1 + 1 / k) < 1 else Fraction(rng.randint(1, 15), 16)
        # the conformalization frame of a real run carries the other baseline columns too (two-party / total turnout weights,
        # other estimands' baselines): present here with different values, so that reading the wrong column shows
        other = [float(rng.randint(1, 5000)) for _ in ws]
        df = pd.DataFrame({"last_election_results_x": [float(w) for w in ws], "baseline_weights": other,
                           "last_election_results_turnout": [o + 1 for o in other], "baseline_x": [float(w) - 1 for w in ws],
                           "baseline_turnout": other})
        sc = pd.Series([float(s) for s in scores])
        case = {"direct": True, "scores": [str(s) for s in scores], "weights": ws, "q": str(q)}
        try:
            c = model._compute_population_correction(df, sc, float(q), "x")
            impl = None if c is None or (isinstance(c, float) and math.isnan(c)) else C.frac(c)
        except Exception as ex:
            impl = {"raises": type(ex).__name__}
        sw = [(s, Fraction(w)) for s, w in zip(scores, ws)]
        run.case(case, len(set(scores)) > 1)
        run.count("direct")
        if share_boundary(sw, q) and not pow2:
            run.boundary_skipped += 1
            continue
        want = spec_pop(sw, q)
        if impl != want:
            run.violation(
                "population-weighted correction is not the smallest score whose baseline-weighted share exceeds the level",
                input=case, impl=str(impl), expected=str(want), predicate="pop_calibrated / pop_minimal", signature="C04:pop")
        ops.append({"op": "conf.pop", "sw": [[C.rat(s), C.rat(w)] for s, w in sw], "q": C.rat(q), "robust": False})
        meta.append((case, impl))
    if driver is None or not ops:
        return
    for (case, impl), o in zip(meta, driver.run(ops)):
        m = None if o["pop"] is None else C.unrat(o["pop"])
        if m != impl:
            run.diff("_compute_population_correction vs model popCorrection", input=case, impl=str(impl), model=o["pop"])
        run.traces += 1


def leave_one_out(run, driver, n):
    """equal weights: the correction is the order statistic of rank floor(q n) + 1 (`equal_weights_rank`), and over any n + 1 scores
    strictly more than alpha (n + 1) are covered by the correction computed from the other n (`split_conformal_count`)"""
    model = np_model()
    rng = run.rng
    ops, meta = [], []
    for _ in range(n):
        k = rng.choice([2, 3, 4, 5, 7, 8, 12, 16, 25])  # calibration units
        alpha = rng.choice([0.5, 0.6, 0.7, 0.75, 0.8, 0.9])
        qf = alpha * (1 + 1 / k)
        if not qf < 1:
            continue
        q = C.frac(qf)
        w = rng.choice([1, 3, 250])
        scores = [Fraction(rng.randint(-30, 30), rng.choice([1, 2, 4, 8])) for _ in range(k + 1)]
        if rng.random() < 0.5:
            for i in rng.sample(range(k + 1), (k + 1) // 2):
                scores[i] = scores[0]
        case = {"leave_one_out": True, "scores": [str(s) for s in scores], "alpha": alpha, "n_cal": k, "weight": w}
        run.case(case, len(set(scores)) > 1)
        run.count("leave-one-out (equal weights)")
        h = q * k
        if 0 < abs(h - round(h)) < EPS:
            run.boundary_skipped += 1
            continue
        cov, corrs = 0, []
        ok = True
        for i in range(k + 1):
            others = scores[:i] + scores[i + 1:]
            df = pd.DataFrame({"last_election_results_x": [float(w)] * k, "baseline_weights": [float(1 + 7 * j) for j in range(k)],
                               "baseline_turnout": [float(1 + 7 * j) for j in range(k)]})
            try:
                c = C.frac(model._compute_population_correction(df, pd.Series([float(s) for s in others]), float(q), "x"))
            except Exception as ex:
                run.violation("population correction raised " + type(ex).__name__, input=case, impl=str(ex)[:200],
                              predicate="pop_exists", signature="C04:raise")
                ok = False
                break
            corrs.append(c)
            want = sorted(others)[math.floor(h)]
            if c != want:
                run.violation("equal weights: the correction is not the score of rank floor(q n) + 1", input=case,
                              impl={"left_out": i, "correction": str(c)}, expected=str(want), predicate="equal_weights_rank",
                              signature="C04:rank")
                ok = False
                break
            cov += scores[i] <= c
        if not ok:
            continue
        if not cov > C.frac(alpha) * (k + 1):
            run.violation("fewer than alpha (n + 1) of n + 1 scores are covered by the correction computed from the others",
                          input=case, impl={"covered": cov, "corrections": [str(c) for c in corrs]},
                          expected="> " + str(float(C.frac(alpha) * (k + 1))), predicate="split_conformal_count",
                          signature="C04:count")
        ops.append({"op": "conf.loo", "scores": [C.rat(s) for s in scores], "q": C.rat(q)})
        meta.append((case, cov, corrs))
    if driver is None or not ops:
        return
    for (case, cov, corrs), o in zip(meta, driver.run(ops)):
        mc = [None if x is None else C.unrat(x) for x in o["corr"]]
        if mc != corrs or o["count"] != cov:
            run.diff("leave-one-out corrections / covered count vs model", input=case, impl=[[str(c) for c in corrs], cov],
                     model=[o["corr"], o["count"]])
        run.traces += 1


def end_to_end(run, driver, n):
    C.use_repo()
    from elexmodel.handlers.data.CombinedData import CombinedDataHandler
    from elexmodel.handlers.data.PreprocessedData import PreprocessedDataHandler

    rng = run.rng
    for _ in range(n):
        e = E.gen_election(rng, size=rng.choice(["small", "medium"]), roles=["reporting"] * 5 + ["partial"] * 2 + ["zero-percent"],
                           unexpected=False, min_reporting=10)
        est = rng.choice(["turnout", "dem"])
        alpha = rng.choice([0.5, 0.6, 0.7, 0.75, 0.8])
        robust = rng.random() < 0.5
        features = rng.choice([[], ["x1"], ["x1", "x2"]])
        case = {"e2e": True, "election": e.describe(), "estimand": est, "alpha": alpha, "robust": robust, "features": features}
        pre = PreprocessedDataHandler(E.ELECTION_ID, e.office, e.unit_type, [est], {est: est}, data=e.pre.copy()).data
        data = CombinedDataHandler(pre, e.cur.copy(), [est], e.unit_type, handle_unreporting="drop")
        rep, nonrep, _ = data.get_units(e.threshold, 0.5, 2.0, [], [], False, False, 2.0, ["postal_code"])
        model = np_model(features=features, robust=robust)
        if rep.shape[0] < model.get_minimum_reporting_units(alpha) or nonrep.shape[0] == 0:
            continue
        if rng.random() < 0.35:
            # the frames need not carry a default index (a caller may have filtered or re-ordered them): everything is positional
            nonrep = nonrep.copy()
            nonrep.index = [1000 + 7 * j for j in range(nonrep.shape[0])][::-1]
            rep = rep.copy()
            rep.index = [5 + 3 * j for j in range(rep.shape[0])]
            case["non_default_index"] = True
        if rng.random() < 0.4:
            # close to the minimum the training set is a unit or two: fewer rows than coefficients, smallest calibration sets
            keep = min(rep.shape[0], model.get_minimum_reporting_units(alpha) + rng.choice([0, 1, 2]))
            rep = rep.iloc[:keep].reset_index(drop=True)
            case["reporting_units_kept"] = keep
        from elexsolver.QuantileRegressionSolver import QuantileRegressionSolver as QRS

        fits = []
        orig_fit = QRS.fit

        def rec_fit(self_, x, y, *a, **kw):
            fits.append((kw.get("taus"), np.asarray(x).shape[0], sorted(float(v) for v in np.asarray(y).ravel())))
            return orig_fit(self_, x, y, *a, **kw)

        if rng.random() < 0.3:
            # the model object has been used before, for another set of counts of the same units (a back-test loop, the next poll)
            rep0 = rep.copy()
            noise = np.array([rng.choice([0.6, 0.8, 1.25, 1.5]) for _ in range(rep0.shape[0])])
            rep0[f"results_{est}"] = np.floor(rep0[f"results_{est}"].to_numpy(dtype=float) * noise)
            rep0[f"residuals_{est}"] = (rep0[f"results_{est}"] - rep0[f"last_election_results_{est}"]) / rep0[f"last_election_results_{est}"]
            case["model_used_before"] = True
            try:
                with np.errstate(all="ignore"):
                    model.get_unit_predictions(rep0, nonrep, est)
                    model.get_unit_prediction_intervals(rep0, nonrep, alpha, est)
            except Exception:
                pass
        QRS.fit = rec_fit
        try:
            with np.errstate(all="ignore"):
                model.get_unit_predictions(rep, nonrep, est)
                cf = model._compute_conf_frac(rep.shape[0], alpha)
                raw = model.get_unit_prediction_interval_bounds(rep, nonrep, cf, alpha, est)
                pi = model.get_unit_prediction_intervals(rep, nonrep, alpha, est)
        except Exception as ex:
            QRS.fit = orig_fit
            run.violation("get_unit_prediction_intervals raised " + type(ex).__name__, input=case, impl=str(ex)[:200],
                          predicate="pop_exists", signature="C04:raise", election=e.to_json())
            continue
        QRS.fit = orig_fit
        conf = pi.conformalization
        # hold-out: the lower / upper regressions are fitted on the reporting units that are NOT calibration units, and on all of them
        n_rep = rep.shape[0]
        cal_res = sorted(float(v) for v in conf[f"residuals_{est}"])
        all_res = sorted(float(v) for v in rep[f"residuals_{est}"])
        train_res = list(all_res)
        foreign = 0
        for v in cal_res:
            if v in train_res:
                train_res.remove(v)
            else:
                foreign += 1
        if foreign:
            run.case(case, True)
            run.violation("the calibration units of this call are not reporting units of this call (their relative changes are not among "
                          "the reporting units'): the correction is calibrated on other data", input=case,
                          impl={"calibration": len(cal_res), "not among the reporting units": foreign},
                          predicate="pop_calibrated (held-out calibration units)", signature="C04:calibration-set", election=e.to_json())
            continue
        for taus, rows, ys in fits:
            if taus == 0.5:
                continue
            if rows != n_rep - len(cal_res) or ys != sorted(train_res):
                run.case(case, True)
                run.violation("the lower / upper regressions are not fitted on exactly the reporting units outside the calibration set "
                              "(calibration units are not held out)", input=case,
                              impl={"tau": taus, "rows_fitted": rows, "reporting": n_rep, "calibration": len(cal_res)},
                              expected={"rows": n_rep - len(cal_res)}, predicate="split_conformal_count (hold-out)",
                              signature="C04:holdout", election=e.to_json())
                break
        w = [C.frac(x) for x in conf[f"last_election_results_{est}"]]
        sc = [max(C.frac(a), C.frac(b)) for a, b in zip(conf["lower_bounds"], conf["upper_bounds"])]
        sw = list(zip(sc, w))
        ncal = len(sw)
        q = C.frac(alpha * (1 + 1 / ncal))
        run.case(case, len(set(sc)) > 1)
        run.count("end-to-end")
        if not (q < 1):
            run.violation("quantile level is not below 1", input=case, impl=float(q), predicate="qLevel_lt_one",
                          signature="C04:q", election=e.to_json())
            continue
        if share_boundary(sw, q):
            run.boundary_skipped += 1
            continue
        # the property on the implementation's output: expected correction and bounds from the spec
        c = spec_pop(sw, q)
        if robust:
            c = max(c, exact_quantile(sc, q))
        lows = [C.frac(x) for x in raw.lower]
        ups = [C.frac(x) for x in raw.upper]
        wn = [C.frac(x) for x in nonrep[f"last_election_results_{est}"]]
        part = [C.frac(x) for x in nonrep[f"results_{est}"]]
        got_l = [float(x) for x in np.asarray(pi.lower)]
        got_u = [float(x) for x in np.asarray(pi.upper)]
        bad = None
        for j in range(len(lows)):
            xl = max((lows[j] - c) * wn[j] + wn[j], part[j])
            xu = max((ups[j] + c) * wn[j] + wn[j], part[j])
            for x, g in ((xl, got_l[j]), (xu, got_u[j])):
                if math.isnan(g) or math.isinf(g) or g != int(g) or abs(Fraction(int(g)) - x) > Fraction(1, 2) + Fraction(1, 10**6):
                    bad = (j, float(x), g)
        if bad:
            run.violation("unit interval is not the regression bounds widened symmetrically by the calibrated correction",
                          input=case, impl={"unit": bad[0], "got": bad[2]}, expected=bad[1],
                          predicate="pop_calibrated / robust_both / vote_space_transfer", signature="C04:bounds",
                          election=e.to_json())
        if driver is None:
            continue
        o = driver.run([{"op": "conf.pop", "sw": [[C.rat(s), C.rat(x)] for s, x in sw], "q": C.rat(q), "robust": robust}])[0]
        mc = C.unrat(o["corr"]) if o["corr"] is not None else None
        if mc is None:
            run.diff("model found no correction", input=case)
            continue
        ops = [{"op": "conf.final", "l": C.rat(lows[j]), "u": C.rat(ups[j]), "c": C.rat(mc), "w": C.rat(wn[j]),
                "part": C.rat(part[j])} for j in range(len(lows))]
        if bad:
            continue
        for j, r in enumerate(driver.run(ops)):
            near = False
            for rawv in (C.unrat(r[2]), C.unrat(r[3])):
                d = abs(rawv * 2 - round(rawv * 2))
                if d < Fraction(1, 10**6) and round(rawv * 2) % 2 == 1:
                    near = True
            if near:
                run.boundary_skipped += 1
                continue
            if [int(got_l[j]), int(got_u[j])] != [r[0], r[1]]:
                run.diff("final unit bounds vs model", input=case, unit=j, impl=[got_l[j], got_u[j]], model=r[:2],
                         election=e.to_json())
                break
        run.traces += 1


def api_levels(run, n):
    """through the client: the interval reported for a level is the interval of *that* level - the same whether the level is asked
    for alone or together with others, in any order; and the wider level contains the narrower one"""
    rng = run.rng
    for _ in range(n):
        e = E.gen_election(rng, size="medium", roles=["reporting"] * 6 + ["partial"] * 3, unexpected=False, min_reporting=24)
        alphas = rng.choice([[0.7, 0.5], [0.5, 0.7], [0.8, 0.5, 0.7], [0.6, 0.8]])
        est = rng.choice(["turnout", "dem"])
        case = {"api_levels": True, "election": e.describe(), "alphas": alphas, "estimand": est}
        full = E.run_client(e, estimands=[est], alphas=alphas, pi_method="nonparametric", features=[], aggregates=["postal_code", "unit"])
        run.case(case, True)
        run.count("api levels")
        if "raises" in full:
            continue
        ok = True
        for a in alphas:
            one = E.run_client(e, estimands=[est], alphas=[a], pi_method="nonparametric", features=[], aggregates=["postal_code", "unit"])
            if "raises" in one:
                continue
            for tname in ("unit_data", "state_data"):
                f, o = full["tables"][tname], one["tables"][tname]
                for col in (f"lower_{a}_{est}", f"upper_{a}_{est}"):
                    if list(f[col]) != list(o[col]):
                        run.violation("the interval reported for a level depends on which other levels were requested (it is not the "
                                      "calibrated interval of that level)", input=case, impl={"table": tname, "column": col},
                                      predicate="pop_calibrated (reported per level)", signature="C04:api-level", election=e.to_json())
                        ok = False
                        break
                if not ok:
                    break
            if not ok:
                break
        if ok:
            run.traces += 1


def coverage_stream(run, n_elections, n_units=300):
    """the probabilistic clause, observed: elections whose units are exchangeable and of equal baseline size (heavy lower tail: a
    quarter of the units collapse to 25-45 percent of their baseline), a random half reporting, run through the client with the
    turnout-factor limits switched off (lower 0, upper 10) so that no reporting unit is removed by its outcome.  Pooled over the
    elections, the share of not-yet-reporting units whose true count lies inside the reported interval must not fall short of the
    level.  This is a statistical observation with a wide margin (alarm below alpha - 0.10 on >= 2000 units; over 12 seeds the pooled share
    of 24 elections had mean 0.735 / 0.900 and standard deviation 0.021 / 0.016 at alpha 0.7 / 0.9, 40 elections are used: > 7 standard deviations); it supports the search for a failing input and stands in for no theorem."""
    rng = run.rng
    alphas = [0.7, 0.9]
    inside = {a: 0 for a in alphas}
    total = 0
    seeds = []
    for k in range(n_elections):
        seed = rng.randint(0, 10**9)
        seeds.append(seed)
        r2 = np.random.default_rng(seed)
        e = E.Election()
        e.states, e.unit_type, e.office, e.threshold = ["AA"], "county", "G", 100
        truth, rows, feed = {}, [], []
        reporting = r2.permutation(n_units) < n_units // 2
        for i in range(n_units):
            uid = f"1{i:04d}"
            f = float(np.exp(r2.normal(0, 0.1))) if r2.random() >= 0.25 else float(r2.uniform(0.25, 0.45))
            t = int(round(1000 * f))
            truth[uid] = t
            rows.append({"postal_code": "AA", "geographic_unit_fips": uid, "county_fips": uid, "county_classification": "urban",
                         "baseline_dem": 500, "baseline_gop": 480, "baseline_turnout": 1000, "x1": 0.0, "x2": 0.0})
            rep = bool(reporting[i])
            feed.append({"postal_code": "AA", "geographic_unit_fips": uid, "percent_expected_vote": 100 if rep else 0,
                         "results_dem": t // 2 if rep else 0, "results_gop": t - t // 2 - t // 50 if rep else 0,
                         "results_turnout": t if rep else 0})
        e.pre, e.cur = pd.DataFrame(rows), pd.DataFrame(feed)
        e.roles = {r["geographic_unit_fips"]: ("reporting" if reporting[i] else "zero-percent") for i, r in enumerate(rows)}
        res = E.run_client(e, estimands=["turnout"], alphas=alphas, pi_method="nonparametric", features=[], aggregates=["postal_code", "unit"],
                           # no unit is removed by its outcome: limits off, the turnout outlier model off (the margin outlier switch, which
                           # has nothing to act on in a turnout run, is left at its default in half of the elections)
                           params={"turnout_factor_lower": 0, "turnout_factor_upper": 10, "fit_turnout_outlier_model": False,
                                   "fit_margin_outlier_model": k % 2 == 0})
        run.count("coverage elections")
        if "raises" in res:
            run.violation("exchangeable election through the client failed: " + res["raises"], input={"coverage_seed": seed},
                          impl=res.get("msg"), predicate="covered_count_ge", signature="C04:coverage-raise")
            return
        ud = res["tables"]["unit_data"]
        removed = [r["geographic_unit_fips"] for r in ud.to_dict(orient="records")
                   if reporting[int(r["geographic_unit_fips"][1:])] and r["unit_category"] != "expected"]
        if removed:
            run.violation("limits off, turnout outlier model off: reporting units were nevertheless removed from the fit / calibration set by "
                          "their outcome, so the calibration units are no longer exchangeable with the not-yet-reporting ones",
                          input={"coverage_seed": seed, "margin_outlier_switch": k % 2 == 0}, impl={"removed": len(removed), "first": removed[:3]},
                          predicate="covered_count_ge (exchangeable calibration units)", signature="C04:calibration-population")
            return
        for r in ud.to_dict(orient="records"):
            u = r["geographic_unit_fips"]
            if reporting[int(u[1:])]:
                continue
            total += 1
            for a in alphas:
                if r[f"lower_{a}_turnout"] <= truth[u] <= r[f"upper_{a}_turnout"]:
                    inside[a] += 1
    case = {"coverage": True, "elections": n_elections, "units_per_election": n_units, "election_seeds": seeds[:5]}
    run.case(case, True)
    cov = {a: inside[a] / max(total, 1) for a in alphas}
    run.info["pooled_coverage"] = {str(a): round(cov[a], 4) for a in alphas}
    run.info["pooled_coverage_units"] = total
    if total >= 2000:
        for a in alphas:
            if cov[a] < a - 0.10:
                run.violation("exchangeable units of equal size, turnout-factor limits off: the pooled share of not-yet-reporting units whose "
                              "true count lies inside the reported interval is far below the level", input=dict(case, alpha=a),
                              impl={"coverage": round(cov[a], 4), "units": total}, expected=f">= {a} (alarm below {a - 0.10:.2f})",
                              predicate="covered_count_ge / equal_weights_rank (observed)", signature="C04:coverage")
                return
    run.traces += 1


def extract(run):
    return X.generate("C04")


def explore(run, driver, budget):
    run.info["rule"] = RULE
    n = {"quick": (400, 25, 60), "thorough": (20000, 600, 2500), "search": (3000, 120, 400)}[budget]
    direct(run, driver, n[0])
    leave_one_out(run, driver, n[2])
    api_levels(run, {"quick": 4, "thorough": 150, "search": 20}[budget])
    end_to_end(run, driver, n[1])
    coverage_stream(run, {"quick": 40, "thorough": 160, "search": 60}[budget])


def replay(run, driver, payload):
    # the generators are driven by the seed and pass recorded in the replay file (set by main): the same pass is re-run
    explore(run, driver, run.budget)
