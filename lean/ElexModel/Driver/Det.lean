import ElexModel.Driver.Util
import ElexModel.Core.Determinism
import ElexModel.Gen.C12

open Lean ElexModel.Driver

namespace ElexModel.Driver.Det
open ElexModel ElexModel.Det

def run (op : String) (j : Json) : Except String Json := do
  match op with
  | "det.agglist" =>
    let raw ← listOf strOfJson (← field j "raw")
    pure (listToJson Json.str (sortBy Gen.C12.aggregate_order raw))
  | "det.sites" =>
    pure (Json.mkObj [("sites", listToJson (fun p => Json.arr #[Json.str p.1, Json.bool p.2]) Gen.C12.random_sites),
      ("module_level", listToJson Json.str Gen.C12.module_level_generators),
      ("seeds", listToJson Json.str Gen.C12.seed_expressions)])
  | _ => throw s!"unknown op {op}"

end ElexModel.Driver.Det
