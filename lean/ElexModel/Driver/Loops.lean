import ElexModel.Driver.Util
import ElexModel.Core.Loops

open Lean ElexModel.Driver

namespace ElexModel.Driver.Loops
open ElexModel ElexModel.Loops

def run (op : String) (j : Json) : Except String Json := do
  match op with
  | "loops.trace" =>
    let ests ← listOf natOfJson (← field j "estimands")
    let alphas ← listOf natOfJson (← field j "alphas")
    let levels ← listOf natOfJson (← field j "levels")
    let tr := trace ests levels alphas
    let rec go : List Op → Cache → List Json
      | [], _ => []
      | .write a e :: t, c => Json.arr #["w", natToJson a, natToJson e] :: go t (step c (.write a e)).1
      | .read a e g :: t, c => Json.arr #["r", natToJson a, natToJson e, optToJson natToJson (c a), natToJson g] :: go t c
    pure (Json.mkObj [("trace", Json.arr (go tr (fun _ => none)).toArray)])
  | _ => throw s!"unknown op {op}"

end ElexModel.Driver.Loops
