#!/bin/bash
# parallel sweep of the seeded changes: N shards, each with its own worktree of /repo and its own copy of /verif (so that neither the
# mutated sources nor the regenerated Lean files of one shard disturb another).
# usage: harness/psweep.sh [N] [regex on the change id]      log: /tmp/psweep/log.sorted
N=${1:-6}; FILTER=${2:-.}
ROOT=/tmp/psweep
for k in $(seq 0 15); do git -C /repo worktree remove --force $ROOT/r$k 2>/dev/null; done
git -C /repo worktree prune
rm -rf $ROOT; mkdir -p $ROOT
ids=$(ls -d /verif/seeded/C*/ | xargs -n1 basename | grep -E -e "$FILTER" | sort)
for k in $(seq 0 $((N-1))); do
  git -C /repo worktree add -q --detach $ROOT/r$k HEAD
  rsync -a --exclude .git --exclude replays --exclude seeded /verif/ $ROOT/v$k/
  (
    i=0
    for id in $ids; do
      if [ $((i % N)) -eq $k ]; then
        prop=${id%%-*}
        if git -C $ROOT/r$k apply /verif/seeded/$id/patch.diff 2>/dev/null; then
          out=$(cd $ROOT/v$k && VERIF_REPO=$ROOT/r$k ./check $prop --tier quick 2>&1); code=$?
          git -C $ROOT/r$k checkout -- . ; git -C $ROOT/r$k clean -fdq src
          v=$(echo "$out" | grep -c "^VIOLATION"); nf=$(echo "$out" | grep -c "no-failing-input-found")
          echo "$id exit=$code violation_lines=$v no_failing_input=$nf :: $(echo "$out" | tail -1 | cut -c1-160)" >> $ROOT/log
        else
          echo "$id apply-failed" >> $ROOT/log
        fi
      fi
      i=$((i+1))
    done
  ) &
done
wait
for k in $(seq 0 $((N-1))); do git -C /repo worktree remove --force $ROOT/r$k; done
git -C /repo worktree prune
sort $ROOT/log > $ROOT/log.sorted
cp $ROOT/log.sorted /tmp/psweep_$(date +%H%M%S).log   # the next sweep clears $ROOT
echo "done: $(wc -l < $ROOT/log.sorted) changes"
