/-
Model of what one `ModelClient.get_estimates` call persists (property C18): the ordered list of remote puts and of local
files, as a function of `save_output`, the environment, the estimator, the request lists and the outcome of the
minimum-units gate.  A key is the list of its path components.
-/
namespace ElexModel.Persist

/-- which write produced a remote object -/
inductive Kind where
  | live | gauss | pred
  deriving Repr, DecidableEq

inductive Eff where
  | put (kind : Kind) (key : List String)   -- remote object
  | file (path : List String)                -- local file
  deriving Repr, DecidableEq

structure Cfg where
  saveResults : Bool
  saveData : Bool
  saveConfig : Bool
  saveConf : Bool          -- "conformalization" ∈ save_output
  isLocal : Bool           -- APP_ENV == "local"
  gaussian : Bool          -- estimator is the gaussian one
  gatePass : Bool          -- enough reporting units
  root : String            -- MODEL_S3_PATH_ROOT-DATA_ENV
  eid : String
  office : String
  utype : String
  estimands : List String
  alphas : List String     -- as formatted by python (`0.7`)
  levels : List (String × String)   -- requested aggregates other than `unit`: (last key of the aggregate list, table name)
  unitTable : Bool         -- `unit` requested
  deriving Repr

/-- live results: the feed and the feed without precincts -/
def liveKeys (c : Cfg) : List Eff :=
  [.put .live [c.root, c.eid, "results", c.office, c.utype, "current.csv"],
   .put .live [c.root, c.eid, "results", c.office, c.utype, "current_counties.csv"]]

/-- the two gaussian objects of one (estimand, level, alpha) -/
def gaussKeys (c : Cfg) (est lvl alpha : String) : List Eff :=
  [.put .gauss [c.root, c.eid, "gaussian", c.office, c.utype, est ++ "-" ++ lvl ++ "-" ++ alpha, "conformalization_data.csv"],
   .put .gauss [c.root, c.eid, "gaussian", c.office, c.utype, est ++ "-" ++ lvl ++ "-" ++ alpha, "bounds.csv"]]

def predictionKeys (c : Cfg) : List Eff :=
  (c.levels.map (fun l => Eff.put .pred [c.root, c.eid, "predictions", c.office, c.utype, l.2, "current.csv"])) ++
  (if c.unitTable then [Eff.put .pred [c.root, c.eid, "predictions", c.office, c.utype, "unit_data", "current.csv"]] else [])

def localFiles (c : Cfg) : List Eff :=
  (if c.saveConfig then [Eff.file ["config", c.eid ++ ".json"]] else []) ++
  (if c.saveData then [Eff.file ["data", c.eid, c.office, "data_" ++ c.utype ++ ".csv"]] else [])

/-- everything one call persists, in order -/
def effects (c : Cfg) : List Eff :=
  localFiles c ++
  (if !c.isLocal && c.saveResults then liveKeys c else []) ++
  (if c.gatePass then
    (if c.gaussian && c.saveConf then
      c.estimands.flatMap (fun e => c.levels.flatMap (fun l => c.alphas.flatMap (fun a => gaussKeys c e l.1 a)))
     else []) ++
    (if !c.isLocal && c.saveResults then predictionKeys c else [])
   else [])

def isPut : Eff → Bool
  | .put _ _ => true
  | .file _ => false

def kindOf : Eff → Option Kind
  | .put k _ => some k
  | .file _ => none

def keyOf : Eff → List String
  | .put _ k => k
  | .file p => p

def puts (l : List Eff) : List Eff := l.filter isPut

/-! ### a storage service that may not acknowledge a put

`S3Util.put` raises when `put_object` returns nothing; the exception is not caught anywhere in `get_estimates`, so the call ends there.
`nack = some k`: the `k`-th remote put of the call (counted from 0) is not acknowledged. -/

inductive Outcome where
  | completed | notEnough | storageError
  deriving Repr, DecidableEq

/-- how a call without storage faults ends -/
def gateOutcome (c : Cfg) : Outcome := if c.gatePass then .completed else .notEnough

/-- walk the effects in order; `i` = number of puts seen so far. Returns the effects that took hold (stored objects, files created),
    the puts attempted (including the unacknowledged one) and whether the walk was cut short -/
def walk (nack : Option Nat) : Nat → List Eff → List Eff × List Eff × Bool
  | _, [] => ([], [], false)
  | i, e :: rest =>
    if isPut e then
      if nack = some i then ([], [e], true)
      else
        let r := walk nack (i + 1) rest
        (e :: r.1, e :: r.2.1, r.2.2)
    else
      let r := walk nack i rest
      (e :: r.1, r.2.1, r.2.2)

structure FaultRun where
  stored : List Eff        -- effects that took hold, in order
  attempted : List Eff     -- remote puts attempted, in order
  outcome : Outcome

def runWithFault (c : Cfg) (nack : Option Nat) : FaultRun :=
  let r := walk nack 0 (effects c)
  { stored := r.1, attempted := r.2.1, outcome := if r.2.2 then .storageError else gateOutcome c }

end ElexModel.Persist
