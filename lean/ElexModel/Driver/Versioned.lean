import ElexModel.Driver.Util
import ElexModel.Core.Versioned

open Lean ElexModel.Driver

namespace ElexModel.Driver.Versioned
open ElexModel ElexModel.Versioned

def vOfJson (j : Json) : Except String V := do
  match ← arrOfJson j with
  | [d, g, w, t, p, n] => pure ⟨← ratOfJson d, ← ratOfJson g, ← ratOfJson w, ← ratOfJson t, ← ratOfJson p, ← ratOfJson n⟩
  | _ => throw "v = [dem,gop,weights,turnout,pev,nm]"

def run (op : String) (j : Json) : Except String Json := do
  match op with
  | "ver.compute" =>
    let vs ← listOf vOfJson (← field j "vs")
    match compute vs with
    | .error .nonMonotone => pure (Json.mkObj [("raises", "non-monotone percent expected vote")])
    | .error .batchMargin => pure (Json.mkObj [("raises", "batch_margin")])
    | .ok rows => pure (Json.mkObj [("rows", listToJson (fun r =>
        Json.arr #[natToJson r.perc, ratToJson r.nearest, ratToJson r.est, ratToJson r.corr]) rows),
        ("percents", listToJson ratToJson (percents vs))])
  | _ => throw s!"unknown op {op}"

end ElexModel.Driver.Versioned
