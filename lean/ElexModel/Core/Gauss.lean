import ElexModel.Core.Num
/-
Model of the calibration-model assignment of the gaussian estimator (property C15):
`GaussianModel._get_n_units_per_group`, the recursive `GaussianModel.fit`, and the matching loop of
`GaussianElectionModel.get_aggregate_prediction_intervals`.

A group key is the list of its key components (ranks), coarsest level first; a model row fitted at a coarser
level carries a shorter key (the missing columns are NaN in the frame).
-/
namespace ElexModel.Gauss

abbrev Key := List Nat

/-- number of calibration units inside the group with key prefix `p` -/
def cnt (conf : List Key) (p : Key) : Nat := (conf.filter (fun c => c.take p.length == p)).length

/-- `MODEL_THRESHOLD = min(10, n_conformalization_data)` -/
def thr (conf : List Key) : Nat := min 10 conf.length

def big (conf : List Key) (p : Key) : Bool := decide (thr conf ≤ cnt conf p)

def dedup : List Key → List Key
  | [] => []
  | a :: t => if t.contains a then dedup t else a :: dedup t

/-- all groups of level `l` (calibration ∪ nonreporting units), as `_get_n_units_per_group` enumerates them -/
def level (groups : List Key) (l : Nat) : List Key := dedup (groups.map (·.take l))

/-- rows of `GaussianModel.fit` called with the first `l` key columns on the full calibration set:
    per-group fit if every group is big enough, otherwise the rows of the coarser fit plus the big groups -/
def fitRows (conf groups : List Key) : Nat → List Key
  | 0 => [[]]
  | l+1 =>
    if (level groups (l+1)).all (big conf) then level groups (l+1)
    else fitRows conf groups l ++ (level groups (l+1)).filter (big conf)

/-- the matching loop: own key first, then one key column less at a time, finally the model of all units -/
def assign (rows : List Key) (L : Nat) (g : Key) : Option Key :=
  (List.range (L+1)).findSome? (fun i => if rows.contains (g.take (L - i)) then some (g.take (L - i)) else none)

/-- the rule of the property: own group if it holds at least the threshold, else its parent, … -/
def source (conf : List Key) : Nat → Key → Key
  | 0, _ => []
  | l+1, g => if big conf (g.take (l+1)) then g.take (l+1) else source conf l g

end ElexModel.Gauss
