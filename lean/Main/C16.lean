import ElexModel.Driver.Feat
def main : IO Unit := ElexModel.Driver.mainWith ElexModel.Driver.Feat.run
