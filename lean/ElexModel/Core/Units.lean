import ElexModel.Core.Num
/-
Model of `CombinedDataHandler.__init__` + `get_units` (+ the `Estimandizer` columns it relies on):
left merge of the baseline with the feed on (postal_code, id), the drop / zero policy, the three-way split,
the category decision with its precedence, unexpected units.  Properties C01, C09, C10, C11.

Identifiers and states are natural numbers (ranks of the real strings).
-/
namespace ElexModel.Units

inductive Policy where
  | drop | zero
  deriving Repr, DecidableEq

inductive Cat where
  | expected | unexpected | blocklisted | zeroBaseline | strangeTF | tfOutlier | marginOutlier
  deriving Repr, DecidableEq

/-- a baseline (preprocessed) row -/
structure Base where
  id : Nat
  state : Nat
  bw : Rat            -- baseline_weights
  deriving Repr

/-- a feed row; `none` = NaN -/
structure Feed where
  id : Nat
  state : Nat
  pev : Option Rat          -- percent_expected_vote; `none` = no figure in the feed row (taken as 0: not reporting yet)
  res : List (Option Rat)   -- results_<estimand> for the requested estimands
  rw : Option Rat           -- results_weights
  deriving Repr

structure Cfg where
  policy : Policy
  thr : Rat
  tfLo : Rat
  tfHi : Rat
  unitBlock : List Nat
  stateBlock : List Nat
  flaggedTF : List Nat       -- oracle: ids flagged by the turnout-factor outlier model
  flaggedMargin : List Nat   -- oracle: ids flagged by the margin outlier model
  deriving Repr

/-- a row of `CombinedDataHandler.data` -/
structure Row where
  id : Nat
  state : Nat
  bw : Rat
  pev : Rat
  res : List Rat
  rw : Option Rat
  tf : Rat
  deriving Repr

def findFeed (b : Base) (feed : List Feed) : Option Feed :=
  feed.find? (fun f => f.id == b.id && f.state == b.state)

def complete (f : Feed) : Bool := f.res.all (fun r => r.isSome)

/-- `np.nan_to_num(results_weights / baseline_weights, nan=0, posinf=0, neginf=0)` -/
def turnoutFactor (rw : Option Rat) (bw : Rat) : Rat :=
  match rw with
  | none => 0
  | some w => divz w bw

/-- one baseline row through the left merge and the unreporting policy -/
def joinRow (p : Policy) (nres : Nat) (b : Base) (feed : List Feed) : Option Row :=
  match findFeed b feed with
  | none =>
    match p with
    | .drop => none
    | .zero => some ⟨b.id, b.state, b.bw, 0, List.replicate nres 0, none, 0⟩
  | some f =>
    if complete f then
      some ⟨b.id, b.state, b.bw, f.pev.getD 0, f.res.map (fun r => r.getD 0), f.rw, turnoutFactor f.rw b.bw⟩
    else
      match p with
      | .drop => none
      | .zero => some ⟨b.id, b.state, b.bw, 0, f.res.map (fun r => r.getD 0), f.rw, turnoutFactor f.rw b.bw⟩

def dataRows (p : Policy) (nres : Nat) (base : List Base) (feed : List Feed) : List Row :=
  base.filterMap (fun b => joinRow p nres b feed)

def blocklisted (c : Cfg) (r : Row) : Bool := c.unitBlock.contains r.id || c.stateBlock.contains r.state

def isReporting (c : Cfg) (r : Row) : Bool := decide (c.thr ≤ r.pev)

def strange (c : Cfg) (r : Row) : Bool := decide (r.tf ≤ c.tfLo) || decide (c.tfHi ≤ r.tf)

/-- the category of a joined row: the first applicable reason in the order the frames are concatenated
    (`drop_duplicates` keeps the first) -/
def category (c : Cfg) (r : Row) : Cat :=
  if blocklisted c r then .blocklisted
  else if r.bw = 0 then .zeroBaseline
  else if isReporting c r && strange c r then .strangeTF
  else if isReporting c r && c.flaggedTF.contains r.id then .tfOutlier
  else if isReporting c r && c.flaggedMargin.contains r.id then .marginOutlier
  else .expected

/-- first occurrence of each id -/
def dedupFeed : List Feed → List Nat → List Feed
  | [], _ => []
  | f :: t, seen => if seen.contains f.id then dedupFeed t seen else f :: dedupFeed t (f.id :: seen)

/-- feed rows whose id is not an id of `data` -/
def unexpectedFeed (rows : List Row) (feed : List Feed) : List Feed :=
  dedupFeed (feed.filter (fun f => !(rows.map (·.id)).contains f.id)) []

structure Split where
  rep : List Row
  nonrep : List Row
  unexp : List Feed                 -- category `unexpected`
  nonmod : List (Row × Cat)         -- non-modelled rows with their category
  deriving Repr

def split (c : Cfg) (nres : Nat) (base : List Base) (feed : List Feed) : Split :=
  let rows := dataRows c.policy nres base feed
  { rep := rows.filter (fun r => category c r == .expected && isReporting c r),
    nonrep := rows.filter (fun r => category c r == .expected && !isReporting c r),
    unexp := unexpectedFeed rows feed,
    nonmod := (rows.filter (fun r => category c r != .expected)).map (fun r => (r, category c r)) }

def Split.ids (s : Split) : List Nat :=
  s.rep.map (·.id) ++ s.nonrep.map (·.id) ++ s.unexp.map (·.id) ++ s.nonmod.map (·.1.id)

/-- derived quantities of the Estimandizer: margin, two-party weights, normalised margin -/
def margin (dem gop : Rat) : Rat := dem - gop
def twoParty (dem gop : Rat) : Rat := dem + gop
def normMargin (dem gop : Rat) : Rat := divz (dem - gop) (dem + gop)

end ElexModel.Units
