import Mathlib.Tactic.Linarith
import ElexModel.Core.Conformal
import ElexModel.Lemmas.Num
import ElexModel.Gen.C14
import Mathlib.Tactic.FieldSimp

/-!
# C14 — enough reporting units means an estimate; too few means the dedicated error

Arithmetic of the calibration split over ℚ, stated robustly: for *any* integer count `n` at or above the exact
bound `(1+α)/(1−α)` and *any* fraction `cf` at most `1/100` above the unrounded `min(1 − m'/n, 9/10)`
(so the float evaluation and the `round(…, 2)` are covered), plus the gate of `ModelClient.get_estimates`.
-/

namespace ElexModel.Conformal
open ElexModel

/-- the ceiling is at least the exact bound -/
theorem minUnits_ge (alpha : ℚ) : -1 * (alpha + 1) / (alpha - 1) ≤ (minUnits alpha : ℚ) := by
  unfold minUnits; rw [ratCeil_eq]; exact Int.le_ceil _

theorem bound_eq (alpha : ℚ) (h1 : alpha < 1) : -1 * (alpha + 1) / (alpha - 1) = (1 + alpha) / (1 - alpha) := by
  have : alpha - 1 ≠ 0 := by linarith
  have : 1 - alpha ≠ 0 := by linarith
  field_simp; ring

/-- **the split always leaves at least one training unit** -/
theorem train_at_least_one (n : ℕ) (cf : ℚ) : 1 ≤ trainRows n cf := by
  unfold trainRows; exact le_max_left _ _

/-- **and at least one calibration unit; in fact more than α/(1−α) of them**, for every count at or above the
    minimum and every fraction at most 1/100 above the unrounded one (rounding to two decimals moves it by ≤ 1/200) -/
theorem cal_enough (alpha : ℚ) (h0 : 0 < alpha) (h1 : alpha < 1) (n : ℕ)
    (hn : (1 + alpha) / (1 - alpha) ≤ (n : ℚ)) (cf : ℚ)
    (hcf : cf ≤ min (1 - ((1 + alpha) / (1 - alpha)) / n) (9/10) + 1/100) :
    alpha / (1 - alpha) < ((nCal n cf : ℤ) : ℚ) := by
  have h1a : 0 < 1 - alpha := by linarith
  set m := (1 + alpha) / (1 - alpha) with hm
  have hmeq : m * (1 - alpha) = 1 + alpha := by rw [hm]; field_simp
  have hm1 : 1 < m := by rw [hm, lt_div_iff₀ h1a]; linarith
  have hnpos : (0:ℚ) < n := by linarith
  have hq : alpha / (1 - alpha) = m - 1 / (1 - alpha) := by rw [hm]; field_simp; ring
  have hinv : 0 < 1 / (1 - alpha) := by positivity
  have hinv1 : 1 ≤ 1 / (1 - alpha) := by rw [le_div_iff₀ h1a]; linarith
  -- a / (1 - a) = (m - 1) / 2
  have hhalf : alpha / (1 - alpha) = (m - 1) / 2 := by rw [hm]; field_simp; ring
  unfold nCal trainRows
  rw [ratFloor_eq]
  rcases le_total (⌊(n:ℚ) * cf⌋ : ℤ) 1 with hle | hge
  · -- one training row: n - 1 ≥ m - 1 = 2a/(1-a) > a/(1-a)
    rw [max_eq_left hle]
    rw [hhalf]; push_cast; linarith
  · rw [max_eq_right hge]
    push_cast
    have hfl : ((⌊(n:ℚ) * cf⌋ : ℤ) : ℚ) ≤ (n:ℚ) * cf := Int.floor_le _
    have hc1 : cf ≤ 1 - m / n + 1/100 := le_trans hcf (by linarith [min_le_left (1 - m / (n:ℚ)) (9/10)])
    have hc2 : cf ≤ 9/10 + 1/100 := le_trans hcf (by linarith [min_le_right (1 - m / (n:ℚ)) (9/10)])
    have hmn : m / n * n = m := by field_simp
    rw [hhalf]
    rcases le_total (n:ℚ) (10 * m) with hsmall | hlarge
    · -- n ≤ 10 m : n - n cf ≥ m - n/200 ≥ 0.95 m > (m-1)/2
      have : (n:ℚ) * cf ≤ n - m + n / 100 := by
        have := mul_le_mul_of_nonneg_left hc1 hnpos.le
        calc (n:ℚ) * cf ≤ n * (1 - m / n + 1/100) := this
          _ = n - m / n * n + n / 100 := by ring
          _ = n - m + n / 100 := by rw [hmn]
      linarith
    · -- n ≥ 10 m : n - n cf ≥ 0.095 n ≥ 0.95 m
      have : (n:ℚ) * cf ≤ n * (9/10 + 1/100) := mul_le_mul_of_nonneg_left hc2 hnpos.le
      linarith

/-- hence the quantile level is a valid level (`< 1`): the population correction exists and `np.quantile`
    accepts it -/
theorem qLevel_lt_one (alpha : ℚ) (h0 : 0 < alpha) (h1 : alpha < 1) (ncal : ℚ)
    (h : alpha / (1 - alpha) < ncal) : qLevel alpha ncal < 1 := by
  have h1a : 0 < 1 - alpha := by linarith
  have hpos : 0 < ncal := lt_trans (by positivity) h
  unfold qLevel
  have : alpha < ncal * (1 - alpha) := by rwa [div_lt_iff₀ h1a] at h
  have e : alpha * (1 + 1 / ncal) = alpha + alpha / ncal := by ring
  rw [e]
  have : alpha / ncal < 1 - alpha := by rw [div_lt_iff₀ hpos]; linarith
  linarith

theorem qLevel_pos (alpha : ℚ) (h0 : 0 < alpha) (ncal : ℚ) (h : 0 < ncal) : 0 < qLevel alpha ncal := by
  unfold qLevel; positivity

/-- **complete statement at the model's own values**: at or above `minUnits α` the split has ≥ 1 training unit,
    ≥ 1 calibration unit and a valid quantile level -/
theorem split_ok (alpha : ℚ) (h0 : 0 < alpha) (h1 : alpha < 1) (n : ℕ) (hn : minUnits alpha ≤ (n : ℤ)) :
    1 ≤ trainRows n (confFrac n alpha) ∧ 1 ≤ nCal n (confFrac n alpha) ∧
    qLevel alpha (nCal n (confFrac n alpha) : ℤ) < 1 := by
  have hnq : (1 + alpha) / (1 - alpha) ≤ (n : ℚ) := by
    rw [← bound_eq alpha h1]
    refine le_trans (minUnits_ge alpha) ?_
    exact_mod_cast hn
  have hnpos : (0:ℚ) < n := lt_of_lt_of_le (by
    have : 0 < 1 - alpha := by linarith
    positivity) hnq
  -- the rounded fraction is within 1/200 of the unrounded one
  have hround : confFrac n alpha ≤ confFracRaw n alpha + 1/200 := by
    unfold confFrac pyRound
    have := (rhe_near (confFracRaw (n:ℚ) alpha * ((10 ^ 2 : ℕ) : ℚ))).1
    have h100 : (((10 ^ 2 : ℕ) : ℚ)) = 100 := by norm_num
    rw [h100] at this ⊢
    rw [div_le_iff₀ (by norm_num : (0:ℚ) < 100)]
    linarith
  have hraw : confFracRaw n alpha = min (1 - ((1 + alpha) / (1 - alpha)) / n) (9/10) := by
    unfold confFracRaw
    rw [rmin_eq]
    congr 1
    have h1a : (1 - alpha) ≠ 0 := by linarith
    have h2a : (alpha - 1) ≠ 0 := by linarith
    field_simp
    ring
  have hc := cal_enough alpha h0 h1 n hnq (confFrac n alpha) (by rw [← hraw]; linarith [hround])
  refine ⟨train_at_least_one _ _, ?_, qLevel_lt_one alpha h0 h1 _ hc⟩
  have hpos : (0:ℚ) < ((nCal n (confFrac n alpha) : ℤ) : ℚ) := lt_trans (by
    have : 0 < 1 - alpha := by linarith
    positivity) hc
  have : (0:ℤ) < nCal n (confFrac n alpha) := by exact_mod_cast hpos
  omega

/-- gaussian split: with at least 7 reporting units there is a training unit and ≥ 3 calibration units -/
theorem gauss_split (n : ℕ) (hn : 7 ≤ n) :
    1 ≤ trainRows n gaussConfFrac ∧ trainRows n gaussConfFrac < n ∧ 3 ≤ nCal n gaussConfFrac := by
  unfold nCal trainRows gaussConfFrac
  rw [ratFloor_eq]
  have hf : ⌊(n:ℚ) * (7/10)⌋ = (7 * (n:ℤ)) / 10 := by
    have : (n:ℚ) * (7/10) = ((7 * (n:ℤ) : ℤ) : ℚ) / ((10:ℕ):ℚ) := by push_cast; ring
    rw [this]
    exact Rat.floor_intCast_div_natCast _ _
  rw [hf]
  omega

/-! ### the gate -/

theorem gateMin_ge (mins : List ℚ) (acc : ℚ) :
    acc ≤ mins.foldl (fun acc m => if acc < m then m else acc) acc ∧
    ∀ m ∈ mins, m ≤ mins.foldl (fun acc m => if acc < m then m else acc) acc := by
  induction mins generalizing acc with
  | nil => simp
  | cons a t ih =>
    simp only [List.foldl_cons]
    obtain ⟨h1, h2⟩ := ih (if acc < a then a else acc)
    have hacc : acc ≤ if acc < a then a else acc := by split <;> [exact le_of_lt ‹_›; exact le_refl _]
    have ha : a ≤ if acc < a then a else acc := by split <;> [exact le_refl _; exact not_lt.mp ‹_›]
    refine ⟨le_trans hacc h1, ?_⟩
    intro m hm
    rcases List.mem_cons.mp hm with rfl | hm
    · exact le_trans ha h1
    · exact h2 m hm

theorem gateMin_mem (mins : List ℚ) (acc : ℚ) :
    mins.foldl (fun acc m => if acc < m then m else acc) acc = acc ∨
    mins.foldl (fun acc m => if acc < m then m else acc) acc ∈ mins := by
  induction mins generalizing acc with
  | nil => simp
  | cons a t ih =>
    simp only [List.foldl_cons]
    rcases ih (if acc < a then a else acc) with h | h
    · rw [h]
      split
      · right; exact List.mem_cons_self ..
      · left; rfl
    · right; exact List.mem_cons_of_mem _ h

/-- **the dedicated error is raised iff the count is below the largest minimum of any requested level**
    (not just the first or the last one) -/
theorem gate_iff (mins : List ℚ) (nRep : ℕ) :
    gateRaises mins nRep = true ↔ ∃ m ∈ mins, (nRep : ℚ) < m := by
  unfold gateRaises gateMin
  simp only [decide_eq_true_eq]
  constructor
  · intro h
    rcases gateMin_mem mins 0 with h0 | hmem
    · rw [h0] at h
      exact absurd h (not_lt.mpr (by positivity))
    · exact ⟨_, hmem, h⟩
  · rintro ⟨m, hm, hlt⟩
    exact lt_of_lt_of_le hlt ((gateMin_ge mins 0).2 m hm)

/-! ### bridge to the definitions regenerated from `/repo/src` on this run -/

theorem bridge_min_units (alpha : ℚ) : Gen.C14.np_min_units alpha = (minUnits alpha : ℚ) := rfl
theorem bridge_conf_frac (n alpha : ℚ) : Gen.C14.np_conf_frac n alpha = confFrac n alpha := rfl
theorem bridge_quantile (alpha ncal : ℚ) : Gen.C14.correction_quantile alpha ncal = qLevel alpha ncal := rfl
theorem bridge_train_rows (n : ℕ) (cf : ℚ) : Gen.C14.train_rows (n : ℚ) cf = (trainRows n cf : ℚ) := by
  unfold Gen.C14.train_rows trainRows
  rw [rmax_eq]; push_cast; rfl
theorem bridge_gauss : Gen.C14.gauss_conf_frac = gaussConfFrac ∧ ∀ a, Gen.C14.gauss_min_units a = gaussMinUnits :=
  ⟨rfl, fun _ => rfl⟩
theorem bridge_base_boot (a : ℚ) : Gen.C14.base_min_units a = 10 ∧ Gen.C14.boot_min_units a = 10 := ⟨rfl, rfl⟩

/-! ### non-vacuity: exactly at the minimum -/
example : minUnits (7/10) = 6 ∧ confFrac 6 (7/10) = 3/50 ∧ trainRows 6 (3/50) = 1 ∧ nCal 6 (3/50) = 5 := by
  decide +kernel
example : minUnits (1/2) = 3 ∧ trainRows 3 (confFrac 3 (1/2)) = 1 ∧ nCal 3 (confFrac 3 (1/2)) = 2 := by decide +kernel
example : gateRaises [6, 19] 10 = true ∧ gateRaises [19, 6] 10 = true ∧ gateRaises [6, 19] 19 = false := by
  decide +kernel

end ElexModel.Conformal

namespace ElexModel.Conformal
open ElexModel

/-- **C14 on the source**: with the formulas as they are written in `/repo/src` today, any number of reporting units at or above
    `get_minimum_reporting_units(α)` gives at least one training unit, at least one calibration unit and a quantile level below 1 —
    for every `0 < α < 1`, every `n` -/
theorem source_split_ok (alpha : ℚ) (h0 : 0 < alpha) (h1 : alpha < 1) (n : ℕ) (hn : Gen.C14.np_min_units alpha ≤ (n : ℚ)) :
    1 ≤ Gen.C14.train_rows (n : ℚ) (Gen.C14.np_conf_frac (n : ℚ) alpha) ∧
    1 ≤ (n : ℚ) - Gen.C14.train_rows (n : ℚ) (Gen.C14.np_conf_frac (n : ℚ) alpha) ∧
    Gen.C14.correction_quantile alpha ((n : ℚ) - Gen.C14.train_rows (n : ℚ) (Gen.C14.np_conf_frac (n : ℚ) alpha)) < 1 := by
  rw [bridge_min_units] at hn
  have hn' : minUnits alpha ≤ (n : ℤ) := by exact_mod_cast hn
  obtain ⟨a, b, c⟩ := split_ok alpha h0 h1 n hn'
  rw [bridge_conf_frac, bridge_train_rows, bridge_quantile]
  have hcal : ((nCal n (confFrac (n : ℚ) alpha) : ℤ) : ℚ) = (n : ℚ) - (trainRows n (confFrac (n : ℚ) alpha) : ℚ) := by
    unfold nCal; push_cast; ring
  refine ⟨by exact_mod_cast a, ?_, ?_⟩
  · rw [← hcal]; exact_mod_cast b
  · rw [← hcal]; exact c

end ElexModel.Conformal
