import ElexModel.Driver.Util
import ElexModel.Core.Conformal
import ElexModel.Gen.C14

open Lean ElexModel.Driver

namespace ElexModel.Driver.Conformal
open ElexModel ElexModel.Conformal

def pairOfJson (j : Json) : Except String (Rat × Rat) := do
  match ← arrOfJson j with
  | [a, b] => pure (← ratOfJson a, ← ratOfJson b)
  | _ => throw "pair"

def run (op : String) (j : Json) : Except String Json := do
  match op with
  | "conf.split" =>
    let alpha ← ratOfJson (← field j "alpha")
    let n ← natOfJson (← field j "n")
    let cf := confFrac n alpha
    pure (Json.mkObj [
      ("min", intToJson (minUnits alpha)), ("cf", ratToJson cf), ("cf_raw", ratToJson (confFracRaw n alpha)),
      ("train", intToJson (trainRows n cf)), ("ncal", intToJson (nCal n cf)),
      ("q", if nCal n cf = 0 then Json.null else ratToJson (qLevel alpha (nCal n cf : Int))),
      ("gen_min", ratToJson (Gen.C14.np_min_units alpha)), ("gen_cf", ratToJson (Gen.C14.np_conf_frac n alpha)),
      ("gen_train", ratToJson (Gen.C14.train_rows n (Gen.C14.np_conf_frac n alpha)))])
  | "conf.train" =>
    let n ← natOfJson (← field j "n")
    let cf ← ratOfJson (← field j "cf")
    pure (Json.mkObj [("train", intToJson (trainRows n cf)), ("ncal", intToJson (nCal n cf)),
      ("gen_train", ratToJson (Gen.C14.train_rows n cf))])
  | "conf.consts" =>
    let a ← ratOfJson (← field j "alpha")
    pure (Json.mkObj [("gauss_cf", ratToJson Gen.C14.gauss_conf_frac), ("gauss_min", ratToJson (Gen.C14.gauss_min_units a)),
      ("base_min", ratToJson (Gen.C14.base_min_units a)), ("boot_min", ratToJson (Gen.C14.boot_min_units a)),
      ("upper_tau", ratToJson (Gen.C14.upper_tau a)), ("lower_tau", ratToJson (Gen.C14.lower_tau a))])
  | "conf.gate" =>
    let mins ← listOf ratOfJson (← field j "mins")
    let nrep ← natOfJson (← field j "nrep")
    pure (Json.bool (gateRaises mins nrep))
  | "conf.pop" =>
    let sw ← listOf pairOfJson (← field j "sw")
    let q ← ratOfJson (← field j "q")
    let robust ← boolOfJson (← field j "robust")
    pure (Json.mkObj [("pop", optToJson ratToJson (popCorrection sw q)),
      ("corr", optToJson ratToJson (correction robust sw q)),
      ("npq", ratToJson (npQuantile (sw.map Prod.fst) q))])
  | "conf.loo" =>
    let l ← listOf ratOfJson (← field j "scores")
    let q ← ratOfJson (← field j "q")
    let idx := List.range l.length
    pure (Json.mkObj [("corr", Json.arr (idx.map (fun i => optToJson ratToJson (looCorrection l q i))).toArray),
      ("covered", Json.arr (idx.map (fun i => Json.bool (covered l q i))).toArray),
      ("count", Json.num ((idx.countP (covered l q) : Nat) : Int))])
  | "conf.final" =>
    let l ← ratOfJson (← field j "l")
    let u ← ratOfJson (← field j "u")
    let c ← ratOfJson (← field j "c")
    let w ← ratOfJson (← field j "w")
    let part ← ratOfJson (← field j "part")
    pure (Json.arr #[intToJson (finalLower l c w part), intToJson (finalUpper u c w part),
      ratToJson (rmax ((l - c) * w + w) part), ratToJson (rmax ((u + c) * w + w) part)])
  | "conf.wmed" =>
    let rw ← listOf pairOfJson (← field j "rw")
    pure (optToJson ratToJson (wmed rw))
  | "conf.swing" =>
    let m ← ratOfJson (← field j "m")
    let b ← ratOfJson (← field j "b")
    let part ← ratOfJson (← field j "part")
    pure (Json.arr #[intToJson (swingPred m b part), ratToJson (rmax ((1 + m) * (b + 1)) part)])
  | _ => throw s!"unknown op {op}"

end ElexModel.Driver.Conformal
