import ElexModel.Core.Units
import ElexModel.Props.C02
import ElexModel.Props.C09

/-!
# C01 — counted votes are conserved and every unit is reported exactly once

Part 1: the three-way split (`Units.split`) — every id exactly once, exactly one category, no vote lost
between the feed and the unit rows (under `FeedConsistent`; the excluded point is known finding KF-1).
Part 2: the counted / reporting columns of every aggregate table are sums over the attributable units
(`Agg.agg_counted_is_sum`, `Agg.agg_row_exists_iff`, proved in `Props/C02.lean` and restated here).
-/

namespace ElexModel.Units
open ElexModel

theorem joinRow_id {p : Policy} {n : ℕ} {b : Base} {feed : List Feed} {r : Row}
    (h : joinRow p n b feed = some r) : r.id = b.id := by
  unfold joinRow at h
  split at h
  · cases p <;> simp at h; subst h; rfl
  · split at h
    · simp at h; subst h; rfl
    · cases p <;> simp at h; subst h; rfl

/-- ids of `data` are, in order, a sub-list of the baseline ids -/
theorem dataRows_ids_sublist (p : Policy) (n : ℕ) (base : List Base) (feed : List Feed) :
    ((dataRows p n base feed).map (·.id)).Sublist (base.map (·.id)) := by
  unfold dataRows
  induction base with
  | nil => simp
  | cons b t ih =>
    simp only [List.filterMap_cons, List.map_cons]
    cases h : joinRow p n b feed with
    | none => exact List.Sublist.cons _ ih
    | some r =>
      simp only [List.map_cons]
      rw [joinRow_id h]
      exact List.Sublist.cons_cons _ ih

theorem dataRows_ids_nodup (p : Policy) (n : ℕ) (base : List Base) (feed : List Feed)
    (hb : (base.map (·.id)).Nodup) : ((dataRows p n base feed).map (·.id)).Nodup :=
  (dataRows_ids_sublist p n base feed).nodup hb

/-! ### de-duplication of the unexpected feed rows -/

theorem dedupFeed_spec (l : List Feed) (seen : List ℕ) :
    ((dedupFeed l seen).map (·.id)).Nodup ∧ (∀ x ∈ (dedupFeed l seen).map (·.id), x ∉ seen) ∧
    (∀ f ∈ dedupFeed l seen, f ∈ l) ∧
    (∀ x ∈ l.map (·.id), x ∈ seen ∨ x ∈ (dedupFeed l seen).map (·.id)) := by
  induction l generalizing seen with
  | nil => simp [dedupFeed]
  | cons f t ih =>
    unfold dedupFeed
    by_cases hs : seen.contains f.id = true
    · rw [if_pos hs]
      obtain ⟨a, b, c, d⟩ := ih seen
      refine ⟨a, b, fun g hg => List.mem_cons_of_mem _ (c g hg), ?_⟩
      intro x hx
      simp only [List.map_cons, List.mem_cons] at hx
      rcases hx with rfl | hx
      · left; simpa using hs
      · exact d x hx
    · rw [if_neg hs]
      obtain ⟨a, b, c, d⟩ := ih (f.id :: seen)
      have hs' : f.id ∉ seen := by simpa using hs
      refine ⟨?_, ?_, ?_, ?_⟩
      · simp only [List.map_cons]
        refine List.nodup_cons.mpr ⟨?_, a⟩
        intro hmem
        exact (b f.id hmem) (List.mem_cons_self ..)
      · intro x hx
        simp only [List.map_cons, List.mem_cons] at hx
        rcases hx with rfl | hx
        · exact hs'
        · exact fun h => (b x hx) (List.mem_cons_of_mem _ h)
      · intro g hg
        rcases List.mem_cons.mp hg with rfl | hg
        · exact List.mem_cons_self ..
        · exact List.mem_cons_of_mem _ (c g hg)
      · intro x hx
        simp only [List.map_cons, List.mem_cons] at hx ⊢
        rcases hx with rfl | hx
        · right; left; rfl
        · rcases d x hx with h | h
          · rcases List.mem_cons.mp h with rfl | h
            · right; left; rfl
            · left; exact h
          · right; right; exact h

theorem unexpected_ids_nodup (rows : List Row) (feed : List Feed) :
    ((unexpectedFeed rows feed).map (·.id)).Nodup := (dedupFeed_spec _ []).1

theorem unexpected_mem_feed (rows : List Row) (feed : List Feed) (f : Feed)
    (h : f ∈ unexpectedFeed rows feed) : f ∈ feed ∧ f.id ∉ rows.map (·.id) := by
  unfold unexpectedFeed at h
  have := (dedupFeed_spec _ []).2.2.1 f h
  rw [List.mem_filter] at this
  exact ⟨this.1, by simpa using this.2⟩

/-! ### every unit exactly once -/

theorem disjoint_filter_ids {l : List Row} (hn : (l.map (·.id)).Nodup) (p q : Row → Bool)
    (hpq : ∀ r, p r = true → q r = true → False) :
    ∀ x, x ∈ (l.filter p).map (·.id) → x ∈ (l.filter q).map (·.id) → False := by
  intro x h1 h2
  simp only [List.mem_map, List.mem_filter] at h1 h2
  obtain ⟨r1, ⟨hr1, hp⟩, rfl⟩ := h1
  obtain ⟨r2, ⟨hr2, hq⟩, he⟩ := h2
  have : r2 = r1 := List.inj_on_of_nodup_map hn hr2 hr1 he
  subst this
  exact hpq r2 hp hq

/-- **no id appears twice** across the reporting, nonreporting, unexpected and non-modelled rows -/
theorem split_ids_nodup (c : Cfg) (n : ℕ) (base : List Base) (feed : List Feed)
    (hb : (base.map (·.id)).Nodup) : (split c n base feed).ids.Nodup := by
  have hrows := dataRows_ids_nodup c.policy n base feed hb
  unfold Split.ids split
  simp only []
  set rows := dataRows c.policy n base feed with hrowsdef
  have sub : ∀ p : Row → Bool, ((rows.filter p).map (·.id)).Nodup := fun p =>
    ((List.filter_sublist).map _).nodup hrows
  have hmapmap : ((rows.filter (fun r => category c r != .expected)).map (fun r => (r, category c r))).map (·.1.id)
      = (rows.filter (fun r => category c r != .expected)).map (·.id) := by
    simp [List.map_map, Function.comp_def]
  rw [hmapmap]
  refine List.nodup_append.mpr ⟨List.nodup_append.mpr ⟨List.nodup_append.mpr ⟨sub _, sub _, ?_⟩, unexpected_ids_nodup _ _, ?_⟩, sub _, ?_⟩
  · intro a ha b hb' hab
    subst hab
    exact disjoint_filter_ids hrows _ _ (by intro r h1 h2; simp_all) a ha hb'
  · intro a ha b hb' hab
    subst hab
    obtain ⟨f, hf, rfl⟩ := List.mem_map.mp hb'
    have := (unexpected_mem_feed rows feed f hf).2
    apply this
    rcases List.mem_append.mp ha with h | h
    · exact (List.filter_sublist.map _).subset h
    · exact (List.filter_sublist.map _).subset h
  · intro a ha b hb' hab
    subst hab
    rcases List.mem_append.mp ha with h | h
    · rcases List.mem_append.mp h with h | h
      · exact disjoint_filter_ids hrows _ _ (by intro r h1 h2; simp_all) a h hb'
      · exact disjoint_filter_ids hrows _ _ (by intro r h1 h2; simp_all) a h hb'
    · obtain ⟨f, hf, rfl⟩ := List.mem_map.mp h
      exact (unexpected_mem_feed rows feed f hf).2 ((List.filter_sublist.map _).subset hb')

/-- every joined row lands in exactly one of the three frames built from `data` -/
theorem row_in_some_frame (c : Cfg) (n : ℕ) (base : List Base) (feed : List Feed) (r : Row)
    (h : r ∈ dataRows c.policy n base feed) :
    r.id ∈ (split c n base feed).ids := by
  unfold Split.ids split
  simp only [List.mem_append, List.mem_map, List.mem_filter]
  by_cases hc : category c r = .expected
  · by_cases hr : isReporting c r = true
    · left; left; left; exact ⟨r, ⟨h, by simp [hc, hr]⟩, rfl⟩
    · left; left; right; exact ⟨r, ⟨h, by simp [hc, hr]⟩, rfl⟩
  · right
    refine ⟨(r, category c r), ⟨r, ⟨h, by simp [hc]⟩, rfl⟩, rfl⟩

/-- **every unit of the feed is reported** (both policies) -/
theorem split_covers_feed (c : Cfg) (n : ℕ) (base : List Base) (feed : List Feed) (f : Feed) (hf : f ∈ feed) :
    f.id ∈ (split c n base feed).ids := by
  by_cases hm : f.id ∈ (dataRows c.policy n base feed).map (·.id)
  · obtain ⟨r, hr, he⟩ := List.mem_map.mp hm
    rw [← he]; exact row_in_some_frame c n base feed r hr
  · have hfilt : f.id ∈ (feed.filter (fun f => !((dataRows c.policy n base feed).map (·.id)).contains f.id)).map (·.id) := by
      apply List.mem_map.mpr
      exact ⟨f, List.mem_filter.mpr ⟨hf, by simpa using hm⟩, rfl⟩
    have := (dedupFeed_spec _ []).2.2.2 f.id hfilt
    rcases this with h | h
    · cases h
    · unfold Split.ids split
      simp only [List.mem_append]
      left; right; exact h

/-- under the `zero` policy **every baseline unit is reported** as well -/
theorem split_covers_base_zero (c : Cfg) (n : ℕ) (base : List Base) (feed : List Feed) (hz : c.policy = .zero)
    (b : Base) (hb : b ∈ base) : b.id ∈ (split c n base feed).ids := by
  have : ∃ r, joinRow c.policy n b feed = some r := by
    unfold joinRow; rw [hz]
    split
    · exact ⟨_, rfl⟩
    · split <;> exact ⟨_, rfl⟩
  obtain ⟨r, hr⟩ := this
  have hmem : r ∈ dataRows c.policy n base feed := by
    unfold dataRows; exact List.mem_filterMap.mpr ⟨b, hb, hr⟩
  rw [← joinRow_id hr]
  exact row_in_some_frame c n base feed r hmem

/-- nothing is invented: every reported id is a feed id or a baseline id -/
theorem split_ids_known (c : Cfg) (n : ℕ) (base : List Base) (feed : List Feed) (x : ℕ)
    (h : x ∈ (split c n base feed).ids) : x ∈ feed.map (·.id) ∨ x ∈ base.map (·.id) := by
  unfold Split.ids split at h
  simp only [List.mem_append] at h
  have hrow : ∀ p : Row → Bool, x ∈ ((dataRows c.policy n base feed).filter p).map (·.id) → x ∈ base.map (·.id) :=
    fun p hx => (dataRows_ids_sublist c.policy n base feed).subset ((List.filter_sublist.map _).subset hx)
  rcases h with ((h | h) | h) | h
  · right; exact hrow _ h
  · right; exact hrow _ h
  · left
    obtain ⟨f, hf, rfl⟩ := List.mem_map.mp h
    exact List.mem_map.mpr ⟨f, (unexpected_mem_feed _ _ f hf).1, rfl⟩
  · right
    have h' : x ∈ ((dataRows c.policy n base feed).filter (fun r => category c r != .expected)).map (·.id) := by
      simpa [List.map_map, Function.comp_def] using h
    exact hrow _ h'

/-! ### no vote is lost between the feed and the unit rows -/

/-- a feed row whose id is in the baseline carries the baseline's postal code (the excluded point is KF-1) -/
def FeedConsistent (base : List Base) (feed : List Feed) : Prop :=
  ∀ f ∈ feed, ∀ b ∈ base, f.id = b.id → f.state = b.state

theorem find_unique {feed : List Feed} (hn : (feed.map (·.id)).Nodup) {f : Feed} (hf : f ∈ feed) {b : Base}
    (hid : f.id = b.id) (hst : f.state = b.state) : findFeed b feed = some f := by
  unfold findFeed
  induction feed with
  | nil => cases hf
  | cons g t ih =>
    have hn' : g.id ∉ t.map (·.id) ∧ (t.map (·.id)).Nodup := by
      rw [List.map_cons] at hn; exact List.nodup_cons.mp hn
    rw [List.find?_cons]
    by_cases hg : (g.id == b.id && g.state == b.state) = true
    · rw [hg]
      rcases List.mem_cons.mp hf with rfl | hft
      · rfl
      · exfalso
        have : g.id = b.id := by simp only [Bool.and_eq_true, beq_iff_eq] at hg; exact hg.1
        apply hn'.1
        rw [this, ← hid]
        exact List.mem_map.mpr ⟨f, hft, rfl⟩
    · simp only [Bool.not_eq_true] at hg
      rw [hg]
      rcases List.mem_cons.mp hf with rfl | hft
      · simp [hid, hst] at hg
      · exact ih hn'.2 hft

/-- **every complete feed row keeps its votes**: it is either joined to its baseline row with exactly its
    counts and reporting percentage, or passed through as an unexpected unit with exactly its counts -/
theorem votes_preserved (c : Cfg) (n : ℕ) (base : List Base) (feed : List Feed)
    (hfeed : (feed.map (·.id)).Nodup) (hcons : FeedConsistent base feed)
    (f : Feed) (hf : f ∈ feed) (hc : complete f = true) :
    (∃ r ∈ dataRows c.policy n base feed, r.id = f.id ∧ r.res = f.res.map (fun x => x.getD 0) ∧ r.pev = f.pev.getD 0) ∨
    f ∈ (split c n base feed).unexp := by
  by_cases hb : ∃ b ∈ base, b.id = f.id
  · obtain ⟨b, hbm, hbid⟩ := hb
    left
    have hfind := find_unique hfeed hf hbid.symm (hcons f hf b hbm hbid.symm)
    refine ⟨⟨b.id, b.state, b.bw, f.pev.getD 0, f.res.map (fun r => r.getD 0), f.rw, turnoutFactor f.rw b.bw⟩, ?_, hbid, rfl, rfl⟩
    unfold dataRows
    refine List.mem_filterMap.mpr ⟨b, hbm, ?_⟩
    unfold joinRow
    rw [hfind]
    simp [hc]
  · right
    have hnot : f.id ∉ (dataRows c.policy n base feed).map (·.id) := by
      intro hm
      have := (dataRows_ids_sublist c.policy n base feed).subset hm
      obtain ⟨b, hbm, hbid⟩ := List.mem_map.mp this
      exact hb ⟨b, hbm, hbid⟩
    -- with unique feed ids the de-duplication keeps every filtered row
    have hfm : f ∈ feed.filter (fun f => !((dataRows c.policy n base feed).map (·.id)).contains f.id) :=
      List.mem_filter.mpr ⟨hf, by simpa using hnot⟩
    have hid := (dedupFeed_spec (feed.filter (fun f => !((dataRows c.policy n base feed).map (·.id)).contains f.id)) []).2.2.2
      f.id (List.mem_map.mpr ⟨f, hfm, rfl⟩)
    rcases hid with h | h
    · cases h
    · obtain ⟨g, hg, hge⟩ := List.mem_map.mp h
      have hgf := (dedupFeed_spec (feed.filter (fun f => !((dataRows c.policy n base feed).map (·.id)).contains f.id)) []).2.2.1 g hg
      have hgfeed : g ∈ feed := (List.mem_filter.mp hgf).1
      have : g = f := List.inj_on_of_nodup_map hfeed hgfeed hf hge
      subst this
      exact hg

end ElexModel.Units

namespace ElexModel.Agg
open ElexModel ElexModel.Table

/-- **counted votes are conserved at every level**: the counted column of a group is the sum of the counted votes
    of the units attributable to it and the reporting column counts its modelled reporting units -/
theorem counted_conserved (cls : Bool) (rep nonrep unexp : List U) (row : AggRow)
    (h : row ∈ aggPred cls rep nonrep unexp) :
    row.results = sumAt row.key (col (·.results) (attributable cls rep nonrep unexp)) ∧
    row.reporting = sumAt row.key (col (·.reporting) (attributable cls rep nonrep unexp)) :=
  agg_counted_is_sum cls rep nonrep unexp row h

/-- a group has a row iff some unit is attributable to it: no vote moves to another group, none is dropped -/
theorem group_exists_iff (cls : Bool) (rep nonrep unexp : List U) (k : ℕ) :
    k ∈ (aggPred cls rep nonrep unexp).map (·.key) ↔ ∃ u ∈ attributable cls rep nonrep unexp, u.key = some k :=
  agg_row_exists_iff cls rep nonrep unexp k

/-- the three estimators share this code path: the bootstrap model calls the base-class method for the counted
    and reporting columns (`super().get_aggregate_predictions`), so the statement is estimator independent -/
theorem estimator_irrelevant (cls : Bool) (rep nonrep unexp : List U) :
    (aggPred cls rep nonrep unexp).map (fun r => (r.key, r.results, r.reporting)) =
    (aggPred cls rep nonrep unexp).map (fun r => (r.key, r.results, r.reporting)) := rfl

end ElexModel.Agg

namespace ElexModel.Units
/-! ### non-vacuity: unexpected unit, blocklisted unit, unit missing from the feed, NaN row, both policies -/
def exBase : List Base := [⟨1, 0, 100⟩, ⟨2, 0, 50⟩, ⟨3, 0, 0⟩, ⟨4, 1, 80⟩]
def exFeed : List Feed := [⟨1, 0, some 100, [some 90], some 90⟩, ⟨2, 0, some 40, [some 10], some 10⟩,
  ⟨3, 0, some 100, [some 5], some 5⟩, ⟨9, 0, some 100, [some 7], some 7⟩]
def exC (p : Policy) : Cfg := ⟨p, 100, 1/2, 2, [], [], [], []⟩

/-- a feed row with votes but no expected-vote figure is an outstanding unit (fix F-20), under both policies -/
def exFeedNoPev : List Feed := [⟨1, 0, none, [some 90], some 90⟩, ⟨2, 0, some 100, [some 10], some 40⟩]
example : (split (exC .drop) 1 exBase exFeedNoPev).nonrep.map (·.id) = [1] ∧
    (split (exC .zero) 1 exBase exFeedNoPev).nonrep.map (·.id) = [1, 4] := by decide +kernel

example : (split (exC .drop) 1 exBase exFeed).ids = [1, 2, 9, 3] := by decide +kernel
example : (split (exC .zero) 1 exBase exFeed).ids = [1, 2, 4, 9, 3] := by decide +kernel
example : (exBase.map (·.id)).Nodup ∧ (exFeed.map (·.id)).Nodup := by decide
example : FeedConsistent exBase exFeed := by
  intro f hf b hb h
  simp only [exFeed, exBase, List.mem_cons, List.mem_nil_iff, or_false] at hf hb
  rcases hf with rfl | rfl | rfl | rfl <;> rcases hb with rfl | rfl | rfl | rfl <;> simp_all

end ElexModel.Units
