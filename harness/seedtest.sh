#!/bin/bash
# usage: seedtest.sh <patch> <prop> [tier]  -- apply a seeded change to /repo, run one check, undo (evidence file restored)
cd /repo && git apply "$1" || exit 3
cd /verif && cp evidence/$2.json /tmp/.evidence_$2.json 2>/dev/null
./check "$2" --tier "${3:-quick}" 2>&1 | tail -3 | cut -c1-260
git -C /repo checkout -- .
cp /tmp/.evidence_$2.json evidence/$2.json 2>/dev/null; rm -f /tmp/.evidence_$2.json
cd /verif && /venv/bin/python -m harness.extract >/dev/null 2>&1
