import ElexModel.Driver.Conformal
def main : IO Unit := ElexModel.Driver.mainWith ElexModel.Driver.Conformal.run
