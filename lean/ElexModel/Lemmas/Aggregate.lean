import ElexModel.Core.Aggregate
import ElexModel.Lemmas.Table
import ElexModel.Lemmas.Num

/-! Values and keys of the aggregate tables in terms of sums over units. -/

namespace ElexModel.Agg
open ElexModel ElexModel.Table

theorem col_append (f : U → ℚ) (a b : List U) : col f (a ++ b) = col f a ++ col f b := by
  simp [col]

theorem mem_col_key (f : U → ℚ) (us : List U) (k : ℕ) :
    (∃ r ∈ col f us, r.1 = some k) ↔ ∃ u ∈ us, u.key = some k := by
  simp [col]

/-- units whose counted votes enter the first (votes) frame of a level -/
def counted (cls : Bool) (rep unexp : List U) : List U := if cls then rep else rep ++ unexp

theorem val_votes (cls : Bool) (f : U → ℚ) (rep unexp : List U) (k : ℕ) :
    val k (votes cls f rep unexp) = sumAt k (col f (counted cls rep unexp)) := by
  unfold votes counted
  cases cls
  · simp only [Bool.false_eq_true, if_false]
    rw [val_addTables, val_groupSum, val_groupSum, col_append, sumAt_append]
  · simp only [if_true]; rw [val_groupSum]

theorem mem_keys_votes (cls : Bool) (f : U → ℚ) (rep unexp : List U) (k : ℕ) :
    k ∈ keys (votes cls f rep unexp) ↔ ∃ u ∈ counted cls rep unexp, u.key = some k := by
  unfold votes counted
  cases cls
  · simp only [Bool.false_eq_true, if_false]
    rw [mem_keys_addTables, mem_keys_groupSum, mem_keys_groupSum, mem_col_key, mem_col_key]
    simp only [List.mem_append]
    constructor
    · rintro (⟨u, hu, hk⟩ | ⟨u, hu, hk⟩)
      · exact ⟨u, Or.inl hu, hk⟩
      · exact ⟨u, Or.inr hu, hk⟩
    · rintro ⟨u, hu | hu, hk⟩
      · exact Or.inl ⟨u, hu, hk⟩
      · exact Or.inr ⟨u, hu, hk⟩
  · simp only [if_true]; rw [mem_keys_groupSum, mem_col_key]

theorem votes_sorted (cls : Bool) (f : U → ℚ) (rep unexp : List U) : Sorted (votes cls f rep unexp) := by
  unfold votes
  cases cls
  · simp only [Bool.false_eq_true, if_false]; exact addTables_sorted _ _
  · simp only [if_true]; exact groupSum_sorted _

theorem attributable_eq (cls : Bool) (rep nonrep unexp : List U) :
    ∀ k f, sumAt k (col f (attributable cls rep nonrep unexp)) =
      sumAt k (col f (counted cls rep unexp)) + sumAt k (col f nonrep) := by
  intro k f
  unfold attributable counted
  cases cls
  · simp only [Bool.false_eq_true, if_false, col_append, sumAt_append]; ring
  · simp only [if_true, col_append, sumAt_append]

/-- key list of the prediction frame -/
theorem aggPred_keys (cls : Bool) (rep nonrep unexp : List U) :
    (aggPred cls rep nonrep unexp).map (·.key) =
      keysUnion (keys (votes cls (·.results) rep unexp)) (keys (groupSum (col (·.pred) nonrep))) := by
  unfold aggPred
  simp only [List.map_map]
  have : ((fun r : AggRow => r.key) ∘ fun k => (⟨k,
      val k (votes cls (·.results) rep unexp) + val k (groupSum (col (·.pred) nonrep)),
      val k (votes cls (·.results) rep unexp) + val k (groupSum (col (·.results) nonrep)),
      val k (votes cls (·.reporting) rep unexp) + val k (groupSum (col (·.reporting) nonrep))⟩ : AggRow)) = id := by
    funext k; rfl
  rw [this, List.map_id]

/-- key list of the nonparametric interval frame -/
theorem aggIntervalNP_keys (cls : Bool) (rep nonrep unexp : List U) :
    (aggIntervalNP cls rep nonrep unexp).map (·.1) =
      keysUnion (keys (votes cls (·.results) rep unexp)) (keys (groupSum (col (·.lower) nonrep))) := by
  unfold aggIntervalNP
  simp only [List.map_map]
  have : ((fun r : ℕ × ℤ × ℤ => r.1) ∘ fun k => (k,
      rhe (val k (groupSum (col (·.lower) nonrep)) + val k (votes cls (·.results) rep unexp)),
      rhe (val k (groupSum (col (·.upper) nonrep)) + val k (votes cls (·.results) rep unexp)))) = id := by
    funext k; rfl
  rw [this, List.map_id]

theorem keys_groupSum_col_indep (f g : U → ℚ) (us : List U) :
    keys (groupSum (col f us)) = keys (groupSum (col g us)) := by
  apply sorted_ext (groupSum_sorted _) (groupSum_sorted _)
  intro x
  rw [mem_keys_groupSum, mem_keys_groupSum, mem_col_key, mem_col_key]

end ElexModel.Agg
