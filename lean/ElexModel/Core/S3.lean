/-
Model of `elexmodel.handlers.s3.S3VersionUtil` (property C19).

* the storage service holds the versions of one key newest-first and answers a
  listing request with a page of `k+1` versions, a truncation flag and a marker
  (the marker is modelled as "the rest of the list");
* `listVersions` mirrors `S3VersionUtil.list_versions`: take a page, recurse on the
  rest iff the page is truncated, non-empty and its last element is not older than
  `start`; filter by `start` and `end` at *every* level of the recursion;
* `get` mirrors `S3VersionUtil.get` + `wait_for_versions`: every `sample`-th listed
  version is requested, the queue is consumed FIFO, a failed download is skipped.

No Mathlib imports: this file is executed by the driver.
-/

namespace ElexModel.S3

/-- one stored version: modification time (integer seconds) and an identifier -/
structure Ver where
  ts : Int
  id : Nat
  deriving Repr, DecidableEq, BEq

/-- `start ≤ t` with an open start -/
def geS (s : Option Int) (v : Ver) : Bool :=
  match s with
  | none => true
  | some s => decide (s ≤ v.ts)

/-- `t ≤ end` with an open end -/
def leE (e : Option Int) (v : Ver) : Bool :=
  match e with
  | none => true
  | some e => decide (v.ts ≤ e)

def inWin (s e : Option Int) (v : Ver) : Bool := geS s v && leE e v

/-- the continuation test of `list_versions`:
    `response["IsTruncated"] and len(versions) > 0 and (start is None or versions[-1].LastModified >= start)` -/
def cont (s : Option Int) (page rem : List Ver) : Bool :=
  !rem.isEmpty && !page.isEmpty &&
    (match page.getLast? with
     | some l => geS s l
     | none => false)

/-- `list_versions` against a service that pages by `k+1`; `fuel` bounds the number of requests -/
def listVersions (k : Nat) (s e : Option Int) : Nat → List Ver → List Ver
  | 0, _ => []
  | fuel+1, rest =>
    let page := rest.take (k+1)
    let rem := rest.drop (k+1)
    let vs := if cont s page rem then page ++ listVersions k s e fuel rem else page
    (vs.filter (geS s)).filter (leE e)

/-- keep an element when the countdown is 0, then skip `s` elements -/
def everyNthAux (s : Nat) : Nat → List α → List α
  | _, [] => []
  | 0, x :: xs => x :: everyNthAux s s xs
  | c+1, _ :: xs => everyNthAux s c xs

/-- `versions[::sample]` for `sample = s+1` -/
def everyNth (s : Nat) (l : List α) : List α := everyNthAux s 0 l

/-- result of `get`: `none` = "no data"; otherwise the downloaded versions in listing order.
    `failing` is the set of version ids whose download raises. -/
def get (k : Nat) (s e : Option Int) (sample : Nat) (failing : List Nat) (hist : List Ver) :
    Option (List Ver) :=
  let vs := listVersions k s e hist.length hist
  if vs.isEmpty then none
  else some ((everyNth sample vs).filter (fun v => !failing.contains v.id))

end ElexModel.S3
