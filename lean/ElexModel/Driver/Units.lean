import ElexModel.Driver.Util
import ElexModel.Core.Units
import ElexModel.Core.Aggregate

open Lean ElexModel.Driver

namespace ElexModel.Driver.Units
open ElexModel ElexModel.Units ElexModel.Agg

def baseOfJson (j : Json) : Except String Base := do
  match ← arrOfJson j with
  | [i, s, w] => pure ⟨← natOfJson i, ← natOfJson s, ← ratOfJson w⟩
  | _ => throw "base = [id,state,bw]"

def feedOfJson (j : Json) : Except String Feed := do
  match ← arrOfJson j with
  | [i, s, p, r, w] =>
    pure ⟨← natOfJson i, ← natOfJson s, ← optOf ratOfJson p, ← listOf (optOf ratOfJson) r, ← optOf ratOfJson w⟩
  | _ => throw "feed = [id,state,pev,[res],rw]"

def catToJson : Cat → Json
  | .expected => "expected"
  | .unexpected => "unexpected"
  | .blocklisted => "non-modeled: blocklisted"
  | .zeroBaseline => "non-modeled: zero baseline"
  | .strangeTF => "non-modeled: strange turnout factor"
  | .tfOutlier => "non-modeled: strange turnout factor modeled"
  | .marginOutlier => "non-modeled: strange margin change modeled"

def uOfJson (j : Json) : Except String U := do
  match ← arrOfJson j with
  | [k, r, p, l, u, rep] =>
    pure ⟨← optOf natOfJson k, ← ratOfJson r, ← ratOfJson p, ← ratOfJson l, ← ratOfJson u, ← ratOfJson rep⟩
  | _ => throw "u = [key,results,pred,lower,upper,reporting]"

def rowToJson (r : Row) : Json :=
  Json.arr #[natToJson r.id, listToJson ratToJson r.res, ratToJson r.tf, ratToJson r.pev]

def run (op : String) (j : Json) : Except String Json := do
  match op with
  | "units.split" =>
    let pol ← strOfJson (← field j "policy")
    let policy := if pol == "zero" then Policy.zero else Policy.drop
    let cfg : Cfg := {
      policy := policy,
      thr := ← ratOfJson (← field j "thr"),
      tfLo := ← ratOfJson (← field j "tfLo"),
      tfHi := ← ratOfJson (← field j "tfHi"),
      unitBlock := ← listOf natOfJson (← field j "unitBlock"),
      stateBlock := ← listOf natOfJson (← field j "stateBlock"),
      flaggedTF := ← listOf natOfJson (fieldD j "flaggedTF" (Json.arr #[])),
      flaggedMargin := ← listOf natOfJson (fieldD j "flaggedMargin" (Json.arr #[])) }
    let nres ← natOfJson (← field j "nres")
    let base ← listOf baseOfJson (← field j "base")
    let feed ← listOf feedOfJson (← field j "feed")
    let s := split cfg nres base feed
    pure (Json.mkObj [
      ("rep", listToJson rowToJson s.rep),
      ("nonrep", listToJson rowToJson s.nonrep),
      ("unexp", listToJson (fun f => Json.arr #[natToJson f.id, listToJson (optToJson ratToJson) f.res]) s.unexp),
      ("nonmod", listToJson (fun p => Json.arr #[rowToJson p.1, catToJson p.2]) s.nonmod)])
  | "agg.level" =>
    let cls ← boolOfJson (← field j "cls")
    let rep ← listOf uOfJson (← field j "rep")
    let nonrep ← listOf uOfJson (← field j "nonrep")
    let unexp ← listOf uOfJson (← field j "unexp")
    let p := aggPred cls rep nonrep unexp
    let iv := aggIntervalNP cls rep nonrep unexp
    pure (Json.mkObj [
      ("pred", listToJson (fun r => Json.arr #[natToJson r.key, ratToJson r.pred, ratToJson r.results, ratToJson r.reporting]) p),
      ("np", listToJson (fun r => Json.arr #[natToJson r.1, intToJson r.2.1, intToJson r.2.2]) iv)])
  | "agg.unit" =>
    let p ← ratOfJson (← field j "p")
    let w ← ratOfJson (← field j "w")
    let part ← ratOfJson (← field j "partial")
    pure (intToJson (unitPred p w part))
  | _ => throw s!"unknown op {op}"

end ElexModel.Driver.Units
