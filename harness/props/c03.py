"""C03 - counted votes are a floor and reported units are final."""
from harness import extract as X
from harness.props import _api_common as K
from harness.props import c01

PROP = "C03"
MODULES = ["ElexModel.Props.C03"]
DRIVER_TARGETS = ["ElexModel.Driver.Units"]
TRUSTED = c01.TRUSTED
ASSUMPTIONS = [
    "solver answers finite; gaussian scale > 0 (sigma = 0 makes norm.ppf return NaN: synthetic-only corner)",
    "a feed row with a NaN count is skipped by the whole-number monitor (outside the quantifier)",
]
RULE = c01.RULE + "; 30% of partial units carry a count five times the baseline (partial count above the modelled value)"


def extract(run):
    return X.generate("C03")


def explore(run, driver, budget):
    from harness.props import c15

    from harness import apicheck as A

    # dedicated cases: nothing left to predict (every baseline unit reported or excluded) with unexpected / excluded units that
    # carry votes - every aggregate must then be zero-width at its counted votes, under each estimator
    done = ["reporting"] * 8 + ["blocklisted", "zero-baseline", "strange-low", "strange-high"]
    corpus = [(lambda rng, pi=pi, d=d: A.gen_case(rng, pi_method=pi, roles=done, all_reported=True, district=d))
              for pi in ("gaussian", "nonparametric", "bootstrap") for d in (False, True)]
    def open_state(_rng, k):
        """end of the night in a run over several states: all but one state are completely reported, the remaining one has partial
        counts only (no reporting unit of its own yet) - its bounds must still be floored at its counted votes (own generator)"""
        import random

        own = random.Random(f"c03-open-state-{getattr(run, 'seed', 0)}-{k}")
        case = A.gen_case(own, pi_method="gaussian", roles=["reporting"], n_states=3, district=False, unexpected=(k == 1))
        e = case["election"]
        last = sorted(e.states)[k % 3]
        for i in e.cur.index:
            if e.cur.loc[i, "postal_code"] == last and e.roles.get(e.cur.loc[i, "geographic_unit_fips"]) == "reporting":
                e.cur.loc[i, "percent_expected_vote"] = min(35.0, float(e.threshold) / 2)
                for c in ("results_dem", "results_gop", "results_turnout"):
                    e.cur.loc[i, c] = int(e.cur.loc[i, c] * 0.35)
                e.roles[e.cur.loc[i, "geographic_unit_fips"]] = "partial"
        if "postal_code" not in case["aggregates"]:
            case["aggregates"] = ["postal_code"] + list(case["aggregates"])
        return case

    corpus += [(lambda rng, k=k: open_state(rng, k)) for k in (0, 1)]
    K.explore(run, driver, budget, PROP, RULE, pi_cycle=("nonparametric", "gaussian", "nonparametric", "gaussian", "bootstrap"),
              corpus=corpus)
    # gaussian aggregate floor on structures with fallback groups sorted before own-model groups and high partial counts
    c15.floor_stage(run, {"quick": 60, "thorough": 3000, "search": 400}[budget], PROP)


def replay(run, driver, payload):
    if payload.get("replay_case") is None and isinstance(payload.get("input"), dict) and "agg" in payload["input"]:
        from harness.props import c15

        c = payload["input"]
        impl, _ = c15.impl_run(c)
        run.case(c, True)
        saved = c15.CORPUS[:]
        c15.CORPUS[:] = [c]
        try:
            c15.floor_stage(run, 0, PROP)
        finally:
            c15.CORPUS[:] = saved
        return
    K.replay(run, driver, payload, PROP)
