"""Structured generator of synthetic elections + offline driver of ModelClient.get_estimates.

An election is built from a group skeleton (states x counties x classifications x districts); every unit draws a
role; corner structures are forced with fixed probability.  Everything derives from the caller's random.Random.
"""
import copy
import math
from fractions import Fraction

import numpy as np
import pandas as pd

from harness import common as C

STATE_CODES = ["AA", "BB", "CC", "DD", "EE"]
CLASSES = ["urban", "rural", "suburban"]
ELECTION_ID = "2022-11-08_USA_G"

ROLES = [
    "reporting", "reporting", "reporting", "reporting", "reporting", "partial", "partial", "zero-percent",
    "zero-baseline", "blocklisted", "strange-low", "strange-high", "missing", "nan-estimand", "third-party-heavy", "zero-dem-baseline",
    "no-expected-vote",
]


class Election:
    def __init__(self):
        self.pre = None  # baseline frame
        self.cur = None  # live feed
        self.roles = {}  # unit id -> role
        self.unit_type = "precinct"
        self.office = "G"
        self.states = []
        self.unit_blocklist = []
        self.postal_code_blocklist = []
        self.threshold = 100
        self.meta = {}

    def config(self):
        return {
            ELECTION_ID: [
                {
                    "office": self.office,
                    "states": list(self.states),
                    "geographic_unit_types": [self.unit_type],
                    "historical_election": [],
                    "features": ["x1", "x2"],
                    "aggregates": ["postal_code", "county_classification", "county_fips", "district", "unit"],
                    "fixed_effect": ["postal_code", "county_fips", "county_classification", "district"],
                    "baseline_pointer": {"dem": "dem", "gop": "gop", "turnout": "turnout"},
                }
            ]
        }

    def describe(self):
        from collections import Counter

        return {
            "unit_type": self.unit_type, "office": self.office, "states": self.states, "threshold": self.threshold,
            "n_baseline": int(self.pre.shape[0]), "n_feed": int(self.cur.shape[0]),
            "roles": dict(Counter(self.roles.values())),
            "unit_blocklist": self.unit_blocklist, "postal_code_blocklist": self.postal_code_blocklist,
        }

    def to_json(self):
        return {
            "describe": self.describe(),
            "pre": self.pre.to_dict(orient="list"),
            "cur": json_safe(self.cur.to_dict(orient="list")),
            "roles": self.roles,
            "unit_type": self.unit_type, "office": self.office, "states": self.states,
            "unit_blocklist": self.unit_blocklist, "postal_code_blocklist": self.postal_code_blocklist,
            "threshold": self.threshold,
        }

    @staticmethod
    def from_json(d):
        e = Election()
        e.pre = pd.DataFrame(d["pre"])
        e.cur = pd.DataFrame(d["cur"])
        for c in ("geographic_unit_fips", "county_fips", "district", "postal_code"):
            if c in e.pre:
                e.pre[c] = e.pre[c].astype(str)
            if c in e.cur:
                e.cur[c] = e.cur[c].astype(str)
        e.roles = d["roles"]
        e.unit_type, e.office, e.states = d["unit_type"], d["office"], d["states"]
        e.unit_blocklist, e.postal_code_blocklist = d["unit_blocklist"], d["postal_code_blocklist"]
        e.threshold = d["threshold"]
        return e


def json_safe(o):
    if isinstance(o, dict):
        return {k: json_safe(v) for k, v in o.items()}
    if isinstance(o, list):
        return [json_safe(v) for v in o]
    if isinstance(o, float) and not math.isfinite(o):
        return None
    if isinstance(o, (np.integer,)):
        return int(o)
    if isinstance(o, (np.floating,)):
        return json_safe(float(o))
    return o


def gen_election(rng, size="small", district=False, roles=None, min_reporting=8, unexpected=True, plain=False, n_states=None,
                 many_districts=False, n_districts=None, per_state_min=0):
    """size: small (15-40 units) | medium (40-120). plain=True: every unit reports or is partial (complete feed)."""
    e = Election()
    ns = rng.choice([1, 1, 2, 3]) if size == "small" else rng.choice([2, 3, 4])
    ns = n_states or ns
    e.states = rng.sample(STATE_CODES, ns)
    e.unit_type = "precinct-district" if district else rng.choice(["precinct", "county"])
    e.office = "H" if district else "G"
    e.threshold = rng.choice([100, 100, 90, 50])
    role_pool = roles or (["reporting"] * 6 + ["partial"] * 3 if plain else ROLES)
    rows, feed = [], []
    # precinct ids are not always numeric: many carry a lower case name (`04001_02-alpine`); an id is an opaque string
    named = e.unit_type != "county" and rng.random() < 0.35
    n_target = rng.randint(15, 40) if size == "small" else rng.randint(40, 120)
    per_state = max(3, n_target // ns)
    if many_districts:
        per_state = max(per_state, 26)
    per_state = max(per_state, per_state_min)
    for si, s in enumerate(e.states):
        ncounty = 1 if e.unit_type == "county" else rng.randint(1, 4)
        counties = [f"{si + 1}{rng.randint(0, 9)}{ci:03d}" for ci in range(ncounty)] if e.unit_type != "county" else None
        cls = {}
        dists = [f"{d + 1:02d}" for d in range(rng.randint(1, 3))]
        if n_districts:
            dists = [f"{d + 1:02d}" for d in range(n_districts)]
        if many_districts:
            # ten or more districts labelled without padding ("2" sorts after "10" as text): the order of labels matters wherever
            # tables are put together by position
            dists = [str(d + 1) for d in range(rng.randint(10, 12))]
        for ui in range(per_state):
            if e.unit_type == "county":
                cf = f"{si + 1}0{ui:03d}"
                uid = cf
            else:
                cf = rng.choice(counties)
                uid = f"{cf}_{ui:03d}"
                if named:
                    uid += "-" + rng.choice(["alpine", "oak-creek", "red-rock", "mesa", "St. Johns"])
            d = rng.choice(dists)
            if district:
                uid = f"{d}_{uid}"
            cls.setdefault(cf, rng.choice(CLASSES))
            bd, bg = rng.randint(5, 3000), rng.randint(5, 3000)
            bt = bd + bg + rng.randint(0, 200)
            role = rng.choice(role_pool)
            if role == "zero-baseline":
                bd = bg = bt = 0
            if role == "zero-dem-baseline":
                bd = 0  # one party not on the ballot last time: the unit still has a baseline for the other estimands
            row = {
                "postal_code": s, "geographic_unit_fips": uid, "county_fips": cf, "county_classification": cls[cf],
                "baseline_dem": bd, "baseline_gop": bg, "baseline_turnout": bt,
                "x1": rng.randint(-64, 64) / 64, "x2": rng.randint(0, 128) / 64,
            }
            if district:
                row["district"] = d
            rows.append(row)
            e.roles[uid] = role
            f = feed_row(rng, e, row, role)
            if f is not None:
                feed.append(f)
    # make sure enough units report
    ids = [r["geographic_unit_fips"] for r in rows]
    rep = [u for u in ids if e.roles[u] == "reporting"]
    k = 0
    while len(rep) < min_reporting and k < len(rows):
        r = rows[k]
        k += 1
        u = r["geographic_unit_fips"]
        if e.roles[u] != "reporting":
            if r["baseline_turnout"] == 0:
                r["baseline_dem"], r["baseline_gop"], r["baseline_turnout"] = 40, 50, 95
            e.roles[u] = "reporting"
            feed = [f for f in feed if f["geographic_unit_fips"] != u]
            feed.append(feed_row(rng, e, r, "reporting"))
            rep.append(u)
    e.unit_blocklist = [u for u in ids if e.roles[u] == "blocklisted"]
    if ns > 1 and not plain and roles is None and rng.random() < 0.15:
        s = e.states[-1]
        e.postal_code_blocklist = [s]
        for r in rows:
            if r["postal_code"] == s and e.roles[r["geographic_unit_fips"]] not in ("missing",):
                if e.roles[r["geographic_unit_fips"]] == "reporting" and len(rep) > min_reporting:
                    rep.remove(r["geographic_unit_fips"])
                    e.roles[r["geographic_unit_fips"]] = "blocklisted"
        e.postal_code_blocklist = [s] if len(rep) >= min_reporting else []
    # unexpected units: known/unknown county, known/unknown state
    if unexpected and not plain:
        for _ in range(rng.choice([0, 1, 2, 3])):
            feed.append(unexpected_row(rng, e, rows))
    e.pre = pd.DataFrame(rows)
    cols = ["postal_code", "geographic_unit_fips", "percent_expected_vote", "results_dem", "results_gop", "results_turnout"]
    e.cur = pd.DataFrame(feed, columns=cols)
    rng.shuffle(feed)
    return e


def feed_row(rng, e, row, role):
    bd, bg, bt = row["baseline_dem"], row["baseline_gop"], row["baseline_turnout"]
    uid, s = row["geographic_unit_fips"], row["postal_code"]

    def counts(lo, hi):
        f = rng.uniform(lo, hi)
        d = int(round(bd * f * rng.uniform(0.8, 1.25)))
        g = int(round(bg * f * rng.uniform(0.8, 1.25)))
        return d, g, d + g + rng.randint(0, 20)

    if role == "missing":
        return None
    if role in ("reporting", "blocklisted", "zero-baseline", "zero-dem-baseline"):
        d, g, t = counts(0.7, 1.4)
        if role == "zero-baseline":
            d, g, t = rng.randint(0, 30), rng.randint(0, 30), 0
            t = d + g
        if role == "zero-dem-baseline":
            d = rng.randint(5, 400)
            t = d + g + rng.randint(0, 20)
        pev = rng.choice([100, 100, 100, e.threshold, max(e.threshold, 97)])
        if role not in ("reporting", "zero-dem-baseline") and rng.random() < 0.4:
            pev = rng.choice([0, 30, max(0, e.threshold - 1)])
    elif role == "partial":
        d, g, t = counts(0.05, 0.9)
        if rng.random() < 0.3:  # partial count already above what the model would predict
            d, g, t = d * 5, g * 5, t * 5
        pev = rng.choice([1, 10, min(50, e.threshold - 1), max(0, e.threshold - 1), e.threshold - 0.5])  # always below the threshold
    elif role == "zero-percent":
        d, g, t = 0, 0, 0
        pev = 0
    elif role == "strange-low":
        # turnout factor at or below the lower limit (0.5): exact ratios in binary64
        t = bt // 2 if rng.random() < 0.5 else max(0, bt // 4)
        d = t // 2
        g = t - d
        pev = 100
    elif role == "strange-high":
        t = bt * 2 if rng.random() < 0.5 else bt * 3
        d = t // 2
        g = t - d
        pev = 100
    elif role == "third-party-heavy":
        # many votes for other parties: the two-party turnout factor (1.9) and the total one (2.2) sit on different sides of
        # the usual upper limit 2.0 - which one is used decides whether the unit is modelled
        d, g = int(round(bd * 1.9)), int(round(bg * 1.9))
        t = int(round(bt * 2.2))
        pev = 100
    elif role == "no-expected-vote":
        # votes but no expected-vote figure in the feed row: not reporting yet (fix F-20; before it the unit was in no frame)
        d, g, t = counts(0.2, 1.1)
        pev = float("nan")
    elif role == "nan-estimand":
        d, g, t = counts(0.7, 1.4)
        pev = 100
        return {"postal_code": s, "geographic_unit_fips": uid, "percent_expected_vote": pev,
                "results_dem": float("nan") if rng.random() < 0.5 else d, "results_gop": g,
                "results_turnout": t if rng.random() < 0.5 else float("nan")}
    else:
        raise ValueError(role)
    return {"postal_code": s, "geographic_unit_fips": uid, "percent_expected_vote": pev, "results_dem": d,
            "results_gop": g, "results_turnout": t}


def unexpected_row(rng, e, rows, kind=None, votes=None):
    kind = kind or rng.choice(["known-county", "unknown-county", "known-county", "unknown-state"])
    base = rng.choice(rows)
    s = base["postal_code"]
    n = len(e.roles) + rng.randint(1000, 9999)
    if e.unit_type == "county":
        uid = f"9{n % 10000:04d}"
    else:
        cf = base["county_fips"] if kind == "known-county" else f"9{rng.randint(0, 9)}999"
        # split precincts carry an underscore inside the precinct part of the id
        uid = f"{cf}_{n}" if rng.random() < 0.6 else f"{cf}_{n % 1000:04d}_{rng.choice('AB')}"
    if e.unit_type == "precinct-district":
        d = base.get("district", "01") if rng.random() < 0.7 else "09"
        uid = f"{d}_{uid}"
    if kind == "unknown-state":
        s = "ZZ"
    d_, g_ = (votes if votes is not None else (rng.choice([0, rng.randint(1, 900)]), rng.randint(0, 900)))
    e.roles[uid] = "unexpected"
    return {"postal_code": s, "geographic_unit_fips": uid, "percent_expected_vote": rng.choice([0, 50, 100]),
            "results_dem": d_, "results_gop": g_, "results_turnout": d_ + g_ + rng.randint(0, 9)}


# ----------------------------------------------------------------------------------------------
# running the real client

_CLIENT = None


def client_mod():
    global _CLIENT
    if _CLIENT is None:
        C.use_repo()
        from elexmodel import client

        _CLIENT = client
    return _CLIENT


def run_client(e, estimands=("turnout",), alphas=(0.5,), pi_method="nonparametric", aggregates=None, params=None,
               policy="drop", features=(), fixed_effects=None, client=None, extra=None, keep_client=False, reuse_feed=False,
               derived_feed=False, frame_history=None):
    """returns {"tables": {name: DataFrame}} or {"raises": class name, "msg": ...}

    frame_history = {"estimands": [...], "scale": s}: the caller polls with ONE DataFrame object: an earlier call (own client) saw the
    counts scaled by s, then the raw columns were updated in place and the observed call is made with the same object"""
    cm = client_mod()
    cl = client or cm.ModelClient()
    mp = {"fit_margin_outlier_model": False, "fit_turnout_outlier_model": False}
    if e.unit_blocklist:
        mp["unit_blocklist"] = list(e.unit_blocklist)
    if e.postal_code_blocklist:
        mp["postal_code_blocklist"] = list(e.postal_code_blocklist)
    mp.update(params or {})
    if aggregates is None:
        aggregates = ["postal_code", "unit"]
    kw = dict(
        raw_config=copy.deepcopy(e.config()), preprocessed_data=e.pre.copy(), save_output=[], pi_method=pi_method,
        aggregates=list(aggregates), model_parameters=mp, handle_unreporting=policy, features=list(features),
        fixed_effects=copy.deepcopy(fixed_effects) if fixed_effects is not None else {},
    )
    kw.update(extra or {})
    feed = e.cur if reuse_feed else e.cur.copy()
    if frame_history:
        feed = e.cur.copy()
        late = set(frame_history.get("late_ids") or [])
        target = e.cur
        if late:
            # rows that were not in the frame at the earlier poll and are appended to it, in place, afterwards
            m = e.cur["geographic_unit_fips"].isin(late)
            target = pd.concat([e.cur[~m], e.cur[m]], ignore_index=True)
            feed = e.cur[~m].copy().reset_index(drop=True)
        sc = float(frame_history.get("scale", 0.5))
        for c in ("results_dem", "results_gop", "results_turnout", "percent_expected_vote"):
            if c in feed.columns:
                feed[c] = np.floor(feed[c].astype(float) * sc)
        # the baseline frame and the configuration object are shared with the observed call as well (one caller, one set of objects)
        kw0 = dict(kw, aggregates=["postal_code", "unit"])
        try:
            with np.errstate(all="ignore"):
                cm.ModelClient().get_estimates(feed, ELECTION_ID, e.office, list(frame_history["estimands"]), [0.7], e.threshold,
                                               e.unit_type, **kw0)
        except Exception:  # the earlier poll is only there for what it leaves behind
            pass
        for k in range(len(feed), len(target)):
            feed.loc[k, list(target.columns)] = target.loc[k, list(target.columns)].values
        for c in target.columns:
            feed[c] = target[c].values
    elif derived_feed and "margin" in estimands:
        # a feed that already went through the Estimandizer once (mock live data, a previous poll): derived columns present
        feed = feed.copy()
        feed["results_weights"] = feed["results_dem"] + feed["results_gop"]
        feed["results_margin"] = feed["results_dem"] - feed["results_gop"]
        with np.errstate(all="ignore"):
            feed["results_normalized_margin"] = np.nan_to_num(feed["results_margin"] / feed["results_weights"], nan=0, posinf=0, neginf=0)
    try:
        with np.errstate(all="ignore"):
            res = cl.get_estimates(feed, ELECTION_ID, e.office, list(estimands), list(alphas), e.threshold,
                                   e.unit_type, **kw)
    except Exception as ex:  # the exception class is an observable
        out = {"raises": type(ex).__name__, "msg": str(ex)[:300]}
        if keep_client:
            out["client"] = cl
        return out
    out = {"tables": {k: v.copy() for k, v in res.items()}}
    if keep_client:
        out["client"] = cl
    return out


def boot_params(B=8, **kw):
    p = {"B": B, "lambda_": 1.0}
    p.update(kw)
    return p


AGG_CHOICES = [
    ["postal_code", "unit"],
    ["postal_code", "county_fips", "unit"],
    ["postal_code", "county_classification", "unit"],
    ["unit", "county_fips", "postal_code"],
    ["postal_code", "county_fips", "county_classification", "unit"],
    ["county_classification", "postal_code"],
    ["unit"],
    ["county_fips", "unit"],
]


def pick_aggregates(rng, e):
    a = list(rng.choice(AGG_CHOICES))
    if e.unit_type == "precinct-district" and rng.random() < 0.7:
        a.insert(rng.randint(0, len(a)), "district")
    return a


def api_boot_checks(run, budget, props=()):
    """API-level bootstrap runs with monitors for C06 / C07 (filled in by harness/apiboot.py)"""
    from harness import apiboot

    apiboot.run_checks(run, budget, props)
