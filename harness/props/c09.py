"""C09 - which units feed the model follows the documented eligibility rules exactly.

Main stream: generated feeds (roles incl. thresholds / limits placed exactly on generated values, overlapping reasons, both
policies, custom turnout-factor limits) through ModelClient; the Lean model (Units.split / category) decides every unit's
frame and category and is diffed against unit_data.  Outlier stream: the two outlier models are switched on independently
with > 20 reporting units; the flagged sets are recorded at CombinedDataHandler._fit_outlier_detection_model and handed to
the model as the oracle; which model runs is compared with the rule (enabled and more than 20 reporting units).
"""
from harness import apicheck as A
from harness import common as C
from harness import election as E
from harness import extract as X
from harness.props import _api_common as K
from harness.props import c01

PROP = "C09"
MODULES = ["ElexModel.Props.C09"]
DRIVER_TARGETS = ["ElexModel.Driver.Units"]
TRUSTED = c01.TRUSTED[:2] + [
    "the quantile regression inside the outlier models is an oracle: the set of flagged ids is recorded and replayed",
    "np.isclose(baseline_weights, 0) is modelled as = 0 (baselines are whole numbers)",
]
ASSUMPTIONS = ["feed ids unique, baseline ids unique", "0 < threshold (a 0 threshold makes every unit reporting)"]
RULE = c01.RULE + "; outlier stream: 25-60 reporting units, the two outlier flags drawn independently, margin estimand"


def outlier_case(rng):
    c = A.gen_case(rng, pi_method="bootstrap", size="medium", roles=["reporting"] * 8 + ["partial", "strange-low", "blocklisted"],
                   min_reporting=26)
    c["params"] = dict(c["params"], fit_turnout_outlier_model=rng.random() < 0.5,
                       fit_margin_outlier_model=rng.random() < 0.5, outlier_z_threshold=rng.choice([0.5, 1.0, 2.0]))
    c["outlier"] = True
    c["aggregates"] = ["postal_code", "unit"]
    return c


def run_outlier(run, driver, case):
    """wrap the outlier model to record (response variable, flagged ids); compare with the rule; feed the model"""
    C.use_repo()
    from elexmodel.handlers.data import CombinedData as CD

    calls = []
    orig = CD.CombinedDataHandler._fit_outlier_detection_model

    def rec(self, reporting_units, response_variable, outlier_z_threshold):
        out = orig(self, reporting_units, response_variable, outlier_z_threshold)
        calls.append((response_variable, int(reporting_units.shape[0]), list(out["geographic_unit_fips"]), id(self)))
        return out

    CD.CombinedDataHandler._fit_outlier_detection_model = rec
    try:
        res = A.run_case(case)
    finally:
        CD.CombinedDataHandler._fit_outlier_detection_model = orig
    # a case with a frame history polls twice (two handler objects): the observed call is the last one, only its models count
    if calls:
        calls = [c for c in calls if c[3] == calls[-1][3]]
    L = A.light(case)
    run.case(L, True)
    run.count("outlier stream")
    if "raises" in res:
        run.count("raised " + res["raises"])
        return
    tables = res["tables"]
    op, ids = A.split_op(case)
    irank = {u: i for i, u in enumerate(ids)}
    # the rule: a model runs iff it is enabled and more than 20 units are reporting (before non-modelled units are removed)
    p = case["params"]
    ran = {c[0] for c in calls}
    n_rep = calls[0][1] if calls else None
    if n_rep is None:
        # count the reporting, expected-in-baseline rows ourselves from a run without outlier models
        op0 = dict(op)
        m0 = driver.run([op0])[0] if driver else None
        # the models are fitted on reporting units that are neither blocklisted nor zero-baseline
        n_rep = None if m0 is None else len(m0["rep"]) + sum(1 for r, cat in m0["nonmod"] if cat == "non-modeled: strange turnout factor")
    want = set()
    if n_rep is not None and n_rep > 20:
        if p.get("fit_turnout_outlier_model"):
            want.add("turnout_factor")
        if p.get("fit_margin_outlier_model") and "margin" in case["estimands"]:
            want.add("results_normalized_margin")
    run.count("outlier models ran: " + ",".join(sorted(ran)) if ran else "outlier models ran: none")
    if n_rep is not None and ran != want:
        run.violation("the set of outlier models that ran is not the set of enabled models", input=L, impl=sorted(ran),
                      expected=sorted(want), predicate="fit_iff", signature="C09:outlier-enabled",
                      replay_case=A.case_json(case))
        return
    op["flaggedTF"] = [irank[u] for c in calls if c[0] == "turnout_factor" for u in c[2]]
    op["flaggedMargin"] = [irank[u] for c in calls if c[0] == "results_normalized_margin" for u in c[2]]
    mout = driver.run([op])[0] if driver else None
    if isinstance(mout, dict) and "error" in mout:
        run.broken.append("model rejected a split case: " + mout["error"])
        mout = None
    A.check_split(run, case, tables, mout, ids, (PROP,))


def extract(run):
    return X.generate("C09")


def derived_quantity_stream(run, n):
    """the derived quantities in the frame the models read (`CombinedDataHandler.data`): margin = dem - gop, two-party weights
    = dem + gop, normalised margin = margin / weights, turnout factor = weights / baseline weights - each 0 where its denominator is 0,
    never NaN or infinite; elections with many third-party votes (two-party and total turnout differ)"""
    import math

    import numpy as np

    C.use_repo()
    from elexmodel.handlers.data.CombinedData import CombinedDataHandler
    from elexmodel.handlers.data.PreprocessedData import PreprocessedDataHandler

    rng = run.rng
    for _ in range(n):
        e = E.gen_election(rng, size="small", roles=["reporting"] * 5 + ["partial"] * 2 + ["third-party-heavy"] * 3 + ["zero-baseline", "zero-percent"],
                           unexpected=False)
        derived = rng.random() < 0.4
        cur = e.cur.copy()
        if derived:  # a feed that already carries the derived columns (it went through the Estimandizer once)
            cur["results_weights"] = cur["results_dem"] + cur["results_gop"]
            cur["results_margin"] = cur["results_dem"] - cur["results_gop"]
            with np.errstate(all="ignore"):
                cur["results_normalized_margin"] = np.nan_to_num(cur["results_margin"] / cur["results_weights"], nan=0, posinf=0, neginf=0)
        case = {"derived_quantities": True, "election": e.describe(), "feed_with_derived_columns": derived}
        run.case(case, True)
        run.count("derived quantities in the handler frame")
        try:
            with np.errstate(all="ignore"):
                pre = PreprocessedDataHandler(E.ELECTION_ID, e.office, e.unit_type, ["margin"], {"margin": "margin"}, data=e.pre.copy()).data
                data = CombinedDataHandler(pre, cur, ["margin"], e.unit_type, handle_unreporting="drop").data
        except Exception as ex:
            run.violation("building the combined frame failed: " + type(ex).__name__, input=case, impl=str(ex)[:200],
                          predicate="derived quantities", signature="C09:derived-raise", election=e.to_json())
            continue
        base = e.pre.set_index("geographic_unit_fips")
        feed = e.cur.set_index("geographic_unit_fips")
        bad = None
        for r in data.to_dict(orient="records"):
            u = r["geographic_unit_fips"]
            d, g = float(feed.loc[u, "results_dem"]), float(feed.loc[u, "results_gop"])
            bw = float(base.loc[u, "baseline_dem"] + base.loc[u, "baseline_gop"])
            want = {"results_margin": d - g, "results_weights": d + g,
                    "results_normalized_margin": (d - g) / (d + g) if d + g else 0.0,
                    "turnout_factor": (d + g) / bw if bw else 0.0, "baseline_weights": bw}
            for k, w in want.items():
                got = r.get(k)
                if got is None or not math.isfinite(float(got)) or abs(float(got) - w) > 1e-12 * max(1.0, abs(w)):
                    bad = (u, k, got, w)
                    break
            if bad:
                break
        if bad:
            run.violation("a derived quantity does not follow its definition (or is NaN / infinite)", input=case,
                          impl={"unit": bad[0], "column": bad[1], "value": None if bad[2] is None else float(bad[2])}, expected=bad[3],
                          predicate="margin / twoParty / normMargin / turnoutFactor", signature="C09:derived", election=e.to_json())
        else:
            run.traces += 1


def explore(run, driver, budget):
    K.explore(run, driver, budget, PROP, RULE, pi_cycle=("nonparametric", "nonparametric", "gaussian", "bootstrap"))
    derived_quantity_stream(run, {"quick": 4, "thorough": 100, "search": 20}[budget])
    n = {"quick": 6, "thorough": 150, "search": 30}[budget]
    for _ in range(n):
        run_outlier(run, driver, outlier_case(run.rng))


def replay(run, driver, payload):
    rc = payload.get("replay_case")
    case = A.case_from_json(rc)
    if case.get("outlier"):
        run_outlier(run, driver, case)
    else:
        A.run_and_check(run, case, driver, (PROP,))
