import ElexModel.Core.Boot
/-
Model of `BootstrapElectionModel.get_national_summary_estimates` (default: hard threshold, perfect correlation)
and of the model-object state it reads (property C08).
-/
namespace ElexModel.NatSum
open ElexModel ElexModel.Boot

/-- one top-level contest as the summary sees it -/
structure Contest where
  w : Rat            -- weight (electoral votes / seats), matched to the contest by sorted key
  pred : Rat         -- reported margin prediction (`aggregate_pred_margin`, already adjusted for race calls)
  d1 : List Rat      -- row of `divided_error_B_1`
  d2 : List Rat      -- row of `divided_error_B_2`
  call : Call
  stop : Bool
  deriving Repr

def b01 (b : Bool) : Rat := if b then 1 else 0

/-- `pred_states` -/
def predState (c : Contest) : Bool := decide (0 < c.pred)

/-- draws of `aggregate_pred_margin - (divided_error_B_1 - divided_error_B_2)` -/
def dist (c : Contest) : List Rat := (c.d1.zip c.d2).map (fun p => c.pred - (p.1 - p.2))

def fracWhere (l : List Rat) (p : Rat → Bool) : Rat := ((l.filter p).length : Rat) / (l.length : Rat)

/-- `upper_states`: more than `lower_q` of the realisations have a left-party victory -/
def upperState (lq : Rat) (c : Contest) : Bool := decide (lq < fracWhere (dist c) (fun x => decide (0 < x)))
/-- `lower_states`: more than `lower_q` of the realisations have a right-party victory -/
def lowerState (lq : Rat) (c : Contest) : Bool := decide (lq < fracWhere (dist c) (fun x => decide (x < 0)))

/-- `potential_losses` of one contest after the clamp, the race-call rule and the stop rule -/
def loss (lq : Rat) (c : Contest) : Rat :=
  let base := rmax (b01 (predState c) - b01 (!lowerState lq c)) 0
  let called := if c.call = Call.none then base else 0
  if predState c && c.stop then 1 else called

/-- `potential_gains` -/
def gain (lq : Rat) (c : Contest) : Rat :=
  let base := rmax (b01 (upperState lq c) - b01 (predState c)) 0
  let called := if c.call = Call.none then base else 0
  if !predState c && c.stop then 1 else called

def predVal (cs : List Contest) : Rat := sumR (cs.map (fun c => c.w * b01 (predState c)))

/-- `[agg_pred, agg_lower, agg_upper]` -/
def natsum (cs : List Contest) (base alpha : Rat) (B : Nat) : Rat × Rat × Rat :=
  let lq := lowerQ alpha B
  let vp := predVal cs
  (pyRound (vp + base) 2,
   pyRound (vp - sumR (cs.map (fun c => c.w * loss lq c)) + base) 2,
   pyRound (vp + sumR (cs.map (fun c => c.w * gain lq c)) + base) 2)

/-- weights come from a dictionary: rejected unless there is exactly one per contest -/
def natsumChecked (weights : List Rat) (cs : List Contest) (base alpha : Rat) (B : Nat) : Option (Rat × Rat × Rat) :=
  if weights.length ≠ cs.length then none
  else some (natsum ((cs.zip weights).map (fun p => { p.1 with w := p.2 })) base alpha B)

/-! ### the model-object state: written only by top-level aggregate computations -/

/-- what the summary reads -/
structure Snapshot where
  contests : List Contest
  deriving Repr

/-- an aggregate computation: `top` = the aggregate is top-level; `snap` = the values it computes -/
structure AggOp where
  top : Bool
  snap : Snapshot

/-- `get_aggregate_predictions` + `get_aggregate_prediction_intervals` for one aggregate: the stored draws, prediction,
    calls and stops are overwritten iff the aggregate is top-level -/
def step (s : Option Snapshot) (op : AggOp) : Option Snapshot := if op.top then some op.snap else s

def runOps (ops : List AggOp) : Option Snapshot := ops.foldl step none

end ElexModel.NatSum
