import Lean.Data.Json

/-! JSON glue for the line-protocol driver (no Mathlib). Rationals travel as strings `"n/d"`
(or JSON integers); every model output is canonical (lowest terms, `d > 0`). -/

open Lean

namespace ElexModel.Driver

def parseInt? (s : String) : Option Int := s.trimAscii.toString.toInt?

def ratOfString (s : String) : Except String Rat :=
  match s.splitOn "/" with
  | [a] => match parseInt? a with
    | some n => pure (n : Rat)
    | none => throw s!"bad rational {s}"
  | [a, b] => match parseInt? a, parseInt? b with
    | some n, some d => if d = 0 then throw s!"zero denominator {s}" else pure ((n : Rat) / (d : Rat))
    | _, _ => throw s!"bad rational {s}"
  | _ => throw s!"bad rational {s}"

def ratOfJson : Json → Except String Rat
  | .num n => pure ((n.mantissa : Rat) / ((10 ^ n.exponent : Nat) : Rat))
  | .str s => ratOfString s
  | j => throw s!"expected rational, got {j.compress}"

def intOfJson : Json → Except String Int
  | .num n => if n.exponent = 0 then pure n.mantissa else throw "expected integer"
  | .str s => match parseInt? s with
    | some n => pure n
    | none => throw s!"bad int {s}"
  | j => throw s!"expected integer, got {j.compress}"

def natOfJson (j : Json) : Except String Nat := do
  let i ← intOfJson j
  if i < 0 then throw "expected natural" else pure i.toNat

def boolOfJson : Json → Except String Bool
  | .bool b => pure b
  | j => throw s!"expected bool, got {j.compress}"

def strOfJson : Json → Except String String
  | .str s => pure s
  | j => throw s!"expected string, got {j.compress}"

def arrOfJson : Json → Except String (List Json)
  | .arr a => pure a.toList
  | j => throw s!"expected array, got {j.compress}"

def listOf (f : Json → Except String α) (j : Json) : Except String (List α) := do
  let a ← arrOfJson j
  a.mapM f

def optOf (f : Json → Except String α) : Json → Except String (Option α)
  | .null => pure none
  | j => do pure (some (← f j))

def field (j : Json) (k : String) : Except String Json :=
  match j.getObjVal? k with
  | .ok v => pure v
  | .error _ => throw s!"missing field {k}"

def fieldD (j : Json) (k : String) (d : Json) : Json :=
  match j.getObjVal? k with
  | .ok v => v
  | .error _ => d

def ratToJson (r : Rat) : Json :=
  if r.den = 1 then Json.str (toString r.num) else Json.str s!"{r.num}/{r.den}"

def intToJson (i : Int) : Json := Json.num (JsonNumber.fromInt i)
def natToJson (n : Nat) : Json := Json.num (JsonNumber.fromNat n)

def listToJson (f : α → Json) (l : List α) : Json := Json.arr (l.map f).toArray

def optToJson (f : α → Json) : Option α → Json
  | none => Json.null
  | some a => f a


def handleWith (dispatch : String → Json → Except String Json) (line : String) : String :=
  match Json.parse line with
  | .error e => (Json.mkObj [("error", Json.str s!"parse: {e}")]).compress
  | .ok j =>
    match (do let op ← strOfJson (← field j "op"); dispatch op j) with
    | .ok r => r.compress
    | .error e => (Json.mkObj [("error", Json.str e)]).compress

partial def loopWith (dispatch : String → Json → Except String Json) (h out : IO.FS.Stream) : IO Unit := do
  let line ← h.getLine
  if line.isEmpty then return ()
  if line.trimAscii.toString.isEmpty then loopWith dispatch h out else
  out.putStrLn (handleWith dispatch line)
  loopWith dispatch h out

/-- one JSON object per input line with a field `op`; one JSON value per output line
    (`{"error": …}` for a rejected line) -/
def mainWith (dispatch : String → Json → Except String Json) : IO Unit := do
  let out ← IO.getStdout
  loopWith dispatch (← IO.getStdin) out
  out.flush

end ElexModel.Driver
