import ElexModel.Lemmas.Aggregate
import ElexModel.Core.BootAgg
import ElexModel.Gen.C02

/-!
# C02 — every aggregate equals the sum of its units; levels agree with each other

Quantifiers: every list of units, every key assignment (any group structure, missing keys), both kinds of
level (with / without county classification).  Units carry their counted votes, prediction, bounds.
-/

namespace ElexModel.Agg
open ElexModel ElexModel.Table

/-- **prediction = counted votes of reporting and attributable unexpected units + unit predictions of
    nonreporting units**, for every row of the prediction frame -/
theorem agg_pred_is_sum (cls : Bool) (rep nonrep unexp : List U) (row : AggRow)
    (h : row ∈ aggPred cls rep nonrep unexp) :
    row.pred = sumAt row.key (col (·.results) (counted cls rep unexp)) + sumAt row.key (col (·.pred) nonrep) := by
  unfold aggPred at h
  simp only [List.mem_map] at h
  obtain ⟨k, _, rfl⟩ := h
  simp only [val_votes, val_groupSum]

/-- counted column and reporting column of the same row (C01) -/
theorem agg_counted_is_sum (cls : Bool) (rep nonrep unexp : List U) (row : AggRow)
    (h : row ∈ aggPred cls rep nonrep unexp) :
    row.results = sumAt row.key (col (·.results) (attributable cls rep nonrep unexp)) ∧
    row.reporting = sumAt row.key (col (·.reporting) (attributable cls rep nonrep unexp)) := by
  unfold aggPred at h
  simp only [List.mem_map] at h
  obtain ⟨k, _, rfl⟩ := h
  simp only [val_votes, val_groupSum, attributable_eq]
  exact ⟨trivial, trivial⟩

/-- **nonparametric bounds are the same sums** (before the final rounding, which is the identity on the
    whole numbers the unit table carries) -/
theorem np_bounds_are_sums (cls : Bool) (rep nonrep unexp : List U) (r : ℕ × ℤ × ℤ)
    (h : r ∈ aggIntervalNP cls rep nonrep unexp) :
    r.2.1 = rhe (sumAt r.1 (col (·.lower) nonrep) + sumAt r.1 (col (·.results) (counted cls rep unexp))) ∧
    r.2.2 = rhe (sumAt r.1 (col (·.upper) nonrep) + sumAt r.1 (col (·.results) (counted cls rep unexp))) := by
  unfold aggIntervalNP at h
  simp only [List.mem_map] at h
  obtain ⟨k, _, rfl⟩ := h
  simp only [val_votes, val_groupSum]
  exact ⟨trivial, trivial⟩

/-- a group appears in the prediction frame iff a unit is attributable to it -/
theorem agg_row_exists_iff (cls : Bool) (rep nonrep unexp : List U) (k : ℕ) :
    k ∈ (aggPred cls rep nonrep unexp).map (·.key) ↔ ∃ u ∈ attributable cls rep nonrep unexp, u.key = some k := by
  rw [aggPred_keys, mem_keysUnion, mem_keys_votes, mem_keys_groupSum, mem_col_key]
  unfold attributable counted
  cases cls <;> simp only [Bool.false_eq_true, if_false, if_true, List.mem_append]
  · constructor
    · rintro (⟨u, hu | hu, hk⟩ | ⟨u, hu, hk⟩)
      · exact ⟨u, Or.inl (Or.inl hu), hk⟩
      · exact ⟨u, Or.inr hu, hk⟩
      · exact ⟨u, Or.inl (Or.inr hu), hk⟩
    · rintro ⟨u, (hu | hu) | hu, hk⟩
      · exact Or.inl ⟨u, Or.inl hu, hk⟩
      · exact Or.inr ⟨u, hu, hk⟩
      · exact Or.inl ⟨u, Or.inr hu, hk⟩
  · constructor
    · rintro (⟨u, hu, hk⟩ | ⟨u, hu, hk⟩)
      · exact ⟨u, Or.inl hu, hk⟩
      · exact ⟨u, Or.inr hu, hk⟩
    · rintro ⟨u, hu | hu, hk⟩
      · exact Or.inl ⟨u, hu, hk⟩
      · exact Or.inr ⟨u, hu, hk⟩

/-- every aggregate table is key-sorted without duplicates -/
theorem agg_keys_sorted (cls : Bool) (rep nonrep unexp : List U) :
    ((aggPred cls rep nonrep unexp).map (·.key)).Pairwise (· < ·) := by
  rw [aggPred_keys]; exact keysUnion_sorted _ _

/-- **interval columns sit on the row of their group** (nonparametric): the key list of the interval frame
    is the key list of the prediction frame, so the positional assignment in `add_agg_predictions` is
    key-aligned -/
theorem interval_rows_aligned_np (cls : Bool) (rep nonrep unexp : List U) :
    (aggIntervalNP cls rep nonrep unexp).map (·.1) = (aggPred cls rep nonrep unexp).map (·.key) := by
  rw [aggIntervalNP_keys, aggPred_keys, keys_groupSum_col_indep (·.lower) (·.pred)]

/-! ### levels agree

`coarse u` is the unit's key at a coarser level (state), `fine u` its key at a finer level (county, district);
`parent` maps a fine key to its coarse key.  Stated for one column of one list of units: summing the fine
groups of a coarse group gives the coarse group. -/

theorem sumAt_parent (parent : ℕ → ℕ) (rows : List (ℕ × ℚ)) (K : ℕ) (fineKeys : List ℕ)
    (hnd : fineKeys.Nodup) (hall : ∀ r ∈ rows, r.1 ∈ fineKeys) :
    sumAt K (rows.map (fun r => (some (parent r.1), r.2))) =
      ((fineKeys.filter (fun k => parent k == K)).map
        (fun k => sumAt k (rows.map (fun r => (some r.1, r.2))))).sum := by
  induction rows with
  | nil =>
    simp only [List.map_nil, sumAt]
    symm; apply List.sum_eq_zero; intro x hx; simp only [List.mem_map] at hx; obtain ⟨_, _, rfl⟩ := hx; rfl
  | cons r t ih =>
    obtain ⟨k, v⟩ := r
    have hk : k ∈ fineKeys := hall (k, v) (List.mem_cons_self ..)
    have iht := ih (fun r hr => hall r (List.mem_cons_of_mem _ hr))
    simp only [List.map_cons, sumAt, Option.some.injEq]
    rw [iht]
    -- the new row contributes v to exactly one fine key (k), which is counted iff parent k = K
    have key : ∀ (l : List ℕ), l.Nodup →
        ((l.filter (fun k' => parent k' == K)).map
          (fun k' => (if k = k' then v else 0) + sumAt k' (t.map (fun r => (some r.1, r.2))))).sum =
        (if k ∈ l ∧ parent k = K then v else 0) +
          ((l.filter (fun k' => parent k' == K)).map (fun k' => sumAt k' (t.map (fun r => (some r.1, r.2))))).sum := by
      intro l hl
      induction l with
      | nil => simp
      | cons a l ihl =>
        have hnd' := List.nodup_cons.mp hl
        simp only [List.filter_cons]
        by_cases hpa : (parent a == K) = true
        · simp only [hpa, if_true, List.map_cons, List.sum_cons]
          rw [ihl hnd'.2]
          have hpa' : parent a = K := by simpa using hpa
          by_cases hka : k = a
          · subst hka
            have : k ∉ l := hnd'.1
            simp [this, hpa']; ring
          · have : ¬ (k = a) := hka
            simp only [List.mem_cons, this, false_or, if_false]
            ring
        · simp only [hpa, Bool.false_eq_true, if_false]
          rw [ihl hnd'.2]
          have hpa' : ¬ parent a = K := by simpa using hpa
          by_cases hka : k = a
          · subst hka
            have : k ∉ l := hnd'.1
            simp [this, hpa']
          · simp [hka]
    have := key fineKeys hnd
    simp only [hk, true_and] at this
    rw [this]

/-! ### bootstrap: turnout is a sum, margin is a ratio of sums over the same units -/

open ElexModel.BootAgg in
/-- group predicted turnout = sum of counted two-party turnout (reporting, unexpected) + sum of unit predictions -/
theorem boot_turnout_is_sum (U : Units) (g : ℕ) :
    predTurnout U g = sumOn g U.unexp (·.g) (·.t) + sumOn g U.rep (·.g) (fun u => u.w * u.z)
      + sumOn g U.nonrep (·.g) (·.zt) := rfl

open ElexModel.BootAgg in
/-- group predicted margin (before any race-call adjustment) = sum of the same units' margins / that turnout;
    `0` when the turnout is `0` -/
theorem boot_margin_is_ratio (U : Units) (g : ℕ) :
    predMarginRaw U g =
      (if predTurnout U g = 0 then 0
       else (sumOn g U.rep (·.g) (·.m) + sumOn g U.unexp (·.g) (·.m) + sumOn g U.nonrep (·.g) (·.yz)) / predTurnout U g) := by
  unfold predMarginRaw predMarginSum yzUnexp yzTest divz; rfl

/-! ### non-vacuity: a county present only through an unexpected unit, a group with no nonreporting unit -/
example :
    let rep : List U := [⟨some 0, 10, 10, 10, 10, 1⟩, ⟨some 1, 7, 7, 7, 7, 1⟩]
    let nonrep : List U := [⟨some 0, 2, 5, 4, 9, 0⟩]
    let unexp : List U := [⟨some 2, 3, 3, 3, 3, 0⟩, ⟨none, 100, 100, 100, 100, 0⟩]
    (aggPred false rep nonrep unexp).map (fun r => (r.key, r.pred, r.results, r.reporting))
      = [(0, 15, 12, 1), (1, 7, 7, 1), (2, 3, 3, 0)] ∧
    aggIntervalNP false rep nonrep unexp = [(0, 14, 19), (1, 7, 7), (2, 3, 3)] := by
  decide +kernel

end ElexModel.Agg

/-! ### bridge: the aggregation chains as they are in `/repo/src` on this run (regenerated by the relational translator) -/

namespace ElexModel.Agg
open ElexModel ElexModel.Table

/-- `_get_reporting_aggregate_votes`: key list and both value columns of the source chain are the model's `votes` -/
theorem bridge_votes (cls : Bool) (f : U → ℚ) (rep unexp : List U) :
    keys (votes cls f rep unexp) =
      Gen.C02.votes_keys (keys (groupSum (col f rep))) (keys (groupSum (col f unexp))) cls ∧
    (∀ k, val k (votes cls f rep unexp) = Gen.C02.votes_results_E (groupSum (col f rep)) (groupSum (col f unexp)) cls k) ∧
    (∀ k, val k (votes cls f rep unexp) = Gen.C02.votes_reporting (groupSum (col f rep)) (groupSum (col f unexp)) cls k) := by
  unfold votes Gen.C02.votes_keys Gen.C02.votes_results_E Gen.C02.votes_reporting
  cases cls
  · simp [keys_addTables, val_addTables]
  · simp

/-- `get_aggregate_predictions`: outer merge of the counted frame with the nonreporting group sums, fill, add -/
theorem bridge_aggPred (cls : Bool) (rep nonrep unexp : List U) :
    (aggPred cls rep nonrep unexp).map (·.key) =
      Gen.C02.agg_keys (keys (votes cls (·.results) rep unexp)) (keys (groupSum (col (·.pred) nonrep))) ∧
    ∀ r ∈ aggPred cls rep nonrep unexp,
      r.pred = Gen.C02.agg_pred_E (votes cls (·.results) rep unexp) (groupSum (col (·.pred) nonrep)) r.key ∧
      r.results = Gen.C02.agg_results_E (votes cls (·.results) rep unexp) (groupSum (col (·.results) nonrep)) r.key ∧
      r.reporting = Gen.C02.agg_reporting (votes cls (·.reporting) rep unexp) (groupSum (col (·.reporting) nonrep)) r.key := by
  refine ⟨aggPred_keys cls rep nonrep unexp, ?_⟩
  intro r hr
  unfold aggPred at hr
  simp only [List.mem_map] at hr
  obtain ⟨k, _, rfl⟩ := hr
  exact ⟨rfl, rfl, rfl⟩

/-- nonparametric `get_aggregate_prediction_intervals`: sums of the unit bounds plus the counted votes, rounded -/
theorem bridge_aggIntervalNP (cls : Bool) (rep nonrep unexp : List U) :
    (aggIntervalNP cls rep nonrep unexp).map (·.1) =
      Gen.C02.np_keys (keys (votes cls (·.results) rep unexp)) (keys (groupSum (col (·.lower) nonrep))) ∧
    ∀ r ∈ aggIntervalNP cls rep nonrep unexp,
      r.2.1 = Gen.C02.np_lower (votes cls (·.results) rep unexp) (groupSum (col (·.lower) nonrep)) r.1 ∧
      r.2.2 = Gen.C02.np_upper (votes cls (·.results) rep unexp) (groupSum (col (·.upper) nonrep)) r.1 := by
  refine ⟨aggIntervalNP_keys cls rep nonrep unexp, ?_⟩
  intro r hr
  unfold aggIntervalNP at hr
  simp only [List.mem_map] at hr
  obtain ⟨k, _, rfl⟩ := hr
  exact ⟨rfl, rfl⟩

theorem bridge_np_columns : Gen.C02.np_unit_columns = ["lower_{alpha}_{estimand}", "upper_{alpha}_{estimand}"] := rfl

end ElexModel.Agg

/-! ### the properties stated directly about the regenerated source terms

The theorems above are about the hand model and the bridge lemmas identify it with the source; the statements below compose the
two, so that what is proved reads: *the chains as they are written in `/repo/src` today* sum the right units. `AV` is any table whose
values are those of the translated `_get_reporting_aggregate_votes` (the frame `get_aggregate_predictions` receives from it). -/

namespace ElexModel.Agg
open ElexModel ElexModel.Table

/-- counted votes of the source's `_get_reporting_aggregate_votes` at a key = counts of the reporting (and, without a county
    classification in the level, unexpected) units carrying that key -/
theorem source_votes_is_sum (cls : Bool) (f : U → ℚ) (rep unexp : List U) (k : ℕ) :
    Gen.C02.votes_results_E (groupSum (col f rep)) (groupSum (col f unexp)) cls k = sumAt k (col f (counted cls rep unexp)) := by
  rw [← (bridge_votes cls f rep unexp).2.1 k, val_votes]

/-- **C01 on the source**: the counted column of `get_aggregate_predictions` is the sum of the counts of every attributable unit -/
theorem source_counted_is_sum (cls : Bool) (rep nonrep unexp : List U) (AV : Table)
    (hAV : ∀ k, val k AV =
      Gen.C02.votes_results_E (groupSum (col (·.results) rep)) (groupSum (col (·.results) unexp)) cls k) (k : ℕ) :
    Gen.C02.agg_results_E AV (groupSum (col (·.results) nonrep)) k =
      sumAt k (col (·.results) (attributable cls rep nonrep unexp)) := by
  unfold Gen.C02.agg_results_E
  rw [hAV, source_votes_is_sum, val_groupSum, attributable_eq]

/-- **C02 on the source**: the prediction column is the counted votes of the reporting / unexpected units plus the unit
    predictions of the nonreporting units -/
theorem source_pred_is_sum (cls : Bool) (rep nonrep unexp : List U) (AV : Table)
    (hAV : ∀ k, val k AV =
      Gen.C02.votes_results_E (groupSum (col (·.results) rep)) (groupSum (col (·.results) unexp)) cls k) (k : ℕ) :
    Gen.C02.agg_pred_E AV (groupSum (col (·.pred) nonrep)) k =
      sumAt k (col (·.results) (counted cls rep unexp)) + sumAt k (col (·.pred) nonrep) := by
  unfold Gen.C02.agg_pred_E
  rw [hAV, source_votes_is_sum, val_groupSum]

/-- **C02 / C03 on the source**: the nonparametric aggregate bounds are the rounded sums of the unit bounds plus the counted votes -/
theorem source_np_bounds_are_sums (cls : Bool) (rep nonrep unexp : List U) (AV : Table)
    (hAV : ∀ k, val k AV =
      Gen.C02.votes_results_E (groupSum (col (·.results) rep)) (groupSum (col (·.results) unexp)) cls k) (k : ℕ) :
    Gen.C02.np_lower AV (groupSum (col (·.lower) nonrep)) k =
      rhe (sumAt k (col (·.lower) nonrep) + sumAt k (col (·.results) (counted cls rep unexp))) ∧
    Gen.C02.np_upper AV (groupSum (col (·.upper) nonrep)) k =
      rhe (sumAt k (col (·.upper) nonrep) + sumAt k (col (·.results) (counted cls rep unexp))) := by
  unfold Gen.C02.np_lower Gen.C02.np_upper
  rw [hAV, source_votes_is_sum, val_groupSum, val_groupSum]
  exact ⟨rfl, rfl⟩

/-- the hypothesis on `AV` is satisfiable: the model's `votes` table is such a table -/
example (cls : Bool) (rep unexp : List U) : ∀ k, val k (votes cls (·.results) rep unexp) =
    Gen.C02.votes_results_E (groupSum (col (·.results) rep)) (groupSum (col (·.results) unexp)) cls k :=
  (bridge_votes cls (·.results) rep unexp).2.1

end ElexModel.Agg
