/-
Model for property C12: where randomness and iteration order can enter an estimate run.

* a seeded generator is a pure function of (seed, position); every estimate run creates its generators afresh from the seed
  setting, so the position starts at 0;
* the client keeps the last model object; the national summary reads it and does not change it;
* `get_aggregate_list` de-duplicates through a `set` (arbitrary iteration order) and then sorts by a fixed order.
-/
namespace ElexModel.Det

/-- a seeded generator: its state is how many values were drawn -/
structure Gen where
  seed : Nat
  pos : Nat
  deriving Repr, DecidableEq

/-- draw `k` values; `mix` is the (deterministic) generator algorithm -/
def drawN (mix : Nat → Nat → Nat) (g : Gen) : Nat → List Nat × Gen
  | 0 => ([], g)
  | k+1 =>
    let r := drawN mix ⟨g.seed, g.pos + 1⟩ k
    (mix g.seed g.pos :: r.1, r.2)

/-- what the client keeps between calls -/
structure Client where
  lastGen : Option Gen          -- generator state of the last model object
  lastDraws : List Nat          -- the state the national summary reads
  deriving Repr, DecidableEq

inductive Call where
  | estimate (seed k : Nat)     -- an estimate run whose arguments determine (seed, number of draws)
  | natsum

/-- one call on a client: an estimate run builds a *fresh* model object (fresh generators at position 0); the summary
    only reads -/
def step (mix : Nat → Nat → Nat) (c : Client) : Call → Client × List Nat
  | .estimate seed k =>
    let r := drawN mix ⟨seed, 0⟩ k
    (⟨some r.2, r.1⟩, r.1)
  | .natsum => (c, c.lastDraws)

def run (mix : Nat → Nat → Nat) : Client → List Call → Client × List (List Nat)
  | c, [] => (c, [])
  | c, call :: t =>
    let r := step mix c call
    let rest := run mix r.1 t
    (rest.1, r.2 :: rest.2)

/-- the defect pattern excluded: one generator shared by all runs (module level / cached on the seed) -/
def stepShared (mix : Nat → Nat → Nat) (g : Gen) (k : Nat) : Gen × List Nat :=
  let r := drawN mix g k
  (r.2, r.1)

/-- stable insertion by rank in a fixed order (`sorted(..., key=AGGREGATE_ORDER.index)`) -/
def rank (order : List String) (x : String) : Nat := order.idxOf x

def insertBy (order : List String) (x : String) : List String → List String
  | [] => [x]
  | y :: t => if rank order x ≤ rank order y then x :: y :: t else y :: insertBy order x t

def sortBy (order : List String) (l : List String) : List String := l.foldr (insertBy order) []

end ElexModel.Det
