import ElexModel.Core.Table
/-
Model of `BaseElectionModel._get_reporting_aggregate_votes`, `_get_nonreporting_aggregate_votes`,
`get_aggregate_predictions`, `NonparametricElectionModel.get_aggregate_prediction_intervals` and of the
unit rows `ModelResultsHandler` writes.  Properties C01, C02, C03, C10, C11.
-/
namespace ElexModel.Agg
open ElexModel ElexModel.Table

/-- a unit as one aggregate level sees it. `key = none`: the unit has no value at this level
    (e.g. an unexpected unit has no county classification) -/
structure U where
  key : Option Nat
  results : Rat
  pred : Rat
  lower : Rat
  upper : Rat
  reporting : Rat
  deriving Repr

def col (f : U → Rat) (us : List U) : List (Option Nat × Rat) := us.map (fun u => (u.key, f u))

/-- `_get_reporting_aggregate_votes` for one column: with a county classification in the level the third frame
    is ignored, otherwise outer merge + fill + add -/
def votes (cls : Bool) (f : U → Rat) (rep unexp : List U) : Table :=
  if cls then groupSum (col f rep) else addTables (groupSum (col f rep)) (groupSum (col f unexp))

structure AggRow where
  key : Nat
  pred : Rat
  results : Rat
  reporting : Rat
  deriving Repr

/-- `get_aggregate_predictions` of the base class -/
def aggPred (cls : Bool) (rep nonrep unexp : List U) : List AggRow :=
  let vR := votes cls (·.results) rep unexp
  let vRep := votes cls (·.reporting) rep unexp
  let pO := groupSum (col (·.pred) nonrep)
  let rO := groupSum (col (·.results) nonrep)
  let repO := groupSum (col (·.reporting) nonrep)
  (keysUnion (keys vR) (keys pO)).map fun k =>
    ⟨k, val k vR + val k pO, val k vR + val k rO, val k vRep + val k repO⟩

/-- nonparametric `get_aggregate_prediction_intervals`: sums of unit bounds plus counted votes, rounded -/
def aggIntervalNP (cls : Bool) (rep nonrep unexp : List U) : List (Nat × Int × Int) :=
  let vR := votes cls (·.results) rep unexp
  let lo := groupSum (col (·.lower) nonrep)
  let hi := groupSum (col (·.upper) nonrep)
  (keysUnion (keys vR) (keys lo)).map fun k => (k, rhe (val k lo + val k vR), rhe (val k hi + val k vR))

/-- units attributable to a group at a level -/
def attributable (cls : Bool) (rep nonrep unexp : List U) : List U :=
  if cls then rep ++ nonrep else rep ++ nonrep ++ unexp

/-- the unit row `ModelResultsHandler` writes for a reporting / unexpected / non-modelled unit -/
def finalRow (results : Rat) : Rat × Rat × Rat := (results, results, results)

/-- nonreporting unit prediction of the conformal models: `round(max(p*w + w, part))` -/
def unitPred (p w part : Rat) : Int := rhe (rmax (p * w + w) part)

/-- nonreporting unit bounds: `round(max((bound ∓ correction) * w + w, part))` -/
def unitLower (l c w part : Rat) : Int := rhe (rmax ((l - c) * w + w) part)
def unitUpper (u c w part : Rat) : Int := rhe (rmax ((u + c) * w + w) part)

/-- gaussian aggregate bound of one group: `round(max(last + b, Σ partial) + counted)` -/
def gaussAgg (last b partialSum counted : Rat) : Int := rhe (rmax (last + b) partialSum + counted)

end ElexModel.Agg
