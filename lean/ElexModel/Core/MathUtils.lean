import ElexModel.Core.Conformal
/-
Model of `elexmodel.utils.math_utils.weighted_median` and `compute_inflate` (calibration statistics of the gaussian model, C15).
-/
namespace ElexModel.MathUtils
open ElexModel ElexModel.Conformal

/-- running sums of the weights of a (value, weight) list -/
def cums : Rat → List (Rat × Rat) → List Rat
  | _, [] => []
  | acc, (_, w) :: t => (acc + w) :: cums (acc + w) t

/-- index of the last running sum that is `≤ 1/2` (`np.where(cum <= 0.5)[0][-1]`), if any -/
def lastLeHalf (cs : List Rat) : Option Nat :=
  (List.range cs.length).foldl (fun r i => if cs.getD i 0 ≤ 1/2 then some i else r) none

/-- `weighted_median(x, weights)` on pairs sorted by value (weights are expected to sum to 1) -/
def wmedianSorted (s : List (Rat × Rat)) : Option Rat :=
  match s with
  | [] => none
  | (x0, w0) :: _ =>
    if 1/2 < w0 then some x0
    else
      let cs := cums 0 s
      match lastLeHalf cs with
      | none => none
      | some i =>
        match s[i + 1]? with
        | none => none          -- every running sum is ≤ 1/2: the weights do not sum to more than 1/2 (IndexError in numpy)
        | some nx => if cs.getD i 0 = 1/2 then some (((s.getD i (0, 0)).1 + nx.1) / 2) else some nx.1

def wmedian (xw : List (Rat × Rat)) : Option Rat := wmedianSorted (sortS xw)

/-- `compute_inflate`: Σ x² / (Σ x)² -/
def inflate (xs : List Rat) : Rat := sumR (xs.map (fun x => x * x)) / (sumR xs * sumR xs)

end ElexModel.MathUtils
