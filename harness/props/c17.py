"""C17 - margin histories interpolate within bounds; irregular histories are discarded.

API level: VersionedDataHandler.compute_versioned_margin_estimate(data=...) on generated version histories (1-12 versions,
repeats, zero-vote versions, downward revisions, re-scaled percents, duplicate percents, first observation at 0 %, votes moved
between the parties with no new votes, integer and float column dtypes) against lean/ElexModel/Core/Versioned.lean.
"""
import json
import math
from fractions import Fraction

import numpy as np
import pandas as pd

from harness import common as C
from harness import extract as X

PROP = "C17"
MODULES = ["ElexModel.Props.C17"]
DRIVER_TARGETS = ["ElexModel.Driver.Versioned"]
TRUSTED = [
    "numpy searchsorted / diff / clip are modelled (count of versions with percent <= perc); validated by the diff",
    "binary64 vs exact rationals: 1e-9 tolerance on estimates; int() / searchsorted decisions within 1e-9 of a boundary skipped and counted",
]
ASSUMPTIONS = ["counts are non-negative; the latest recorded percent is non-negative"]
RULE = (
    "1-4 units per frame, each with 1-12 versions; regular histories (non-decreasing turnout, batches within [-1,1]) ~75%, the rest "
    "with a downward revision or an impossible batch (incl. party swap with no new votes); recorded percents re-scaled after the fact "
    "in 25%; int64 and float64 columns; non-trivial = regular history with >= 3 distinct percents; distinct = sha1"
)
EPS = Fraction(1, 10**9)

_H = None


def handler():
    global _H
    if _H is None:
        C.use_repo()
        from elexmodel.handlers.data.VersionedData import VersionedDataHandler

        _H = VersionedDataHandler("2022-11-08_USA_G", "S", "county")
    return _H


def gen_history(rng):
    n = rng.choice([1, 2, 3, 4, 6, 8, 12])
    kind = rng.choice(["regular"] * 6 + ["downward", "impossible", "swap"])
    dem = gop = 0
    other = 0
    vs = []
    for i in range(n):
        step = rng.choice([0, 0, rng.randint(1, 50), rng.randint(50, 3000)])
        if i == 0 and rng.random() < 0.3:
            step = 0  # first observation at 0 %
        dd = rng.randint(0, step)
        dem, gop = dem + dd, gop + (step - dd)
        other += rng.randint(0, 5) if step else 0
        vs.append([dem, gop, other])
    if kind == "downward" and n >= 2:
        i = rng.randrange(1, n)
        vs[i][0] = max(0, vs[i][0] - rng.randint(1, 400))
        vs[i][1] = max(0, vs[i][1] - rng.randint(0, 400))
    if kind == "impossible" and n >= 2:
        i = rng.randrange(1, n)
        vs[i][0] += rng.randint(50, 500)
        vs[i][1] = max(0, vs[i][1] - rng.randint(60, 600))
    if kind == "swap" and n >= 2:
        i = rng.randrange(1, n)
        k = rng.randint(1, 30)
        for j in range(i, n):
            vs[j][0] += k
            vs[j][1] = vs[j][1] - k
        if any(v[1] < 0 for v in vs):
            for v in vs:
                v[1] += 40
    final_t = vs[-1][0] + vs[-1][1] + vs[-1][2]
    pev_last = rng.choice([100, 100, 93, 80, 57.5, 99.9, 0, 12, 104, 117.5, 130])  # a unit can finish above its expected vote
    rows = []
    for d, g, o in vs:
        t = d + g + o
        pev = (t / final_t * pev_last) if final_t else 0.0
        if rng.random() < 0.25:
            pev = min(100.0, pev * rng.choice([0.8, 1.1, 1.3]))  # recorded percent re-scaled after the fact
        rows.append({"results_dem": d, "results_gop": g, "results_turnout": t, "percent_expected_vote": pev})
    rows[-1]["percent_expected_vote"] = float(pev_last)
    return rows, kind


def gen_case(rng):
    units = []
    for k in range(rng.randint(1, 4)):
        rows, kind = gen_history(rng)
        units.append({"id": f"u{k}", "kind": kind, "rows": rows})
    return {"units": units, "dtype": rng.choice(["int", "float"])}


def frame(case):
    C.use_repo()
    from elexmodel.handlers.data.Estimandizer import Estimandizer

    recs = []
    t = 0
    for u in case["units"]:
        for r in u["rows"]:
            rec = dict(r)
            rec["geographic_unit_fips"] = u["id"]
            rec["last_modified"] = t
            t += 1
            recs.append(rec)
    df = pd.DataFrame(recs)
    for c in ("results_dem", "results_gop", "results_turnout"):
        df[c] = df[c].astype("int64" if case["dtype"] == "int" else "float64")
    df, _ = Estimandizer().add_estimand_results(df, ["margin"], False)
    return df.sort_values("last_modified")


def impl_run(case):
    df = frame(case)
    inputs = {}
    for u, g in df.groupby("geographic_unit_fips"):
        inputs[u] = [[C.rat(r["results_dem"]), C.rat(r["results_gop"]), C.rat(r["results_weights"]), C.rat(r["results_turnout"]),
                      C.rat(r["percent_expected_vote"]), C.rat(r["results_normalized_margin"])] for r in g.to_dict(orient="records")]
    try:
        with np.errstate(all="ignore"):
            out = handler().compute_versioned_margin_estimate(data=df.copy())
    except Exception as e:
        return inputs, {"raises": type(e).__name__, "msg": str(e)[:200]}
    res = {}
    for u, g in out.groupby("geographic_unit_fips"):
        res[u] = {"error": sorted(set(g["error_type"])), "rows": [
            [int(r["percent_expected_vote"]), r["nearest_observed_vote"], r["est_margin"], r["est_correction"]]
            for r in g.to_dict(orient="records")]}
    return inputs, res


def nan(x):
    return x is None or (isinstance(x, float) and math.isnan(x))


def spec_regular(vs):
    """is the history regular per the property: non-decreasing turnout, every batch margin within [-1, 1]"""
    t = [Fraction(v[3]) for v in vs]
    if any(b < a for a, b in zip(t, t[1:])):
        return "non-monotone percent expected vote"
    for a, b in zip(vs, vs[1:]):
        dw = Fraction(b[2]) - Fraction(a[2])
        dm = (Fraction(b[0]) - Fraction(a[0])) - (Fraction(b[1]) - Fraction(a[1]))
        if dw == 0:
            if dm != 0:
                return "batch_margin"
        elif abs(dm / dw) > 1:
            return "batch_margin"
    return None


def check(run, case, inputs, impl, mouts):
    if "raises" in impl and isinstance(impl.get("raises"), str):
        run.violation("compute_versioned_margin_estimate raised " + impl["raises"], input=case, impl=impl,
                      predicate="percs_complete", signature="C17:raise")
        return
    for u in case["units"]:
        uid = u["id"]
        vs = [[C.unrat(x) for x in v] for v in inputs[uid]]
        got = impl.get(uid)
        if got is None:
            run.violation("unit missing from the result frame", input=case, unit=uid, predicate="percs_complete", signature="C17:missing")
            continue
        irregular = spec_regular(vs)
        if irregular:
            ok = got["error"] == [irregular] and len(got["rows"]) == 101 and all(nan(r[2]) and nan(r[3]) for r in got["rows"])
            if not ok:
                run.violation("irregular history (non-monotone or impossible batch) does not yield only missing corrections with the "
                              "error type recorded", input=case, unit=uid, impl={"error": got["error"], "rows": len(got["rows"]),
                                                                                "non_missing": sum(1 for r in got["rows"] if not nan(r[3]))},
                              expected=irregular, predicate="irregular_all_missing", signature="C17:irregular")
            continue
        if got["error"] != ["none"]:
            run.violation("regular history was discarded", input=case, unit=uid, impl=got["error"], predicate="compute_regular",
                          signature="C17:regular-discarded")
            continue
        tl = vs[-1][3]
        p = [(v[3] / tl if tl else Fraction(0)) * vs[-1][4] for v in vs]
        # the implementation evaluates turnout_i / turnout_last * percent_last in binary64: where that is inexact, a percent that is
        # exactly a whole number may come out a few ulp off, and the floor / searchsorted decision at that whole percent is a float
        # rounding tie (DESIGN 3.1): such decisions are skipped and counted, like those within 1e-9 of a boundary
        pf = [C.frac((float(v[3]) / float(tl) if tl else 0.0) * float(vs[-1][4])) for v in vs]

        def tie(perc_):
            return any(abs(x - perc_) < EPS and (x != perc_ or xf != x) for x, xf in zip(p, pf))

        pmax = max(p)
        if 0 < abs(pmax - round(pmax)) < EPS or (pmax == round(pmax) and max(pf) != pmax):
            run.boundary_skipped += 1
            continue
        want_rows = math.floor(pmax) + 1
        if len(got["rows"]) != want_rows or [r[0] for r in got["rows"]] != list(range(want_rows)):
            run.violation("not one row for every whole percent from 0 to the latest percent", input=case, unit=uid,
                          impl=len(got["rows"]), expected=want_rows, predicate="percs_complete", signature="C17:rows")
            continue
        nm = [v[5] for v in vs]
        first = min(p)
        for perc, nearest, est, corr in got["rows"]:
            if nan(est) or nan(corr):
                run.violation("missing estimate in a regular history", input=case, unit=uid, perc=perc, predicate="est_convex",
                              signature="C17:nan")
                break
            if not (-1 - 1e-9 <= est <= 1 + 1e-9):
                run.violation("imputed margin outside [-1, 1]", input=case, unit=uid, perc=perc, impl=est, predicate="est_bounded",
                              signature="C17:bounded")
                break
            if tie(perc):
                continue
            if perc == 0:
                want = Fraction(0)
            else:
                idx = sum(1 for x in p if x <= perc) - 1
                if idx < 0:
                    want = nm[0]
                else:
                    if idx + 1 < len(vs):
                        dw = vs[idx + 1][2] - vs[idx][2]
                        dm = (vs[idx + 1][0] - vs[idx][0]) - (vs[idx + 1][1] - vs[idx][1])
                        b = dm / dw if dw else Fraction(0)
                    else:
                        b = Fraction(0)
                    lam = p[idx] / perc
                    want = lam * nm[idx] + (1 - lam) * b
            if not C.close(est, want):
                run.violation("imputed margin is not the convex combination of the last observed margin and the next batch margin "
                              "(or the first observed margin before the first observation)", input=case, unit=uid, perc=perc,
                              impl=est, expected=float(want), predicate="est_convex / est_before_first", signature="C17:est")
                break
            if not C.close(corr, nm[-1] - want):
                run.violation("correction is not the final margin minus the imputed margin", input=case, unit=uid, perc=perc,
                              impl=corr, expected=float(nm[-1] - want), predicate="correction_def", signature="C17:corr")
                break
        # model diff
        m = mouts.get(uid) if mouts else None
        if m is None:
            continue
        if "raises" in m:
            run.diff("model discards a history the implementation keeps", input=case, unit=uid, model=m)
            continue
        if len(m["rows"]) != len(got["rows"]):
            run.diff("row count: model vs implementation", input=case, unit=uid, impl=len(got["rows"]), model=len(m["rows"]))
            continue
        for mr, gr in zip(m["rows"], got["rows"]):
            if tie(gr[0]):
                run.boundary_skipped += 1
                continue
            if not (C.close(gr[1], C.unrat(mr[1])) and C.close(gr[2], C.unrat(mr[2])) and C.close(gr[3], C.unrat(mr[3]))):
                run.diff("row: model vs implementation", input=case, unit=uid, impl=gr, model=mr)
                break
        run.traces += 1
    if mouts:
        for u in case["units"]:
            m, got = mouts.get(u["id"]), impl.get(u["id"])
            if m and got and "raises" in m and got["error"] != [m["raises"]]:
                run.diff("error type: model vs implementation", input=case, unit=u["id"], impl=got["error"], model=m["raises"])


CORPUS = [
    # observed at 17 / 42 / 79 / 100 %, integer columns (F-9: truncation of the re-scaled percent)
    {"units": [{"id": "u0", "kind": "regular", "rows": [
        {"results_dem": 100, "results_gop": 70, "results_turnout": 170, "percent_expected_vote": 17.0},
        {"results_dem": 200, "results_gop": 220, "results_turnout": 420, "percent_expected_vote": 42.0},
        {"results_dem": 420, "results_gop": 370, "results_turnout": 790, "percent_expected_vote": 79.0},
        {"results_dem": 520, "results_gop": 480, "results_turnout": 1000, "percent_expected_vote": 100.0}]}], "dtype": "int"},
    # votes moved between the parties, no new votes: infinite batch margin
    {"units": [{"id": "u0", "kind": "swap", "rows": [
        {"results_dem": 50, "results_gop": 50, "results_turnout": 100, "percent_expected_vote": 50.0},
        {"results_dem": 60, "results_gop": 40, "results_turnout": 100, "percent_expected_vote": 50.0},
        {"results_dem": 110, "results_gop": 90, "results_turnout": 200, "percent_expected_vote": 100.0}]}], "dtype": "float"},
    # earlier version carries a higher recorded percent than the final one
    {"units": [{"id": "u0", "kind": "regular", "rows": [
        {"results_dem": 0, "results_gop": 0, "results_turnout": 0, "percent_expected_vote": 0.0},
        {"results_dem": 30, "results_gop": 10, "results_turnout": 40, "percent_expected_vote": 30.0},
        {"results_dem": 50, "results_gop": 40, "results_turnout": 90, "percent_expected_vote": 95.0},
        {"results_dem": 55, "results_gop": 45, "results_turnout": 100, "percent_expected_vote": 80.0}]}], "dtype": "float"},
]


def extract(run):
    return X.generate("C17")


# ----------------------------------------------------------------------------------------------
# the same histories through the storage layer: VersionedDataHandler.get_versioned_results over a scripted versioned bucket


def via_storage(case):
    """publish the case as successive versions of one results file (every unit is in every version; a unit whose history is shorter
    keeps its last row), fetch them with get_versioned_results and impute; returns (padded case, result per unit | error)"""
    import datetime as dt
    import io

    C.use_repo()
    from elexmodel.handlers import s3
    from elexmodel.handlers.data.VersionedData import VersionedDataHandler

    n = max(len(u["rows"]) for u in case["units"])
    padded = {"units": [dict(u, rows=u["rows"] + [u["rows"][-1]] * (n - len(u["rows"]))) for u in case["units"]], "dtype": case["dtype"]}
    base = dt.datetime(2024, 11, 5, 12, 0, 0, tzinfo=dt.timezone.utc)
    cols = ["results_dem", "results_gop", "results_turnout", "percent_expected_vote"]
    files = []
    for j in range(n):
        lines = ["geographic_unit_fips," + ",".join(cols)]
        for u in padded["units"]:
            r = u["rows"][j]
            lines.append(u["id"] + "," + ",".join(repr(r[c]) if case["dtype"] == "float" or c == "percent_expected_vote" else str(int(r[c])) for c in cols))
        files.append(("\n".join(lines) + "\n").encode())
    vers = [{"VersionId": f"v{j}", "LastModified": base + dt.timedelta(minutes=j), "Size": len(files[j]), "Key": "k"} for j in range(n)][::-1]

    class Client:
        def list_object_versions(self, Bucket, Prefix, **kw):
            return {"IsTruncated": False, "Versions": [dict(v) for v in vers]}

    class Future:
        def result(self):
            return None

    class Manager:
        def download(self, bucket, key, fileobj, extra_args=None, subscribers=None):
            fileobj.write(files[int((extra_args or {})["VersionId"][1:])])
            return Future()

    class Sess:
        def create_client(self, name):
            return Client()

    orig = (s3.get_session, s3.TransferManager)
    s3.get_session = lambda: Sess()
    s3.TransferManager = lambda c: Manager()
    try:
        h = VersionedDataHandler("2022-11-08_USA_G", "S", "county", estimands=["margin"], sample=1)
    finally:
        s3.get_session, s3.TransferManager = orig
    try:
        with np.errstate(all="ignore"):
            data = h.get_versioned_results()
            out = h.compute_versioned_margin_estimate(data=data.copy())
    except Exception as e:
        return padded, {"raises": type(e).__name__, "msg": str(e)[:200]}
    res = {}
    for u, g in out.groupby("geographic_unit_fips"):
        res[str(u)] = {"error": sorted(set(g["error_type"])), "rows": [
            [int(r["percent_expected_vote"]), r["nearest_observed_vote"], r["est_margin"], r["est_correction"]]
            for r in g.to_dict(orient="records")]}
    return padded, res


def storage_stream(run, n):
    rng = run.rng
    for _ in range(n):
        case = gen_case(rng)
        if any(not u["rows"] for u in case["units"]):
            continue
        padded, via = via_storage(case)
        _, direct = impl_run(padded)
        run.case({"via_storage": True, "case": case}, True)
        run.count("histories through the versioned bucket")

        def norm(res):
            return {u: {"error": v["error"], "rows": [[r[0]] + [None if nan(x) else float(x) for x in r[1:]] for r in v["rows"]]}
                    for u, v in res.items()} if "raises" not in res else res

        if norm(via) != norm(direct):
            bad = next((u for u in norm(direct) if norm(via).get(u) != norm(direct)[u]), None) if "raises" not in via and "raises" not in direct else None
            run.violation("a history fetched from the versioned bucket is not imputed like the same history given directly "
                          "(versions lost, merged or re-ordered on the way)", input=case, unit=bad,
                          impl=(via.get(bad, {}).get("error") if bad else via), expected=(direct.get(bad, {}).get("error") if bad else direct),
                          predicate="irregular_all_missing / regular_kept", signature="C17:storage")
        else:
            run.traces += 1


def explore(run, driver, budget):
    run.info["rule"] = RULE
    n = {"quick": 300, "thorough": 20000, "search": 3000}[budget]
    cases = (list(CORPUS) if budget != "search" else []) + [gen_case(run.rng) for _ in range(n)]
    results = [impl_run(case) for case in cases]
    all_outs = None
    if driver is not None:
        ops, index = [], []
        for ci, (inputs, _) in enumerate(results):
            for u in inputs:
                ops.append({"op": "ver.compute", "vs": inputs[u]})
                index.append((ci, u))
        outs = driver.run(ops)
        all_outs = [dict() for _ in cases]
        for (ci, u), o in zip(index, outs):
            all_outs[ci][u] = o
    for ci, case in enumerate(cases):
        inputs, impl = results[ci]
        mouts = all_outs[ci] if all_outs else None
        kinds = [u["kind"] for u in case["units"]]
        run.case(case, any(k == "regular" and len({r["percent_expected_vote"] for r in u["rows"]}) >= 3
                           for k, u in zip(kinds, case["units"])))
        for k in kinds:
            run.count("history " + k)
        run.count("dtype " + case["dtype"])
        check(run, case, inputs, impl, mouts)
    storage_stream(run, {"quick": 40, "thorough": 1500, "search": 300}[budget])


def replay(run, driver, payload):
    case = payload["input"]
    if payload.get("signature") == "C17:storage":
        padded, via = via_storage(case)
        _, direct = impl_run(padded)
        run.case({"via_storage": True, "case": case}, True)
        if json.dumps(via, default=str, sort_keys=True) != json.dumps(direct, default=str, sort_keys=True):
            run.violation("a history fetched from the versioned bucket is not imputed like the same history given directly", input=case,
                          predicate="irregular_all_missing / regular_kept", signature="C17:storage")
        return
    inputs, impl = impl_run(case)
    mouts = None
    if driver is not None:
        ids = list(inputs)
        mouts = dict(zip(ids, driver.run([{"op": "ver.compute", "vs": inputs[u]} for u in ids])))
    run.case(case, True)
    check(run, case, inputs, impl, mouts)
