import ElexModel.Core.Quantile
/-
Conformal models (`ConformalElectionModel`, `NonparametricElectionModel`, `GaussianElectionModel`):
minimum units, calibration split sizes, quantile level, conformity scores, the population-weighted
correction, un-normalisation.  Properties C04, C05, C14.
-/
namespace ElexModel.Conformal
open ElexModel

/-- `math.ceil(-1 * (alpha + 1) / (alpha - 1))` -/
def minUnits (alpha : Rat) : Int := (-1 * (alpha + 1) / (alpha - 1)).ceil

/-- `min(1 + (alpha + 1) / (n * (alpha - 1)), 0.9)` -/
def confFracRaw (n : Rat) (alpha : Rat) : Rat := rmin (1 + (alpha + 1) / (n * (alpha - 1))) (9/10)

/-- `round(…, 2)` of it -/
def confFrac (n : Rat) (alpha : Rat) : Rat := pyRound (confFracRaw n alpha) 2

/-- `max(1, math.floor(n_train * conf_frac))` -/
def trainRows (n : Nat) (cf : Rat) : Int := max 1 (((n : Rat) * cf).floor)

/-- size of the calibration (conformalization) set -/
def nCal (n : Nat) (cf : Rat) : Int := (n : Int) - trainRows n cf

/-- `alpha * (1 + 1 / n_cal)` -/
def qLevel (alpha : Rat) (ncal : Rat) : Rat := alpha * (1 + 1 / ncal)

/-- gaussian model: fixed fraction and minimum -/
def gaussConfFrac : Rat := 7/10
def gaussMinUnits : Rat := 10 * gaussConfFrac

/-- the gate of `ModelClient.get_estimates`: largest minimum over the requested levels -/
def gateMin (mins : List Rat) : Rat := mins.foldl (fun acc m => if acc < m then m else acc) 0
def gateRaises (mins : List Rat) (nRep : Nat) : Bool := decide ((nRep : Rat) < gateMin mins)

/-! ### conformity scores and the population-weighted correction -/

/-- score of one calibration unit from `lower_bounds = f_lo(x) - r`, `upper_bounds = r - f_hi(x)` -/
def score (lb ub : Rat) : Rat := rmax lb ub

/-- insertion of a (score, weight) pair into a score-sorted list (stable) -/
def insertS (p : Rat × Rat) : List (Rat × Rat) → List (Rat × Rat)
  | [] => [p]
  | q :: t => if p.1 < q.1 then p :: q :: t else q :: insertS p t

def sortS (l : List (Rat × Rat)) : List (Rat × Rat) := l.foldr insertS []

/-- scan a score-sorted list: the first score whose running weight exceeds `thr` -/
def scan (thr : Rat) : Rat → List (Rat × Rat) → Option Rat
  | _, [] => none
  | acc, (s, w) :: t => if thr < acc + w then some s else scan thr (acc + w) t

def wTot : List (Rat × Rat) → Rat
  | [] => 0
  | (_, w) :: t => w + wTot t

/-- `_compute_population_correction`: weights normalised by their sum, sorted by score, cumulative sum,
    smallest score whose cumulative share exceeds `q` (exact arithmetic: `Σ w > q · W`) -/
def popCorrection (sw : List (Rat × Rat)) (q : Rat) : Option Rat := scan (q * wTot sw) 0 (sortS sw)

/-- the correction actually applied -/
def correction (robust : Bool) (sw : List (Rat × Rat)) (q : Rat) : Option Rat :=
  match popCorrection sw q with
  | none => none
  | some pc => if robust then some (rmax (npQuantile (sw.map Prod.fst) q) pc) else some pc

/-- final unit bounds in vote space -/
def finalLower (l c w part : Rat) : Int := rhe (rmax ((l - c) * w + w) part)
def finalUpper (u c w part : Rat) : Int := rhe (rmax ((u + c) * w + w) part)

/-! ### leave-one-out view of the calibration set (counting core of split-conformal coverage, equal weights) -/

/-- calibration scores with unit weights -/
def unitW (l : List Rat) : List (Rat × Rat) := l.map (fun s => (s, (1 : Rat)))

/-- leave-one-out correction: computed from every score but the `i`-th, with equal weights -/
def looCorrection (l : List Rat) (q : Rat) (i : Nat) : Option Rat := popCorrection (unitW (l.eraseIdx i)) q

/-- is the `i`-th score inside the interval widened by the correction computed from the other scores? -/
def covered (l : List Rat) (q : Rat) (i : Nat) : Bool :=
  match looCorrection l q i with
  | some c => decide (l.getD i 0 ≤ c)
  | none => false

/-! ### no covariates: the weighted median and the uniform swing (C05) -/

/-- weighted median as a quantile-regression solution at τ = ½ with an intercept only:
    the first value (in sorted order) whose running weight exceeds half the total -/
def wmed (rw : List (Rat × Rat)) : Option Rat := scan (wTot rw / 2) 0 (sortS rw)

/-- prediction of a nonreporting unit: baseline + 1 scaled by `1 + m`, rounded, floored at the partial count -/
def swingPred (m : Rat) (b part : Rat) : Int := rhe (rmax ((1 + m) * (b + 1)) part)

end ElexModel.Conformal
