import ElexModel.Driver.Boot
def main : IO Unit := ElexModel.Driver.mainWith ElexModel.Driver.Boot.run
