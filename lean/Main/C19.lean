import ElexModel.Driver.C19
def main : IO Unit := ElexModel.Driver.mainWith ElexModel.Driver.C19.run
