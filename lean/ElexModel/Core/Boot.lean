import ElexModel.Core.Quantile
/-
Bootstrap interval construction and race calls (`BootstrapElectionModel._get_quantiles`,
`get_unit_prediction_intervals`, `get_aggregate_prediction_intervals`, `_format_called_contests`,
`_adjust_called_contests`) — properties C06, C07.
-/
namespace ElexModel.Boot

/-- `lower_alpha = (1 - alpha) / 2` -/
def lowerAlpha (alpha : Rat) : Rat := (1 - alpha) / 2
/-- `upper_alpha = 1 - lower_alpha` -/
def upperAlpha (alpha : Rat) : Rat := 1 - lowerAlpha alpha

/-- `np.floor(lower_alpha * (B + 1))` -/
def lowerRank (la : Rat) (B : Nat) : Int := (la * ((B : Rat) + 1)).floor
/-- `np.ceil(upper_alpha * (B - 1))` -/
def upperRank (ua : Rat) (B : Nat) : Int := (ua * ((B : Rat) - 1)).ceil

def lowerQ (alpha : Rat) (B : Nat) : Rat := (lowerRank (lowerAlpha alpha) B : Rat) / (B : Rat)
def upperQ (alpha : Rat) (B : Nat) : Rat := (upperRank (upperAlpha alpha) B : Rat) / (B : Rat)

/-- unit interval before rounding: `(lower, upper) = (pred - Q(upper_q), pred - Q(lower_q))` of the
    error draws `errors_B_1 - errors_B_2` -/
def unitRaw (pred : Rat) (draws : List Rat) (alpha : Rat) (B : Nat) : Rat × Rat :=
  (pred - npQuantile draws (upperQ alpha B), pred - npQuantile draws (lowerQ alpha B))

/-- `get_unit_prediction_intervals`: rounded to whole numbers -/
def unitInterval (pred : Rat) (draws : List Rat) (alpha : Rat) (B : Nat) : Int × Int :=
  let r := unitRaw pred draws alpha B
  (rhe r.1, rhe r.2)

/-- the `± 0.001` overlap guarantee -/
def straddle (pred : Rat) (r : Rat × Rat) : Rat × Rat :=
  (rmin r.1 (pred - 1/1000), rmax r.2 (pred + 1/1000))

/-- race call state of one contest: `1` left, `0` right, `-1` none (as `_format_called_contests` encodes it) -/
inductive Call where
  | lhs | rhs | none
  deriving Repr, DecidableEq, BEq

def lhsThreshold : Rat := 5/1000
def rhsThreshold : Rat := -5/1000

/-- `_adjust_called_contests` on one contest -/
def adjustPred (c : Call) (pred : Rat) : Rat :=
  match c with
  | .lhs => rmax lhsThreshold pred
  | .rhs => rmin rhsThreshold pred
  | .none => pred

/-- the two `np.where` overrides for called contests -/
def overrideCalled (c : Call) (r : Rat × Rat) : Rat × Rat :=
  (if r.1 < 0 ∧ c = .lhs then lhsThreshold else r.1,
   if 0 < r.2 ∧ c = .rhs then rhsThreshold else r.2)

/-- the two `np.where` overrides for stop-listed contests -/
def overrideStop (stop : Bool) (r : Rat × Rat) : Rat × Rat :=
  (if 0 < r.1 ∧ stop then rhsThreshold else r.1,
   if r.2 < 0 ∧ stop then lhsThreshold else r.2)

/-- aggregate interval of one group. `top` = the aggregate is top-level (race calls apply);
    `pred` is the reported prediction (already adjusted for calls when `top`). -/
def aggInterval (top : Bool) (c : Call) (stop : Bool) (pred : Rat) (draws : List Rat) (alpha : Rat) (B : Nat) :
    Rat × Rat :=
  let r0 := (pred - npQuantile draws (upperQ alpha B), pred - npQuantile draws (lowerQ alpha B))
  let r1 := straddle pred r0
  if top then overrideStop stop (overrideCalled c r1) else r1

/-- `_format_called_contests(lhs, rhs, contests, …)` : error (which check failed) or the vector -/
inductive FormatErr where
  | both | unknownLhs | unknownRhs
  deriving Repr, DecidableEq, BEq

def formatCalled (lhs rhs contests : List Nat) : Except FormatErr (List Call) :=
  if lhs.any (fun c => rhs.contains c) then .error .both
  else if lhs.any (fun c => !contests.contains c) then .error .unknownLhs
  else if rhs.any (fun c => !contests.contains c) then .error .unknownRhs
  else .ok (contests.map (fun c => if lhs.contains c then Call.lhs else if rhs.contains c then Call.rhs else Call.none))

/-- the stop list goes through the same function with an empty right-hand list -/
def formatStop (stop contests : List Nat) : Except FormatErr (List Bool) :=
  if stop.any (fun c => !contests.contains c) then .error .unknownLhs
  else .ok (contests.map (fun c => stop.contains c))

/-- `_is_top_level_aggregate`: `[postal_code]` or `{postal_code, district}` -/
def isTop (aggregate : List String) : Bool :=
  (aggregate.length == 1 && aggregate.contains "postal_code") ||
  (aggregate.length == 2 && aggregate.contains "postal_code" && aggregate.contains "district")

/-- group margin prediction: `np.nan_to_num(Σ yz / Σ z)` -/
def predMargin (yz z : List Rat) : Rat := divz (sumR yz) (sumR z)

end ElexModel.Boot
