import ElexModel.Driver.Util
import ElexModel.Driver.Boot
import ElexModel.Core.NatSum

open Lean ElexModel.Driver

namespace ElexModel.Driver.NatSum
open ElexModel ElexModel.NatSum

def contestOfJson (j : Json) : Except String Contest := do
  match ← arrOfJson j with
  | [w, p, d1, d2, c, s] =>
    pure ⟨← ratOfJson w, ← ratOfJson p, ← listOf ratOfJson d1, ← listOf ratOfJson d2,
      ← ElexModel.Driver.Boot.callOfJson c, ← boolOfJson s⟩
  | _ => throw "contest = [w,pred,d1,d2,call,stop]"

def run (op : String) (j : Json) : Except String Json := do
  match op with
  | "natsum" =>
    let cs ← listOf contestOfJson (← field j "contests")
    let base ← ratOfJson (← field j "base")
    let alpha ← ratOfJson (← field j "alpha")
    let B ← natOfJson (← field j "B")
    let weights ← optOf (listOf ratOfJson) (fieldD j "weights" Json.null)
    match weights with
    | none =>
      let r := natsum cs base alpha B
      pure (Json.arr #[ratToJson r.1, ratToJson r.2.1, ratToJson r.2.2])
    | some ws =>
      match natsumChecked ws cs base alpha B with
      | none => pure (Json.mkObj [("raises", "size")])
      | some r => pure (Json.arr #[ratToJson r.1, ratToJson r.2.1, ratToJson r.2.2])
  | _ => ElexModel.Driver.Boot.run op j

end ElexModel.Driver.NatSum
