"""C19 - version retrieval returns exactly the requested window despite paging and faults.

Implementation: elexmodel.handlers.s3.S3VersionUtil driven against a scripted paging service and a
scripted transfer manager (botocore session / s3transfer replaced in-process; no line of /repo changed).
Model: lean/ElexModel/Core/S3.lean; theorems: lean/ElexModel/Props/C19.lean.
"""
import datetime as dt
import io

from harness import common as C

PROP = "C19"
MODULES = ["ElexModel.Props.C19"]
DRIVER_TARGETS = ["ElexModel.Driver.C19"]
TRUSTED = [
    "the storage service is modelled: newest-first listing of one key, pages of any size >= 1, no delete markers",
    "s3transfer threading is not modelled: wait_for_versions consumes its queue FIFO, so completion order is irrelevant",
    "timezone conversion (dateutil) is compared as an instant plus zone name, not proved",
]
ASSUMPTIONS = [
    "history is newest-first (non-increasing LastModified), as S3 lists the versions of a single key",
    "at least one download succeeds when a result is expected (pd.concat([]) raises otherwise; mapped to the empty list)",
]
RULE = (
    "random histories (0-40 versions, duplicate timestamps), page size 1-7, windows placed on/between stored "
    "timestamps incl. open ends, sample 1-4, random failing subsets; a case is non-trivial if the listing needs "
    ">= 2 pages or the window excludes something or a download fails; distinct = sha1 of the canonical input"
)

BASE = dt.datetime(2024, 11, 5, 12, 0, 0, tzinfo=dt.timezone.utc)
TZS = ["America/New_York", "UTC", "America/Los_Angeles", "Asia/Kolkata"]


def ts2dt(t):
    return BASE + dt.timedelta(seconds=int(t))


class FakeClient:
    def __init__(self, hist, page):
        self.vers = [
            {"VersionId": f"v{i}", "LastModified": ts2dt(t), "Size": 10 + i, "Key": "k", "_i": i, "_t": t}
            for (t, i) in hist
        ]
        self.page = page
        self.requests = 0

    def list_object_versions(self, Bucket, Prefix, KeyMarker=None, VersionIdMarker=None, **kw):
        self.requests += 1
        start = 0
        if VersionIdMarker is not None:
            start = [v["VersionId"] for v in self.vers].index(VersionIdMarker) + 1
        chunk = self.vers[start : start + self.page]
        truncated = start + self.page < len(self.vers)
        resp = {"IsTruncated": truncated}
        if chunk:
            resp["Versions"] = [dict(v) for v in chunk]
        if truncated:
            resp["NextKeyMarker"] = "k"
            resp["NextVersionIdMarker"] = chunk[-1]["VersionId"]
        return resp


class FakeFuture:
    def __init__(self, fail):
        self.fail = fail

    def result(self):
        if self.fail:
            raise RuntimeError("scripted download failure")
        return None


class FakeManager:
    def __init__(self, failing):
        self.failing = set(failing)
        self.requested = []

    def download(self, bucket, key, fileobj, extra_args=None, subscribers=None):
        vid = (extra_args or {}).get("VersionId")
        i = int(vid[1:])
        self.requested.append(i)
        # two rows of its own and one row that is identical in every version (most units do not change between versions)
        fileobj.write(f"geographic_unit_fips,results_dem,results_gop,results_turnout\nu{i},{i},1,{i + 2}\nw{i},{i},1,{i + 2}\nsame,7,3,11\n".encode())
        return FakeFuture(i in self.failing)


def impl_run(case):
    s3 = _s3mod()
    hist = [tuple(x) for x in case["hist"]]
    client = FakeClient(hist, case["k"] + 1)
    mgr = FakeManager(case["failing"])

    class _Sess:
        def create_client(self, name):
            return client

    orig = (s3.get_session, s3.TransferManager)
    s3.get_session = lambda: _Sess()
    s3.TransferManager = lambda c: mgr
    try:
        start = ts2dt(case["start"]) if case["start"] is not None else None
        end = ts2dt(case["end"]) if case["end"] is not None else None
        util = s3.S3VersionUtil("bucket", start, end, case["tz"])
    finally:
        s3.get_session, s3.TransferManager = orig
    out = {}
    try:
        vs = util.list_versions("k")
        out["list"] = [[v["_t"], v["_i"]] for v in vs]
    except Exception as e:
        out["list"] = {"raises": type(e).__name__}
    client.requests = 0
    try:
        df = util.get("k", sample=case["sample"] + 1)
        if df is None:
            out["get"] = None
        else:
            rows = []
            tz_ok = True
            import dateutil.tz

            for fips, dem, lm in zip(df["geographic_unit_fips"], df["results_dem"], df["last_modified"]):
                rows.append([int(round((lm - BASE).total_seconds())), int(dem), fips])
                off = lm.utcoffset()
                want = ts2dt(int(round((lm - BASE).total_seconds()))).astimezone(dateutil.tz.gettz(case["tz"])).utcoffset()
                tz_ok = tz_ok and (off == want)
            # three rows per version (u<i>, w<i> and the row that is the same in every version): all carry their own version's time
            vers = []
            for j in range(0, len(rows), 3):
                a = rows[j]
                b = rows[j + 1] if j + 1 < len(rows) else None
                c = rows[j + 2] if j + 2 < len(rows) else None
                if (b is None or c is None or a[:2] != b[:2] or a[2] != f"u{a[1]}" or b[2] != f"w{b[1]}" or c[2] != "same"
                        or c[0] != a[0] or c[1] != 7):
                    vers.append(["row-mismatch", a, b, c])
                else:
                    vers.append([a[0], a[1]])
            out["get"] = vers
            out["tz_ok"] = tz_ok
        out["requested"] = list(mgr.requested)
    except ValueError as e:
        out["get"] = [] if "No objects to concatenate" in str(e) else {"raises": "ValueError"}
        out["requested"] = list(mgr.requested)
    except Exception as e:
        out["get"] = {"raises": type(e).__name__}
    return out


_S3 = None


def _s3mod():
    global _S3
    if _S3 is None:
        C.use_repo()
        from elexmodel.handlers import s3

        _S3 = s3
    return _S3


def spec(case):
    """the property itself (right-hand sides of list_exact / get_skips_failures)"""
    s, e = case["start"], case["end"]
    win = [[t, i] for (t, i) in case["hist"] if (s is None or t >= s) and (e is None or t <= e)]
    if not win:
        return win, None, []
    sampled = win[:: case["sample"] + 1]
    return win, [v for v in sampled if v[1] not in case["failing"]], [v[1] for v in sampled]


def gen_case(rng, big=False):
    n = rng.choice([0, 1, 2, 3, 5, 8, 13, 21, 40]) if rng.random() < 0.5 else rng.randint(0, 40 if not big else 120)
    t = rng.randint(50, 5000)
    hist = []
    for i in range(n):
        hist.append([t, i])
        t -= rng.choice([0, 0, 1, 1, 2, 5, 30])
    k = rng.randint(0, 6)
    times = sorted({h[0] for h in hist}) or [100]

    def bound(kind):
        r = rng.random()
        if r < 0.2:
            return None
        if r < 0.7:
            return rng.choice(times)  # exactly on a stored timestamp
        if r < 0.85:
            return rng.choice(times) + rng.choice([-1, 1])
        return rng.choice([times[0] - 10, times[-1] + 10])

    start, end = bound("s"), bound("e")
    # corner: the start equals the timestamp of a version that ends a page and of the next one
    if hist and rng.random() < 0.25:
        pos = min(len(hist) - 1, (k + 1) * rng.randint(1, 3) - 1)
        start = hist[pos][0]
    sample = rng.randint(0, 3)
    frac_fail = rng.choice([0, 0, 0.2, 0.5, 0.9])
    failing = [i for (_, i) in hist if rng.random() < frac_fail]
    return {
        "k": k,
        "start": start,
        "end": end,
        "hist": hist,
        "sample": sample,
        "failing": failing,
        "tz": rng.choice(TZS),
    }


def check_case(run, driver_out, case, impl):
    """monitor (property on the implementation's output) + diff against the model"""
    win, got, sampled_ids = spec(case)
    ok = True
    if impl["list"] != win:
        run.violation(
            "list_versions does not return exactly the versions in the window",
            input=case, impl=impl["list"], expected=win, predicate="list_exact", signature="C19:list",
        )
        ok = False
    if got is None:
        if impl["get"] is not None:
            run.violation("get with no version in the window must return None", input=case, impl=impl["get"],
                          expected=None, predicate="get_none_when_empty", signature="C19:get-none")
            ok = False
    else:
        if impl["get"] != got:
            run.violation(
                "get does not return every sample-th listed version minus the failed downloads, stamped with its own time",
                input=case, impl=impl["get"], expected=got, predicate="get_skips_failures", signature="C19:get",
            )
            ok = False
        elif impl.get("tz_ok") is False:
            run.violation("rows are not stamped in the requested timezone", input=case, impl=impl["get"],
                          expected=case["tz"], predicate="get_skips_failures", signature="C19:tz")
            ok = False
        elif impl.get("requested") != sampled_ids:
            run.violation("downloads requested are not every sample-th listed version", input=case,
                          impl=impl.get("requested"), expected=sampled_ids, predicate="get_sampled", signature="C19:sampled")
            ok = False
    if driver_out is not None:
        mlist, mget = driver_out
        if mlist != impl["list"]:
            run.diff("model listVersions vs implementation", input=case, impl=impl["list"], model=mlist)
        if mget != impl["get"]:
            run.diff("model get vs implementation", input=case, impl=impl["get"], model=mget)
    return ok


def ops_of(case):
    base = {"k": case["k"], "start": case["start"], "end": case["end"], "hist": case["hist"]}
    return [dict(base, op="c19.list"), dict(base, op="c19.get", sample=case["sample"], failing=case["failing"])]


def nontrivial(case):
    win, got, _ = spec(case)
    return len(case["hist"]) > case["k"] + 1 or len(win) != len(case["hist"]) or bool(case["failing"])


CORPUS = [
    # start equals the timestamp shared by the last version of page 1 and the first of page 2
    {"k": 1, "start": 9, "end": None, "hist": [[10, 0], [9, 1], [9, 2], [8, 3]], "sample": 0, "failing": [], "tz": "UTC"},
    # window cutting a page, sampling, one failure
    {"k": 2, "start": 3, "end": 9, "hist": [[10, 0], [9, 1], [9, 2], [7, 3], [5, 4], [4, 5], [3, 6], [2, 7], [1, 8]],
     "sample": 1, "failing": [3], "tz": "America/New_York"},
    {"k": 0, "start": None, "end": None, "hist": [], "sample": 1, "failing": [], "tz": "UTC"},
    {"k": 0, "start": 11, "end": None, "hist": [[10, 0]], "sample": 0, "failing": [], "tz": "UTC"},
    # first download fails, later ones must survive
    {"k": 3, "start": None, "end": None, "hist": [[5, 0], [4, 1], [3, 2]], "sample": 0, "failing": [0], "tz": "UTC"},
]


def caller_stream(run, n):
    """the caller's view: VersionedDataHandler.get_versioned_results over the scripted bucket. With no version in the window it returns
    None ('no data'), never an error; otherwise a frame ordered by modification time"""
    s3 = _s3mod()
    from elexmodel.handlers.data.VersionedData import VersionedDataHandler

    rng = run.rng
    for k in range(n):
        case = gen_case(rng)
        if k % 3 == 0 and case["hist"]:
            # force an empty window: it ends before the oldest version
            case = dict(case, start=None, end=min(t for t, _ in case["hist"]) - 5)
        want_list = spec(case)[0]
        client = FakeClient([tuple(x) for x in case["hist"]], case["k"] + 1)
        mgr = FakeManager(case["failing"])

        class _Sess:
            def create_client(self, name):
                return client

        iso = lambda t: None if t is None else ts2dt(t).isoformat()  # noqa: E731
        orig = (s3.get_session, s3.TransferManager)
        s3.get_session = lambda: _Sess()
        s3.TransferManager = lambda c: mgr
        try:
            h = VersionedDataHandler("2022-11-08_USA_G", "S", "county", estimands=["dem"], start_date=iso(case["start"]),
                                     end_date=iso(case["end"]), sample=case["sample"] + 1, tzinfo=case["tz"])
        finally:
            s3.get_session, s3.TransferManager = orig
        c2 = dict(case, caller=True)
        run.case(c2, True)
        run.count("caller: " + ("empty window" if not want_list else "versions in window"))
        try:
            df = h.get_versioned_results()
            got = None if df is None else list(df["last_modified"])
        except ValueError as e:
            if "No objects to concatenate" in str(e):
                continue  # every sampled download failed: outside "as long as at least one succeeds"
            got = {"raises": "ValueError"}
        except Exception as e:
            got = {"raises": type(e).__name__, "msg": str(e)[:160]}
        if not want_list:
            if got is not None:
                run.violation("no version in the window: the caller does not receive 'no data' (None)", input=c2,
                              impl=got if isinstance(got, dict) else f"{len(got)} rows", expected=None,
                              predicate="get_none_when_empty", signature="C19:caller-empty")
            else:
                run.traces += 1
        elif isinstance(got, dict) or got is None:
            run.violation("versions in the window but the caller gets no frame", input=c2, impl=got, predicate="get_sound",
                          signature="C19:caller")
        elif any(a > b for a, b in zip(got, got[1:])):
            run.violation("the caller's frame is not ordered by modification time", input=c2, predicate="get_sound",
                          signature="C19:caller-order")
        else:
            run.traces += 1


def extract(run):
    from harness import extract as X

    return X.generate("C19")


def explore(run, driver, budget):
    run.info["rule"] = RULE
    n = {"quick": 500, "thorough": 30000, "search": 6000}[budget]
    cases = list(CORPUS) if budget != "search" else []
    rng = run.rng
    for _ in range(n):
        cases.append(gen_case(rng, big=(budget != "quick")))
    outs = None
    if driver is not None:
        ops = []
        for c in cases:
            ops += ops_of(c)
        try:
            res = driver.run(ops)
            outs = [(res[2 * i], res[2 * i + 1]) for i in range(len(cases))]
        except C.DriverError as e:
            run.broken.append(f"model driver failed: {e}")
    for idx, c in enumerate(cases):
        impl = impl_run(c)
        run.case(c, nontrivial(c), {"impl": impl, "model": outs[idx] if outs else None})
        win, got, _ = spec(c)
        run.count("pages>=2" if len(c["hist"]) > c["k"] + 1 else "single page")
        run.count("empty window" if not win else "window")
        if c["failing"]:
            run.count("with failing downloads")
        check_case(run, outs[idx] if outs else None, c, impl)
        run.traces += 1
    caller_stream(run, {"quick": 60, "thorough": 2000, "search": 400}[budget])


def replay(run, driver, payload):
    c = payload["input"]
    out = None
    if driver is not None:
        res = driver.run(ops_of(c))
        out = (res[0], res[1])
    impl = impl_run(c)
    run.case(c, True, {"impl": impl, "model": out})
    check_case(run, out, c, impl)
